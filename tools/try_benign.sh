#!/bin/bash
# usage: tools/try_benign.sh <dir with patch.diff> <CHECK-ID>...   - a behaviour-preserving change must keep every check silent
set -u
d="$1"; shift
WT=${WT:-/tmp/lead-wt}
HEAD=$(git -C /repo rev-parse HEAD)
git -C $WT checkout -q --detach $HEAD 2>/dev/null || git -C /repo worktree add --detach $WT HEAD -q
git -C $WT checkout -q -- . ; git -C $WT clean -fdq
cd $WT && git apply "$d/patch.diff" || { echo "PATCH DOES NOT APPLY"; exit 3; }
cd /verif
for c in "$@"; do
  VERIF_OUT=$WT.out VERIF_REPO=$WT ./check $c --tier ${TIER:-quick} --procs ${PROCS:-12} > $WT.ben-$c.log 2>&1; rc=$?
  echo "check $c exit=$rc $(tail -1 $WT.ben-$c.log | cut -c1-120)"
  [ $rc != 0 ] && grep -v "^VIOLATION" $WT.ben-$c.log | grep "^  \|BROKEN\|HARNESS" | head -4 | cut -c1-300
done
git -C $WT checkout -q -- . ; git -C $WT clean -fdq
rm -rf $WT.out
