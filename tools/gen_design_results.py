#!/usr/bin/env python3
"""Regenerates the generated tables of DESIGN.md section 9 (between the RESULTS markers) from
known_findings.txt, findings.d/, seeded/*/meta.json, evidence/*.json and MANIFEST.json."""
import glob
import json
import re
import subprocess
from pathlib import Path

ROOT = Path(__file__).resolve().parents[1]
out = []
man = json.loads((ROOT / "MANIFEST.json").read_text())
checks = {c["property_id"]: c for c in man["checks"]}

out.append("### 9.1 Checks, bounds actually completed and measured coverage (quick tier, last committed evidence)\n")
out.append("| id | level | engine | executions / evaluations | distinct states / non-trivial | wall s | exhaustive | known findings |")
out.append("|---|---|---|---|---|---|---|---|")
for pid in sorted(checks):
    p = ROOT / "evidence" / f"{pid}.json"
    if not p.exists():
        continue
    e = json.loads(p.read_text())
    cov = e["coverage"]
    n = cov.get("executions") or cov.get("evaluations")
    d = cov.get("states") or cov.get("distinct_nontrivial")
    out.append(f"| {pid} | {e['level']} | {checks[pid].get('engine')} | {n} | {d} | {e['wall_s']} | {cov.get('exhaustive')} | {cov.get('known_findings_reproduced', 0)} |")
out.append("")

fixed = []
findings = []
for f in [ROOT / "known_findings.txt"] + sorted((ROOT / "findings.d").glob("C*.txt")):
    for line in f.read_text().splitlines():
        if line.startswith("fixed:"):
            m = re.match(r"fixed:\s+property=(C\d+)\s+(\S+)\s+(.*)", line)
            if m:
                fixed.append(m.groups())
        elif line.startswith("finding:"):
            m = re.match(r"finding:\s+property=(C\d+)\s+sig=(\S+)\s+(.*)", line)
            if m:
                findings.append(m.groups())

out.append("### 9.2 Genuine defects found on the unchanged tree and repaired (`fix:` commits in /repo)\n")
out.append("Every line is one `fixed:` entry of `known_findings.txt`; a fixed entry suppresses nothing - the check reports the violation again if it returns.\n")
subj = dict(
    line.split(" ", 1)
    for line in subprocess.run(["git", "-C", "/repo", "log", "--format=%h %s"], capture_output=True, text=True).stdout.splitlines()
)
out.append("| property | commit | what failed |")
out.append("|---|---|---|")
for pid, h, txt in sorted(fixed):
    out.append(f"| {pid} | `{h}` {subj.get(h, '')[:70]} | {txt[:260].replace('|', '/')} |")
out.append("")

out.append("### 9.3 Genuine defects recorded as known findings (not repaired: no small and safe patch)\n")
out.append("| property | signature | failing input / history |")
out.append("|---|---|---|")
for pid, sig, txt in sorted(findings):
    out.append(f"| {pid} | `{sig.replace('|', ' / ')}` | {txt[:240].replace('|', '/')} |")
out.append("")

out.append("### 9.5 Seeded property-breaking changes and which check catches them\n")
out.append(
    "Written by fresh sub-agents that saw only the property text and a scratch worktree (nothing from /verif); each was confirmed by the lead "
    "(demo passes on the clean tree and fails with the patch, the 31 baseline tests pass with the patch) before being kept in `seeded/<name>/`. "
    "`tools/try_seeded.sh seeded/<name> <ID>` re-runs the confirmation and the check against the patched tree.\n"
)
out.append("| seeded change | property | caught by | needs / note |")
out.append("|---|---|---|---|")
for d in sorted(glob.glob(str(ROOT / "seeded" / "*"))):
    mp = Path(d) / "meta.json"
    if not mp.exists():
        continue
    m = json.loads(mp.read_text())
    c = m.get("confirmed_by_lead", {})
    needs = str(m.get("needs", ""))[:160].replace("|", "/").replace("\n", " ")
    note = str(c.get("note", ""))[:220].replace("|", "/")
    out.append(f"| {Path(d).name} | {m.get('property', '?')} | {', '.join(c.get('caught_by', [])) or 'MISSED'} | {needs} - {note} |")
out.append("")

text = "\n".join(out)
dp = ROOT / "DESIGN.md"
s = dp.read_text()
a = s.index("<!-- RESULTS-BEGIN -->") + len("<!-- RESULTS-BEGIN -->")
b = s.index("<!-- RESULTS-END -->")
dp.write_text(s[:a] + "\n" + text + "\n" + s[b:])
print("DESIGN.md section 9 tables regenerated:", len(fixed), "fixed,", len(findings), "findings")
