#!/bin/bash
# usage: tools/try_batch.sh <CHECK-IDs comma> <dir>...   -> one summary line per seeded-change dir
ids=$(echo "$1" | tr ',' ' '); shift
for d in "$@"; do
  out=$(PROCS=${PROCS:-8} tools/try_seeded.sh "$d" $ids 2>&1)
  ex=$(echo "$out" | grep '^exit=' | tr '\n' ' ')
  base=$(echo "$out" | grep -c '31 passed')
  first=$(echo "$out" | grep '^  C' | head -1 | cut -c1-160)
  echo "$d [$ids]: $ex baseline_ok=$base | $first"
done
