#!/usr/bin/env python3
"""usage: tools/keep_seeded.py <src dir> <name> <caught-by comma list> <note>
Copies a confirmed seeded change into /verif/seeded/<name>/ and records what was run."""
import json, shutil, sys, pathlib, subprocess
src, name, caught, note = sys.argv[1:5]
dst = pathlib.Path("/verif/seeded") / name
dst.mkdir(parents=True, exist_ok=True)
for f in ("patch.diff", "demo.py"):
    shutil.copy(pathlib.Path(src) / f, dst / f)
meta = {}
p = pathlib.Path(src) / "meta.json"
if p.exists():
    try:
        meta = json.loads(p.read_text())
    except Exception:
        meta = {"raw_meta": p.read_text()[:2000]}
head = subprocess.run(["git", "-C", "/repo", "rev-parse", "--short", "HEAD"], capture_output=True, text=True).stdout.strip()
meta["confirmed_by_lead"] = {
    "base_commit": head,
    "ran": [
        "tools/try_seeded.sh <dir> <checks>: demo.py exits 0 on the clean tree and non-zero with the patch; baseline suite 31 passed with the patch; "
        "VERIF_REPO=<patched worktree> ./check <ID> --tier quick",
    ],
    "caught_by": [c for c in caught.split(",") if c],
    "note": note,
}
(dst / "meta.json").write_text(json.dumps(meta, indent=1) + "\n")
print("kept", dst)
