#!/usr/bin/env python3
"""usage: tools/gen_benign_prompt.py <ID> <first-index>  -> prompt for a fresh agent producing behaviour-preserving refactorings"""
import json, pathlib, sys
pid, first = sys.argv[1], int(sys.argv[2])
root = pathlib.Path("/verif")
prop = next(json.loads(l) for l in (root / "properties.jsonl").read_text().splitlines() if json.loads(l)["id"] == pid)
t = (root / "tools/prompt_benign_refactoring.txt").read_text()
wt, out = f"/tmp/mut-{pid}", f"/tmp/mut-out/ben-{pid}"
t = (t.replace("{WT}", wt).replace("{OUT}", out).replace("{ID}", pid).replace("{TITLE}", prop["title"])
     .replace("{STATEMENT}", prop["statement"]).replace("{FILES}", ", ".join(prop["anchors"]["files"])))
tried = []
for d in sorted(root.glob(f"benign/{pid}-*")):
    try:
        m = json.loads((d / "meta.json").read_text())
    except Exception:
        continue
    s = (m.get("summary") or "")[:200].replace("\n", " ")
    if s:
        tried.append("  - " + s)
idx = ", ".join(f"b{first + i}" for i in range(3))
t += f"""

ADDITIONAL REQUIREMENTS: never use `git stash` (the object store is shared): save your diff with `git -C {wt} diff > patch.diff`, revert with `git -C {wt} checkout -- .`. Choose refactorings DIFFERENT from these earlier ones (other functions / other kinds of restructuring, also in helpers the relevant files call into):
""" + "\n".join(tried) + f"\nAt least one of the three should restructure control flow or data flow in a non-trivial way (e.g. split a long coroutine into helpers, replace a flag variable by early returns, turn a while-loop with break into a for/else or vice versa, replace a list by a deque or dict where order is preserved, hoist a computation) while keeping behaviour identical.\nUse output directories {idx} instead of b1, b2, b3.\n"
print(t.replace("{{", "{").replace("}}", "}"))
