#!/bin/bash
# usage: tools/try_seeded.sh <dir with patch.diff demo.py meta.json> <CHECK-ID> [more check ids...]
# Confirms a seeded change in a scratch worktree (never in /repo): demo passes clean / fails patched, baseline passes patched,
# then runs the given checks against the patched tree (VERIF_REPO) and prints their verdict lines.
set -u
d="$1"; shift
WT=${WT:-/tmp/lead-wt}
HEAD=$(git -C /repo rev-parse HEAD)
git -C $WT checkout -q --detach $HEAD 2>/dev/null || { git -C /repo worktree add --detach $WT HEAD -q; }
git -C $WT checkout -q -- . ; git -C $WT clean -fdq
cd $WT
echo "== demo on clean tree"; PYTHONPATH=$WT/src timeout 300 /venv/bin/python "$d/demo.py" >$WT.demo-clean.log 2>&1; echo "exit=$?"
git apply "$d/patch.diff" || { echo "PATCH DOES NOT APPLY"; exit 3; }
echo "== demo on patched tree"; PYTHONPATH=$WT/src timeout 300 /venv/bin/python "$d/demo.py" >$WT.demo-patched.log 2>&1; echo "exit=$?"; tail -3 $WT.demo-patched.log | cut -c1-300
echo "== baseline on patched tree"
for i in 1 2 3; do r=$(PYTHONPATH=$WT/src /venv/bin/python -m pytest -q -p no:cacheprovider --timeout=900 tests/pytest 2>&1 | tail -1); echo "$r"; case "$r" in *"31 passed"*) break;; esac; done
cd /verif
for c in "$@"; do
  echo "== check $c on patched tree"
  VERIF_OUT=$WT.out VERIF_REPO=$WT ./check $c --tier ${TIER:-quick} --procs ${PROCS:-10} > $WT.check-$c.log 2>&1; echo "exit=$?"
  grep -v "^VIOLATION" $WT.check-$c.log | grep "^  " | head -4 | cut -c1-260
  tail -1 $WT.check-$c.log | cut -c1-200
done
git -C $WT checkout -q -- . ; git -C $WT clean -fdq
rm -rf $WT.out
