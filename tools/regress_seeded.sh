#!/bin/bash
# usage: WT=/tmp/x-wt tools/regress_seeded.sh <k> <n>   -> re-confirms every n-th seeded change starting at k against the checks that are recorded as catching it
k=$1; n=$2
i=0
for d in /verif/seeded/*/; do
  i=$((i+1)); [ $(( (i - 1) % n )) -eq $k ] || continue
  [ -n "${SKIP:-}" ] && grep -qx "$(basename $d)" "$SKIP" && continue
  ids=$(python3 -c "import json,sys; m=json.load(open('$d/meta.json')); print(','.join(m.get('confirmed_by_lead',{}).get('caught_by',[]) or [m.get('property','')]))")
  out=$(PROCS=${PROCS:-4} /verif/tools/try_seeded.sh "${d%/}" $(echo $ids | tr ',' ' ') 2>&1)
  if echo "$out" | grep -q "PATCH DOES NOT APPLY"; then echo "$(basename $d) STALE (patch does not apply to HEAD)"; continue; fi
  ex=$(echo "$out" | grep '^exit=' | tr '\n' ' ')
  echo "$(basename $d) [$ids]: $ex"
done
