#!/usr/bin/env python3
"""usage: tools/gen_mut_prompt.py <ID> <first-index> [extra tried dir...]  -> prompt text on stdout
Builds the prompt of a fresh bug-seeding agent from the property text only (properties.jsonl) plus one-line summaries of
the ideas already tried for that property (seeded/<ID>-*/meta.json and the extra dirs) so that a new wave finds new sites."""
import json, pathlib, sys
pid, first = sys.argv[1], int(sys.argv[2])
extra = sys.argv[3:]
root = pathlib.Path("/verif")
prop = next(json.loads(l) for l in (root / "properties.jsonl").read_text().splitlines() if json.loads(l)["id"] == pid)
t = (root / "tools/prompt_seeded_change.txt").read_text()
wt, out = f"/tmp/mut-{pid}", f"/tmp/mut-out/{pid}"
t = (t.replace("{WT}", wt).replace("{OUT}", out).replace("{ID}", pid).replace("{TITLE}", prop["title"])
     .replace("{STATEMENT}", prop["statement"]).replace("{QUANT}", prop["quantifier"]["text"])
     .replace("{FILES}", ", ".join(prop["anchors"]["files"])))
tried = []
for d in sorted(root.glob(f"seeded/{pid}-*")) + [pathlib.Path(x) for x in extra]:
    try:
        m = json.loads((d / "meta.json").read_text())
    except Exception:
        continue
    s = (m.get("summary") or m.get("raw_meta") or "")[:260].replace("\n", " ")
    if s:
        tried.append("  - " + s)
idx = ", ".join(f"m{first + i}" for i in range(3))
t += f"""

ADDITIONAL REQUIREMENTS FOR THIS ROUND: (1) at least two of your three changes must be of the kind "two cooperating sites that each look fine alone", "manifests only for an unusual input / boundary value / rare combination of options", or "manifests only after a multi-step history or under a particular ordering of events / timing / fault"; (2) never use `git stash` (other people share the object store): save your diff with `git -C {wt} diff > patch.diff` and revert with `git -C {wt} checkout -- .`; (3) do NOT repeat any of these ideas, which were already tried for this property (find different code sites / mechanisms, also in code that the relevant files call into):
""" + "\n".join(tried) + f"\nUse output directories {idx} instead of m1, m2, m3.\n"
print(t.replace("{{", "{").replace("}}", "}"))
