#!/usr/bin/env python3
"""Regenerates MANIFEST.json from vf/manifest_data.py (keeps the file valid and uniform)."""
import json, sys
sys.path.insert(0, ".")
from vf.manifest_data import CHECKS, NOT_APPLICABLE, ENGINES, NOTES

checks = []
for c in CHECKS:
    pid = c["id"]
    checks.append({
        "property_id": pid,
        "quick_cmd": f"./check {pid} --tier quick",
        "thorough_cmd": f"./check {pid} --tier thorough",
        "evidence_file": f"/verif/evidence/{pid}.json",
        "replay_cmd_template": f"./check {pid} --replay {{path}}",
        "engine": c["engine"],
        "level_claimed": {"category": c["level"], "text": c["text"], "design_ref": f"DESIGN.md §5 {pid}"},
        "level_note": c["note"],
        "technique": c["technique"],
    })
doc = {
    "version": 1,
    "setup_cmd": "true",
    "hooks": {
        "guard": "GALLIA_VERIF",
        "enable": "no source hooks: every seam is monkey-patched from the harness process (asyncio.open_connection, aiosqlite, time, load_transport); the guard name is reserved and unused",
        "baseline_off_cmd": "cd /repo && /venv/bin/python -m pytest -ra -q -p no:cacheprovider --timeout=900 --continue-on-collection-errors",
        "source_commits": [],
        "add_only": True,
    },
    "engines": ENGINES,
    "checks": checks,
    "notes": NOTES,
    "not_applicable": NOT_APPLICABLE,
}
json.dump(doc, open("MANIFEST.json", "w"), indent=1)
print("wrote MANIFEST.json with", len(checks), "checks")
