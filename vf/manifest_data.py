"""Source of MANIFEST.json (python tools_gen_manifest.py)."""

ENGINES = [
    {
        "name": "vloop",
        "path": "vf/engine/vloop.py vf/engine/explore.py vf/engine/netsim.py",
        "serves_properties": ["C04", "C05"],
        "kind_free_text": "stateless model checker for asyncio code: virtual-time BaseEventLoop stepped by hand, "
        "deviation-bounded exhaustive DFS over environment choices (segment delivery, timers, EOF/RST, cancel), "
        "replay of choice prefixes on fresh objects",
    },
]

CHECKS = [
    {
        "id": "C04",
        "engine": "vloop",
        "level": "model_checking",
        "technique": "exhaustive enumeration of transport event scripts on the real client under a virtual-time event loop, compared with a reference retry machine",
        "text": "Every transport event script up to length 5 (quick) / 7 (thorough) over 10 event kinds, five endless tails, "
        "max_retry 0..3, per-request overrides, failing reconnects and long runs around the 120-reply / silence limits is "
        "executed on the real UDSClient.request under virtual time; outcome, number of transmissions, reconnects, "
        "no-retransmission-in-pending, effective timeout and bounded completion are compared with a reference machine "
        "written from the statement. Exhaustive within that bound.",
        "note": "Trusted: CPython asyncio primitives, the reference retry machine, the scripted transport as a complete "
        "description of transport behaviour. Not covered: scripts longer than the bound (except the listed long families).",
    },    {
        "id": "C05",
        "engine": "vloop",
        "level": "model_checking",
        "technique": "stateless deviation-bounded exploration of all schedules (reply arrival vs timers, cancellation points, start orders) of concurrent callers on the real ECU client under a virtual-time event loop; monitor on the task-tagged transport log",
        "text": "2-3 caller tasks (1-2 requests each, caller-unique identifiers), the real cyclic tester-present worker and a "
        "reconnect caller share one real ECU object; for every scenario (reply scripts R/PR/-/C per caller, start orders, "
        "max_retry 0/1) every schedule with <= 2 deviations (3 in the thorough tier on two-caller scenarios) is executed: reply "
        "delivered while tasks are runnable, timer before a deliverable reply, both in one iteration, one cancel at any "
        "iteration boundary. A monitor checks that no other task writes/reconnects inside an exchange window, that every "
        "returned reply echoes the caller's own identifier, and that all callers finish (no lost lock).",
        "note": "Trusted: CPython asyncio primitives and FIFO callback order as reproduced by vloop; in-memory tagging transport. "
        "Not covered: more than 3 callers + worker, more than the stated deviations; per-scenario execution caps are reported in the evidence.",
    },
]

NOT_APPLICABLE = [
    {"property_id": f"C{n:02d}", "reason": "check under construction in this round (design in DESIGN.md §5); not claimed yet"}
    for n in range(1, 21)
    if f"C{n:02d}" not in {c["id"] for c in CHECKS}
]

NOTES = (
    "All checks run the real gallia code from /repo/src (editable install in /venv) - nothing to rebuild. "
    "./check <ID> --tier quick|thorough; exit 0 held / 1 VIOLATION / 2 harness broken. "
    "known_findings.txt lists genuine defects (fixed: / finding:)."
)
