"""Source of MANIFEST.json (python tools_gen_manifest.py)."""

ENGINES = [
    {
        "name": "vloop",
        "path": "vf/engine/vloop.py vf/engine/explore.py vf/engine/netsim.py vf/engine/dbshim.py vf/engine/seams.py vf/engine/realnet.py",
        "serves_properties": ["C04", "C05", "C06", "C07", "C08", "C09", "C10", "C11", "C12", "C19"],
        "kind_free_text": "stateless model checker for asyncio code: virtual-time BaseEventLoop stepped by hand, "
        "deviation-bounded exhaustive DFS over environment choices (segment delivery, timers, EOF/RST, cancel), "
        "replay of choice prefixes on fresh objects",
    },
    {
        "name": "enum",
        "path": "vf/engine/runner.py vf/ref/",
        "serves_properties": ["C01", "C02", "C03", "C13", "C14", "C15", "C16", "C17", "C18", "C20"],
        "kind_free_text": "bounded-exhaustive enumerator for sequential code: Cartesian products of boundary alphabets, exhaustive short "
        "byte spaces, mutation neighbourhoods and complete fault/lifecycle products, every case run on the real code and compared with an "
        "independent reference (ISO 14229-1 layout table vf/ref/iso14229.py, lifecycle model vf/ref/c15_model.py); 16-way process pool",
    },
]

CHECKS = [
    {
        "id": "C04",
        "engine": "vloop",
        "level": "model_checking",
        "technique": "exhaustive enumeration of transport event scripts on the real client under a virtual-time event loop, compared with a reference retry machine",
        "text": "Every transport event script up to length 5 (quick) / 7 (thorough) over 10 event kinds, five endless tails, "
        "max_retry 0..3, per-request overrides, failing reconnects and long runs around the 120-reply / silence limits and per-transmission budgets is "
        "executed on the real UDSClient.request under virtual time; outcome, number of transmissions, reconnects, "
        "no-retransmission-in-pending, effective timeout, bounded completion and 'never use a transport instance that reconnect() replaced' are compared with a reference machine "
        "written from the statement. Timeouts include 20.3 s / 27.75 s (silence allowance not a whole number of polls). Exhaustive within that bound.",
        "note": "Trusted: CPython asyncio primitives, the reference retry machine, the scripted transport as a complete "
        "description of transport behaviour. Not covered: scripts longer than the bound (except the listed long families).",
    },    {
        "id": "C05",
        "engine": "vloop",
        "level": "model_checking",
        "technique": "stateless deviation-bounded exploration of all schedules (reply arrival vs timers, cancellation points, start orders) of concurrent callers on the real ECU client under a virtual-time event loop; monitor on the task-tagged transport log",
        "text": "2-3 caller tasks (1-2 requests each, caller-unique identifiers; plus four- and five-caller sets with bound 1), the real cyclic tester-present worker and a "
        "reconnect caller or a task that stops the worker mid-exchange share one real ECU object; for every scenario (reply scripts R/PR/-/C per caller and per-transmission scripts like PC|R, start orders, "
        "max_retry 0/1) every schedule with <= 2 deviations (3 in the thorough tier on two-caller scenarios) is executed: reply "
        "delivered while tasks are runnable, timer before a deliverable reply, both in one iteration, one cancel at any "
        "iteration boundary. Reply scripts include busyRepeatRequest per transmission (B|R, B|B|R: the back-off sleep lies inside the exchange) and final negative replies. Callers that skip the hooks; a caller whose cancellation took effect must end with CancelledError; which request each reply object names is inspected once all callers were served. A monitor checks that no other task writes/reconnects inside an exchange window, that every "
        "returned reply echoes the caller's own identifier, and that all callers finish (no lost lock).",
        "note": "Trusted: CPython asyncio primitives and FIFO callback order as reproduced by vloop; in-memory tagging transport. "
        "Not covered: more than 3 callers + worker, more than the stated deviations; per-scenario execution caps are reported in the evidence.",
    },    {
        "id": "C06",
        "engine": "vloop",
        "level": "model_checking",
        "technique": "stateless deviation-bounded exploration of the real DoIP transport on an in-memory TCP stream: exhaustive gateway frame scripts x release points x segmentations x schedules, judged by an ideal in-order demultiplexer using frame delivery times",
        "text": "The real DoIPTransport.connect/write/read run against a scripted gateway: (i) all 256 activation types x protocol versions and all 256 routing activation response codes (usable iff success code, request bytes exact); (ii) every sequence of <= 3 gateway frames (<= 2 with the full 22-letter alphabet incl. reversed-pair messages, 3 with a 9-letter core; thorough: wider) x release after activation / after the k-th write (optionally a given time later: traffic spread over the ack window) x 4 client programs followed by draining reads x segmentations (coalesced, frame-aligned, byte-by-byte, every single split) x every schedule with <= 1 (thorough 2) deviations. (iii) long histories: 17..130 (thorough ..300) frames pending while the client is idle (sleep, then read) or between a request and its ACK, followed by an alive check. Gateway EOF events (what was sent before the close is still delivered), four-step write/read/write/read histories with skipped frames, a second client task blocked in read() while the first writes (the ack time runs from the moment the message is on the wire). Checked per execution: write ok iff matching ACK (TargetUnreachable NACK tolerated) delivered within 2 s else ConnectionError by the deadline; reads return exactly the diagnostic messages for this address pair in stream order, nothing lost or fabricated; every alive check answered with the tester address within 0.5 s in every client phase; only expected frames on the wire.",
        "note": "Trusted: CPython asyncio streams/primitives, FIFO callback order as reproduced by vloop, the independent frame encoder and "
        "the ideal demultiplexer in vf/checks/demux.py. Not covered: scripts longer than the bound, more deviations than the bound, "
        "two client tasks using one transport concurrently, caller timeouts on write.",
    },
    {
        "id": "C07",
        "engine": "vloop",
        "level": "model_checking",
        "technique": "stateless deviation-bounded exploration of the real HSFZ transport on an in-memory TCP stream: exhaustive gateway frame scripts x release points x segmentations x schedules, judged by an ideal in-order demultiplexer using frame delivery times",
        "text": "The real HSFZTransport.connect/write/read run against a scripted gateway: every sequence of <= 3 gateway frames (<= 2 with the full 19-letter alphabet incl. reversed-pair data, 3 with an 8-letter core; thorough: wider) x release at connect / after the k-th write (optionally a given time later) x 4 client programs followed by draining reads x segmentations (coalesced, frame-aligned, byte-by-byte, every single split) x ack timeouts 250/1000/2500 ms x every schedule with <= 1 (thorough 2) deviations. Also undefined control words (0x0000, 0x0010, 0x00fe, with/without address pair; a run must be consistent with reading them as error words or with ignoring them) and long histories of 17..130 (thorough ..300) pending frames while the client is idle or between a request and its ack. Gateway EOF events, four-step write/read/write/read histories with skipped frames. Checked per execution: write ok iff an ack with the tester's pair echoing the first five bytes is delivered within the ack timeout, else ConnectionError by the deadline and the connection is closed; reads return exactly the data frames ecu->tester in stream order; error control words make the next consumer raise a ConnectionError; an error word makes the client close the connection; alive checks are answered in the same instant with the tester address.",
        "note": "Trusted: CPython asyncio streams/primitives, FIFO callback order as reproduced by vloop, the independent frame encoder and "
        "the ideal demultiplexer in vf/checks/demux.py. Not covered: scripts longer than the bound, more deviations than the bound, "
        "two client tasks using one transport concurrently, caller timeouts on write.",
    },    {
        "id": "C19",
        "engine": "vloop",
        "level": "model_checking",
        "technique": "stateless deviation-bounded exploration of the real line transports and the vECU TCP server loop on in-memory streams: exhaustive message sequences x segmentations x timer placements, compared with an independent line codec",
        "text": "All message sequences of length <= 2 over 16 messages (lengths 1/2/255/4095 x contents 00/FF/0A0D/ascending) and length 3 over a "
        "6-message (thorough 10) alphabet, plus 50-message bursts, are pushed through TCPLinesTransport / UnixLinesTransport read(), write() and "
        "TCPUDSServerTransport.handle_client (echo server) under every segmentation in {coalesced, per message, byte-by-byte (short streams), every "
        "single split near every message boundary (all offsets on short streams), pairs of splits on short streams}; the explorer fires the 1 s read "
        "timeout at every point of the partially delivered stream (<= 1 deviation quick, 2 thorough). Also: a slow peer (writes wait in the transport buffer, incl. > 64 KiB with paused writer; close() must flush), two testers connected to one virtual ECU at overlapping times, requests that take differing times inside the ECU. Slow peer with write timeouts (several alignments of the 64 KiB writer pause: the peer must see whole messages only), leftovers of one connection never reach another (reconnect / two transports). Checked: reads return exactly the sent "
        "sequence, one message per read, a timed-out read consumes nothing, end of stream is an empty read / loop exit, wire bytes written are "
        "exactly hex+LF per message.",
        "note": "Trusted: CPython asyncio streams; independent hex-line codec. Not covered: messages longer than 4095 bytes (StreamReader limit 64 KiB "
        "is a documented asyncio bound), more than 3 messages except the bursts.",
    },    {
        "id": "C08",
        "engine": "vloop",
        "level": "model_checking",
        "technique": "exhaustive crash-point enumeration (every byte offset of the peer's output x EOF/RST/silence) on the real transports and UDS client under a virtual-time event loop, with deviation-bounded timing exploration",
        "text": "For tcp-lines, unix-lines, DoIP and HSFZ the exchange connect(+activation); write; (ack); reply against a well-behaved peer is cut at every "
        "byte offset of the peer's output, by EOF, RST or silence, with and without a caller timeout (mode A: bare transport operations), under the "
        "real UDSClient with max_retry 1/3 and a listener that accepts again after 0/0.05/0.35/2.5/11 s or never (mode B; also with a peer that answers responsePending before the reply), and with double close / close after "
        "loss (mode C); each scenario with <= 1 (thorough 2) timing deviations. Checked: every pending operation ends with a timeout, a connection error "
        "or an empty read no later than caller timeout + ack time and never hangs (deadlock/horizon detection); no read returns data the peer did not "
        "completely send; with a retry left and a peer that accepts and answers in time - in particular one that is back within the client's first back-off - the request returns the correct reply through a reconnect; "
        "close() never raises. Flaky restarts: the first connection(s) after the outage are accepted and then dropped / reset / ignored (DoIP must ride through within its reconnect window).",
        "note": "Trusted: the stream loss model (eof_received / connection_lost(ConnectionResetError) / silence) and vloop. A read without caller timeout on "
        "a merely silent peer is allowed to wait. Recovery is only demanded when the peer's answer on the new connection reached the client in time.",
    },    {
        "id": "C01",
        "engine": "enum",
        "level": "exploration",
        "technique": "bounded-exhaustive differential codec check: every request class and client method x full product of per-field boundary alphabets, against an independent ISO 14229-1 layout table",
        "text": "Every concrete UDSRequest class (41, by introspection) and every UDSClient service method (38, driven on a recording transport) over the "
        "full Cartesian product of per-field boundary alphabets (u8/u16/u24 boundaries, both suppress settings, address/size widths {1,2,4,15} quick "
        "/ 1..15 thorough, explicit and computed format identifier, 0..3(4) repeated groups, records of 0/1/2/300 bytes, one-parameter-out-of-range "
        "cases). Clauses: pdu equals the reference bytes; from_pdu round trip of class, attributes and bytes; parse_dynamic never degrades to Raw; "
        "out-of-range input is refused; client wire bytes equal the reference encoding of the caller's arguments. 33 k evaluations quick, 0.8 M thorough.",
        "note": "Trusted: vf/ref/iso14229.py (table, self-tested against 43 worked ISO examples). ABC base classes skipped. A failure in from_pdu/"
        "parse_dynamic/client that merely follows a failing pdu is counted as a consequence of it.",
    },
    {
        "id": "C02",
        "engine": "enum",
        "level": "exploration",
        "technique": "exhaustive short byte space + generated valid responses + mutation neighbourhood through the real response parser, against the table-derived decoder and acceptance predicate",
        "text": "All byte strings of length 1..3 for the 22 response first bytes (thorough; quick: third byte from 16 values), all table-valid responses of every "
        "service, all 256 NRC for every SID, prefixes / extensions / bit flips of valid responses, typed construction of every response class. Oracle: "
        "typed implies pdu == input and every exposed field equals the value the ISO layout places there; table rejects implies not typed; the hex "
        "stored by the real DBHandler.insert_scan_result equals the input. 0.12 M parses quick, 1.4 M thorough.",
        "note": "Trusted: vf/ref/iso14229.py. A parser exception or Raw* counts as rejection. Reserved encodings are not required either way. sqlite is "
        "not exercised here (capturing queue); C11 covers the database.",
    },
    {
        "id": "C03",
        "engine": "enum",
        "level": "exploration",
        "technique": "bounded-exhaustive request/reply pairing through helpers.parse_pdu against a statement-derived reference classifier that works on bytes only",
        "text": "Requests of every kind (typed and raw, plus unknown and unparsable raw requests) x replies {genuine, every bit flip of bytes 1..8, prefixes, "
        "extensions, a reply of every other service, 7F x same/other/unknown SID x 64 (quick) / all 256 (thorough) NRC bytes, negative replies of "
        "length 1,2,4,5}: 0.4 M pairs quick, 1.07 M thorough, classified ACCEPT / MISMATCH / MALFORMED. Plus direct matches() of every typed response "
        "and totality + class-correctness of the NRC-to-exception map over UDSErrorCodes. Histories: one request object (RawRequest.pdu setter, typed attribute "
        "setters) re-used across all ordered pairs of request states per kind and along a chain through all kinds; an object whose fields read back as set must serialise accordingly; verdict must equal a fresh object's.",
        "note": "Trusted: vf/ref/iso14229.py echo relation. Points the statement leaves open are admitted as sets (secondary echo differs, undecodable with "
        "differing echo, reserved encodings). UDSClient.request() itself is covered by C04.",
    },
    {
        "id": "C15",
        "engine": "enum",
        "level": "fault_enumeration",
        "technique": "exhaustive crash-point enumeration of the real entry_point() in forked processes on the real event loop (exit kind x lifecycle point x resources x hook variant), with a reference exit-code/record model and a differential failing-hook comparison",
        "text": "Every combination of {plain AsyncScript, Scanner, UDSScanner on an in-memory ECU} x exit kind {return, sys.exit(0|1|3|'text'), ConnectionError, "
        "UDSException, RuntimeError, real SIGINT, db fault} x lifecycle point {pre-hook, db-open, setup before/after base step, main, teardown "
        "before/after base step, db-close, post-hook} x {artifacts, db, lock} on/off x hook variant {disabled, ok, pre fails, post fails(, both)} is run "
        "for real (3760 runs quick, 5232 thorough incl. double faults, Rerunner round trips and fresh-interpreter conformance). Plus: lock file that cannot be taken (OSError), nested commands (an outer command awaiting an inner entry_point(), like script rerun; per-owner log oracles). Every await of the database set-up and completion is its own SIGINT / fault point (signatures carry the point). Checked against the "
        "documented mapping 0/n/74/70/130: process status, META.json (code, times, config round trip), run_meta row, complete decodability and exact "
        "record sequence of log.json.zst, flock release, hook environment, and 'a failing hook changes nothing'.",
        "note": "Trusted: CPython's exit rules for asyncio.run (conformance-tested in thorough), in-memory transport/fake ECU, tracing DBHandler subclass. "
        "Not covered: lock contention, dumpcap, power supply, Windows, signals other than SIGINT, more than two faults per run.",
    },    {
        "id": "C09",
        "engine": "vloop",
        "level": "model_checking",
        "technique": "exhaustive enumeration of all session-transition graphs (ECU models) x scanner configurations; the real SessionsScanner.entry_point() runs on each under a virtual-time event loop and is compared with a reference breadth-first search",
        "text": "All directed session graphs on the default session + 2 further sessions (256 graphs each for ids (2,3) and (3,0x40)); thorough: + 3 "
        "further sessions (32768 graphs) x depth x skip sets x thorough x reset x refusal flavour (0x12 / 0x7E / 0x22); variants: ECU refusing TesterPresent outside the default session with 0.3 s reply latency (the keep-alive worker fires), a second scan into a database holding an earlier deeper scan. ECUs that refuse ECUReset in one or both non-default sessions (with --reset). Each configuration is one complete "
        "run of the real scanner command (setup, 127 probes per stack, teardown) against the model ECU through the real tcp-lines transport. Checked: "
        "result == sessions reachable from 0x01 within depth through non-skipped probes (reference BFS), every reported 'via stack' path is a real path "
        "of length <= depth (also as session_transition rows of a scan database in a sub-family of runs), skipped sessions are never requested, the scan terminates on cyclic graphs, exit code 0 (or the documented abort with exit "
        "code 1 when a reached session cannot return to the default session and --reset is off).",
        "note": "Trusted: model ECU, reference BFS, vloop; benign reply timing (timing faults are C04/C08). Paths are read from the RESULT log lines. "
        "Not covered: more than 4 sessions, hooks (--with-hooks), power cycling.",
    },    {
        "id": "C17",
        "engine": "enum",
        "level": "exploration",
        "technique": "bounded-exhaustive write/read round trips through the real zstd log handler plus explicit-state BFS over PenlogReader operation sequences and the in-process hr entry point, compared with a list-based reference model",
        "text": "Every record of a 616-record alphabet (7 levels x 4 tag sets x 11 texts incl. newline/CRLF/NUL/emoji/'<3>' look-alike/70 kB x exception "
        "trace) as a single-record log, all level sequences and all text-kind sequences of length <= 3 (quick) / <= 4 (thorough), thorough also all "
        "level x text pairs, are logged through get_logger/add_zst_log_handler/remove_zst_log_handler and read back as .zst, .gz, plain, stdin pipe "
        "and stdin file, with and without the '<prio>' prefix: text, level, tags, timestamp, len, records(p, k, reverse) for all 9 thresholds x k in "
        "-(n+1)..n+1 x both directions, and hr {forward, reverse, --head, --tail} x n in {0,1,len-1,len,len+1,100} x all thresholds must equal the "
        "reference slices; file variants built from the written lines: every mixed prefix mask, final newline stripped; hr with two / three FILE arguments in all modes (oracle: concatenated single-file outputs); zones with daylight saving (both hemispheres, instants around both switches, child interpreters); bursts of 10 000 - 50 000 records with a stalled writer; derived .zst variants consist of two zstd frames back to back; all reader operation sequences up to depth 3 / 4 on logs of 0..N+1 records are explored breadth-first with state "
        "deduplication (1.2 M evaluations quick, 10 M thorough).",
        "note": "Trusted: python logging/queue, zstandard/gzip, str(PenlogRecord) as rendering of one record, the reference model. Admitted sets: trace in "
        "stacktrace field or appended to text; head/tail count before or after the filter; errors for positive offsets >= len and out-of-range seeks. "
        "Not covered: sequences longer than N with full attribute products, cursed-hr, colour output, concurrent handlers.",
    },    {
        "id": "C10",
        "engine": "vloop",
        "level": "model_checking",
        "technique": "exhaustive enumeration of table-driven ECU models x scanner configurations; the real ServicesScanner / ScanIdentifiers entry_point() run on each under a virtual-time event loop and are compared with the scanner semantics computed from the model table",
        "text": "Service scan: 7 vendor / response-id services each meet every (availability profile over sessions {1,2,3} x answer behaviour) combination "
        "(98 each: positive on exactly one probe length, 0x31/0x33/0x7E/0x12/0x22, 0x13 only, silent, silent below a probe length, positive on an unprobed length), ISO services 0x22/0x3E/0x31/0x85 every "
        "profile x well-formed behaviour, packed 11 per model (thorough: plus a cross product on two services), x 6 configurations (session lists incl. none "
        "and an unavailable session, skip maps incl. bare session key, response ids, check-session, reset) plus timed models (S3 session timeout; an ECU that reboots on a probe). ECUs left in a non-default session by a previous tester. ECUs that acknowledge ECUReset at once and perform it 0.3 s later; identifier models with a session that cannot be re-entered (that session's scan is aborted, every other session must still be scanned). Checked: reported services are implemented in "
        "that session; every implemented service that answers a probe meaningfully is reported; every service id 0x00-0xFF (response ids only on request) "
        "is probed while the ECU is in the claimed session; skipped ids are never sent; exit code. Identifier scan: all subsets of a 6-identifier universe "
        "straddling a byte boundary per session x service {0x22, 0x27, 0x2E, 0x31} x start/end windows x skip x check-session x payload: the 'Positive "
        "replies' counter equals the number of identifiers (x 3 sub-functions for 0x31, 7-bit limit for 0x27) in range answered positively, every probe "
        "PDU has the right layout and arrives in the claimed session, nothing outside the range or in the skip list is sent.",
        "note": "Trusted: model ECUs, vloop, benign reply timing. Services are assumed to be probed independently (packing). Counters are read from the "
        "RESULT log lines. Not covered: hooks, power cycling, more than 3 sessions.",
    },    {
        "id": "C11",
        "engine": "vloop",
        "level": "model_checking",
        "technique": "stateless deviation-bounded exploration of exchange histories on the real ECU client + real DBHandler (sqlite3 behind a FIFO completion shim) under a virtual-time loop: database completion timing and a cancellation/failure of the run at every iteration boundary; rows read back with plain sqlite3 and compared with a reference recorder",
        "text": "Histories: every request kind of the ISO table (first/middle/last response value set of the generator) x {genuine positive reply, negative reply, "
        "timeout, connection error, reply of another service, truncated reply}; all sequences of length <= 3 (quick) / 4 (thorough) over a 14-letter "
        "state-relevant alphabet (DSC ok/refused, SecurityAccess seed/key, ECUReset, F186 reads, plain read, suppressed TesterPresent, timeout, mismatch, "
        "malformed, connection error, negative reply) with alternating ANALYZE tags; implicit-logging toggles; a failing run; messages of 4095/4096/5000 bytes; 32 full "
        "UDSScanner lifecycles (flag on/off before setup x properties x ping x toggles in main); three concurrent users of the ECU object (60 orders); requests ending with uncommon exceptions; a transient 'database is locked' on the k-th row, runs with up to 12 transient errors (every row once / one row repeatedly). Slow disk (1030 rows pending in the writer queue) with scripted cancels right after the k-th reply; transient errors at COMMIT; lifecycle runs with a stalled writer and a failing run_meta update. Schedules: database "
        "completions early/late (<= 1, thorough 2 deviations) and one cancellation of the run at every iteration boundary, then complete_run_meta + "
        "disconnect. Checked on the database file: one row per request put on the wire while implicit logging is on (also for the exchange in flight when the run is cancelled), in transmission order, exact request "
        "and reply bytes (or NULL), exception column set iff the request raised and naming the class, request_time = transmission time <= response_time, "
        "response_time present whenever reply bytes are, state = client state before the request (reference state machine), log_mode, no 'Could not "
        "log' warning, run_meta completed, shutdown terminates.",
        "note": "Trusted: sqlite3, the FIFO model of aiosqlite's worker, the reference state rules, vf/ref/iso14229.py generators. An exchange in flight at "
        "the moment of cancellation may or may not be recorded. Not covered: sqlite OperationalError retry loop, more than one cancellation.",
    },    {
        "id": "C18",
        "engine": "enum",
        "level": "exploration",
        "technique": "bounded-exhaustive enumeration of (command, option, subset of {CLI, env, gallia.toml}, value, spelling) on gallia's real create_parser/parse_typed_args, compared with a reference precedence function over declarations re-read from the class sources; plus JSON / META.json / database re-load and template key checks",
        "text": "For all 34 leaf commands and all 851 options the parser is built by gallia's own create_parser() (tree pruned to one command, real gallia.toml via "
        "GALLIA_CONFIG, real environment). Every subset of the sources an option is declared to have is exercised with pairwise different valid values from "
        "per-kind alphabets (ints base 2/8/10/16, hex bytes, ranges, 2-D ranges, enums by name/value/hex, literals, URIs, paths, floats, --x/--no-x, const "
        "form, short flag, '=' form, multi-token lists); one or two invalid values per source must be rejected with a message naming the source; every "
        "accepted config is dumped and reloaded through CONFIG_TYPE(**json), through Rerunner.main() via META.json and through a real aiosqlite run_meta "
        "row; --template must list every registry key and every declared key under its section and honour a value set there. Quick: 47 k evaluations, "
        "thorough: 0.2 M (all value rotations, all spellings of the winning source, all option pairs x source pairs per command). Wrong-typed TOML shapes (tables, arrays, bool/float for int ...) at every file-configurable key must be used or reported, never ignored; stored configs (META.json, run_meta row) hold every field of the config model, agree with each other, and re-create the same values through gallia's own Rerunner in a fresh interpreter.",
        "note": "Trusted: pydantic, argparse, tomllib; pydantic-level default/required/field order; the alphabet tables; declarations are read via AST + "
        "re-evaluation of the Field(...) expressions. Not covered: 'script vecu db' (no acceptable command line), oem (single valid value), dict options, "
        "env spellings of list-of-tuple options, hidden options.",
    },    {
        "id": "C12",
        "engine": "vloop",
        "level": "model_checking",
        "technique": "exhaustive enumeration of request histories x recorded ECU models x database shapes: record with the real ECU client + DBHandler against a real RandomUDSServer, replay with the real DBUDSServer, compare reply by reply (record/replay differential under a virtual-time loop, sqlite behind a FIFO shim)",
        "text": "For seeds 0..3 (thorough 0..15) of a RandomUDSServer with small session/service/identifier spaces, five state-establishing prefixes (other session, security unlocked) "
        "followed by every suffix of length <= 2, and all histories of length <= 2 over a 17-letter "
        "alphabet and length 3 over 9 (thorough 12, length 4 over 8) letters - DSC to offered/unoffered sessions incl. suppressed, SecurityAccess seed / right "
        "key / wrong key (derived from the recorded seed), ECUReset, F186, reads/writes/routines, TesterPresent with and without suppress bit - are "
        "recorded through the real client and DBHandler and replayed from the default state by a real DBUDSServer on the produced file, for four "
        "database shapes (one run; the history recorded twice; two ECUs selected by ECU name; by string properties; by falsy / null properties). Further: ECU names that collide under SQL LIKE / case folding (the later recording selected), recording faults (reply k arrives after the timeout and is logged as answer to request k+1), ECUReset types 1/4/5. A recorder wall clock that steps back during the recording; ECU name and properties together selecting the second of two runs of one ECU. Checked: every reply "
        "of the replay equals the recorded reply bytes, silence where none was recorded.",
        "note": "Trusted: sqlite3, FIFO model of aiosqlite, deterministic stand-in for the unseeded seed RNG. The ecu table link is written with plain SQL "
        "(gallia has no writer for it). Not covered: databases recorded from other ECU implementations, histories longer than the bound.",
    },    {
        "id": "C20",
        "engine": "enum",
        "level": "exploration",
        "technique": "bounded-exhaustive enumeration of the real URI / host:port / transport-config / range parsers against a reference tuple model and a structural range evaluator; the discovery scanners' own emission code and the transports' connect paths are executed against recording fakes",
        "text": "Hosts {DNS names, IPv4 incl. 0.0.0.0/255.255.255.255, IPv6 full/compressed/'::'/'::1'/link-local/v4-mapped} x ports {None,0,1,80,65535} x every "
        "parameter map over the DoIP / HSFZ / ISO-TP / raw-CAN config models (each field absent or a boundary value spelled in decimal, hex, octal, binary, "
        "upper/lower case) x schemes: TargetURI.from_parts -> str -> TargetURI preserves scheme, host, port, parameters and location and Config(**qs_flat) "
        "yields the written numbers; split_host_port/join_host_port are lossless; the HSFZ / ISO-TP / DoIP discoverers' URI construction is exercised with "
        "boundary arguments incl. sub-second timeouts. The discovery scanners themselves (ISO-TP incl. all 256 extended addresses, HSFZ, DoIP) run against fakes and every URI they emit must parse back to the endpoint that answered and connect with it; what reaches the socket (setsockopt / bind structs, connect arguments) is decoded and compared with the URI's numbers for every transport; prefix-less hex is rejected, digit strings are decimal. Parsing is history-independent: 22 literals through 27 integer entry points in every ordered pair (A, B, A again) within one process. Every ip transport is connected twice through one TargetURI object, which must read the same before and after. Range grammar: all expressions of <= 4 tokens for unravel and <= 3 outer groups for unravel_2d over "
        "8 numerals incl. overlaps, single-element, reversed and empty ranges, repeated outer keys and whitespace variants, through the raw functions and "
        "the Ranges / Ranges2D pydantic types: result = sorted union (per outer key; bare key = all). 4.9 M evaluations quick, 86 M thorough.",
        "note": "Trusted: pydantic, urllib, ipaddress, vf/ref/c20_model.py. Hosts are compared as hosts. Reversed ranges, empty parts and undocumented whitespace "
        "may be rejected with ValueError but never silently differ. Not covered: zone-id IPv6 hosts, 4-token expressions with wide ranges, Windows schemes.",
    },    {
        "id": "C13",
        "engine": "enum",
        "level": "model_checking",
        "technique": "explicit-state exploration of the real UDSServer (reachable states found by executing request histories on fresh objects, closure under the alphabet verified) against an ISO 14229-1 decision-list reference computed from the model",
        "text": "Every reachable server state (session x security level x pending seed) of 3 hand-built and 13 (quick) / 76 (thorough) random models; in each state "
        "every SID x 0..2 payload bytes over boundary bytes and all model sub-functions with and without suppress bit, plus structured ISO requests and keys "
        "(7.7-9 k requests per state quick, 19-21 k thorough; 3.7 M / 75 M transitions). Reply and successor state equal the reference list (0x11 / 0x7F / "
        "0x13 / 0x12 / 0x7E / 0x13 in this priority, RoutineControl exempt, default positives, SecurityAccess sequencing); suppression iff positive and "
        "suppress bit; state changes exactly on positive DSC / even SecurityAccess / ECUReset; inactivity boundary 10.0 / 10.5 s on a virtual clock; all 512 "
        "behaviour-switch subsets on one representative per decision class with the differential 'switching one rule off only removes that rule'.",
        "note": "Trusted: vf/ref/c13_model.py tables (ISO 14229-1:2013), virtual clock, controlled entropy for SecurityAccess seeds. Listed as uncovered: services "
        "without a gallia codec, reserved / edition-dependent layouts. Switch subsets are applied for one step from states of the default configuration.",
    },
    {
        "id": "C14",
        "engine": "enum",
        "level": "model_checking",
        "technique": "invariant checking over the explicit state space of the real UDSServer: every request of the alphabet in every reachable state, replies re-checked by the real client matcher; one long history through the real handle_client loop",
        "text": "In every reachable state (180 quick / 1620 thorough) every SID x 0..8 payload bytes (patterned beyond 2), 4095-byte requests, structured ISO requests "
        "and everything gallia's 40+ request classes serialise (6.2 M / 126 M transitions): handle_request never raises, the session stays one the model offers, "
        "every reply passes helpers.parse_pdu both for RawRequest(req) and for parse_dynamic(req); the whole alphabet as one history through the real "
        "TCP/Unix server transport's client callback - callback and StreamReader limit captured from its own run() - is consumed to EOF with replies identical "
        "to direct handle_request. Idle gaps (9.9 / 10.0 / 11 s, also followed by TesterPresent) before a representative request set in every state; the wire must be exactly hex+LF per reply. One deviation per execution: each of the first 24 draws of the per-reply random generators forced to either end of its range.",
        "note": "Default behaviour switches only. No real socket segmentation here (C19 covers framing). parse_pdu verdicts memoised as a pure function.",
    },
    {
        "id": "C16",
        "engine": "enum",
        "level": "exploration",
        "technique": "differential transcripts (model dump + exhaustive request battery + histories) across separate interpreter processes with different hash seeds, import orders and clocks, plus graph search on every generated model",
        "text": "Model and answers to an exhaustive request battery per session plus SecurityAccess / reset histories, built through RngVirtualECUConfig -> "
        "RngVirtualECU._server(), for 8 parameter sets x 24/3 (quick) or 256/16 (thorough) seeds, in child interpreters with PYTHONHASHSEED 0/1/4242/random x 2 "
        "import orders x 2 clock bases (7 environments quick, 16 thorough; 4.9 M / 136 M answer lines compared): transcripts include 'requestSeed, then every handler-answered request' histories and a repeat of the reference environment; same-process restarts (second server from the same config object, setup() twice, fresh parameters) must give the first model and leave the parameters object unchanged; different parameter sets sharing seed and probabilities built in one process (both orders); parameter sets passed through gallia's own argument parser as strings; byte-identical except masked SecurityAccess "
        "seeds; mandatory sessions and services present; every offered session reachable from session 1 and able to return to it; setup twice gives the same model.",
        "note": "Children run unmodified gallia except a deterministic clock. Quick-tier batteries cover at most 3 sessions per model.",
    },
]

NOT_APPLICABLE = [
    {"property_id": f"C{n:02d}", "reason": "check under construction in this round (design in DESIGN.md §5); not claimed yet"}
    for n in range(1, 21)
    if f"C{n:02d}" not in {c["id"] for c in CHECKS}
]

NOTES = (
    "All checks run the real gallia code from /repo/src (editable install in /venv) - nothing to rebuild. "
    "./check <ID> --tier quick|thorough; exit 0 held / 1 VIOLATION / 2 harness broken. "
    "known_findings.txt lists genuine defects (fixed: / finding:)."
)
