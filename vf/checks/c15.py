"""C15 - every run leaves a consistent exit code, META.json, log file, lock and database record.

Fault enumeration on the real runtime.  Every case of the complete product

    command kind x (exit kind, lifecycle point) x artifacts on/off x database on/off x lock on/off x hook variant

is executed in a freshly forked child process through exactly the line the CLI uses,
``asyncio.run(cmd.entry_point())`` in the main thread (real event loop, real SIGINT handling of
asyncio.Runner, real aiosqlite thread, real zstd log writer and queue-listener thread, real /bin/sh hooks).
The commands are thin subclasses of the real AsyncScript / Scanner / UDSScanner whose setup/main/teardown
call the real base implementation and raise the planned exit at the planned point; the scanners talk to an
in-memory transport with a small fake ECU.  After asyncio.run() has returned or raised, the child records what
is only visible in-process (flock state, log handler state, surviving threads, every log record emitted while
the file handler was attached) and exits; the parent then reads META.json, the sqlite file, log.json.zst
(PenlogReader) and the hook environment dumps and compares everything with vf/ref/c15_model.py.
"""

from __future__ import annotations

import asyncio
import fcntl
import itertools
import json
import logging
import os
import re
import shutil
import signal
import sqlite3
import sys
import threading
import time
import traceback
from datetime import datetime
from pathlib import Path
from typing import Any

import gallia.command  # noqa: F401  (must precede gallia.plugins.plugin)
import aiosqlite
import gallia.command.base as gbase
import gallia.plugins.plugin as gplugin
from gallia.command.base import AsyncScript, AsyncScriptConfig, HookVariant, Scanner, ScannerConfig
from gallia.command.config import Field
from gallia.command.uds import UDSScanner, UDSScannerConfig
from gallia.db.handler import DBHandler
from gallia.log import ColorMode, Loglevel, PenlogReader, get_logger, setup_logging
from gallia.services.uds.core.exception import MissingResponse
from gallia.services.uds.core.service import TesterPresentRequest
from gallia.services.uds.helpers import raise_for_error
from gallia.transports.base import BaseTransport, TargetURI

from vf.engine.runner import Broken, Result
from vf.ref import c15_model as M

ID = "C15"
LEVEL = "fault_enumeration"
RULE = (
    "complete product: command kind {plain AsyncScript, Scanner, UDSScanner on in-memory transport + fake ECU} x "
    "(exit kind, lifecycle point) {normal return; sys.exit(0|1|3|'text'), ConnectionError, UDSException, RuntimeError, "
    "real SIGINT - each at setup-early/-late, main, teardown-early/-late (early/late = before/after the base class "
    "step); SIGINT at pre-hook, post-hook and at every await of the database set-up (connect, schema query, row insert) and "
    "completion (complete_run_meta execute / commit, disconnect executor-join / commit / close) - raised right before the real "
    "await so that the cancellation lands at that await; database fault at connect, complete_run_meta, disconnect commit / close; lock file cannot "
    "be taken (OSError)} x artifacts "
    "dir on/off x database on/off x lock file on/off x hook variant {disabled, ok, pre fails, post fails"
    " [, both fail: thorough]}; combinations whose point does not exist (hook point without hooks, db point without "
    "db, lock fault without lock) are counted as unreachable, not evaluated. Plus the history shape 'an outer command awaits "
    "an inner command's entry_point() in its main() while its own log file is open' (what `script rerun` does): inner command "
    "kind x (exit kind, point inside run) x inner artifacts on/off x database on/off, outer artifacts on; every command of the "
    "process is held to the META / run row / log oracle, and each log handler must stay open and attached until its owner's own "
    "final bookkeeping. One case = one forked process running the CLI's "
    "asyncio.run(cmd.entry_point()). non-trivial = distinct (command, exit kind, point, resources, hook variant) whose "
    "planned exit actually fired at the planned point (or the plain normal run)"
)
ASSUMPTIONS = [
    "process-level exit status is derived from the outcome of asyncio.run() by CPython's documented rules "
    "(return n -> n, SystemExit(n) -> n, KeyboardInterrupt -> 130, other exception -> 1); the thorough tier re-runs one "
    "case per (command, exit kind, point) in a fresh interpreter through sys.exit(asyncio.run(...)) and compares the real wait status",
    "sys.exit('text') maps to 70 and ConnectionError/UDSException map to 74 only for commands declaring them (Scanner family), "
    "to 70 for a plain script - as documented in BaseCommand.CATCHED_EXCEPTIONS / entry_point",
    "a Ctrl-C that arrives after the run's outcome is fixed (any await of the database completion, post-hook) may be reported as 130 or as the run's own code, "
    "but process, META.json and database must agree",
    "a lock file or database that cannot be opened is not an ending the statement's mapping lists: any non-zero status is accepted, "
    "but what exists afterwards must be consistent - a run directory that was created has a META.json with that status, its log "
    "handler is closed and detached, a run row that exists is complete",
    "the lock is checked in-process (second open file description) when entry_point() returns; when an exception leaves entry_point() "
    "the process ends and the kernel drops the lock",
    "'log closed' is judged in-process when asyncio.run() ends (file object closed, writer thread joined, handler detached) and only "
    "then on the file (PenlogReader decodes it; records == every record >= DEBUG emitted on the 'gallia' logger while the handler was "
    "attached, in order). A handler still open at that moment is not counted as closed: the only thing left to close it is "
    "logging.shutdown() at interpreter exit, which deadlocks with the writer thread when a record is still queued (seen in 2 of 20 fresh runs)",
    "a database connection that is still open when asyncio.run() ends (its aiosqlite worker is a non-daemon thread) or any other "
    "surviving non-daemon thread means the interpreter cannot exit",
    "the in-memory transport / fake ECU, the tracing DBHandler subclass (delegates to the real one) and the hook scripts are harness",
    "UDSScanner cases run with ping=False and tester_present_interval=60 (avoids 0.5 s real sleeps; thorough adds ping=True cases)",
]
CHUNK = 1

SHM = Path("/dev/shm")
GLOG = get_logger("gallia.verif.c15")
ARGV = ["/usr/local/bin/gallia-c15", "verif", "lifecycle", "--case"]
TARGET = "tcp-lines://fake-ecu.invalid:1"

# ---------------------------------------------------------------------------------------------
# child-side state (one case per process, so plain module globals are fine)

ST: dict[str, Any] = {}


class HarnessFailure(BaseException):
    pass


def _reset_state(kind: str, point: str, first: str | None = None) -> None:
    ST.clear()
    ST.update(
        kind=kind,
        point=point,
        first=first,  # fault sequences: main ends with this kind before the planned exit happens in teardown
        first_fired=False,
        fired=False,
        reached=[],
        dbcalls=[],
        dbcalls_outer=[],
        nest=False,
        cmds=[],  # command objects of this process: [single] or [outer, inner]
        zst=[],  # log file handlers in creation order
        zst_path=[],
        window_open=[],  # per handler: its owner has not yet begun its final bookkeeping
        detached_early=[],  # per handler: first record it missed while its owner was still running
        closed_at_owner_finally=[],  # per handler: was it already closed when its owner began to clean up
        records=[],
        in_hook=None,
        hook_raised=None,
        harness_error=None,
    )


class MemTransport(BaseTransport, scheme="c15mem"):
    """In-memory transport with a tiny fake ECU behind it."""

    def __init__(self, target: TargetURI) -> None:
        super().__init__(target)
        self.rx: list[bytes] = []

    @classmethod
    async def connect(cls, target: str | TargetURI, timeout: float | None = None) -> "MemTransport":
        await asyncio.sleep(0)
        t = target if isinstance(target, TargetURI) else TargetURI(target)
        return cls(t)

    async def close(self) -> None:
        await asyncio.sleep(0)
        self.is_closed = True

    async def write(self, data: bytes, timeout: float | None = None, tags: list[str] | None = None) -> int:
        await asyncio.sleep(0)
        if self.is_closed:
            raise ConnectionResetError(104, "c15: transport closed")
        if data[:1] == b"\x3e":
            if data[1:2] == b"\x00":
                self.rx.append(b"\x7e\x00")
        elif data == b"\x22\xf1\x90":
            self.rx.append(b"\x62\xf1\x90C15VIN")
        elif data[:1] == b"\x22":
            self.rx.append(b"\x7f\x22\x31")
        elif data[:1] == b"\x10" and len(data) == 2:
            self.rx.append(b"\x50" + data[1:2] + b"\x00\x32\x01\xf4")
        else:
            self.rx.append(b"\x7f" + data[:1] + b"\x11")
        return len(data)

    async def read(self, timeout: float | None = None, tags: list[str] | None = None) -> bytes:
        await asyncio.sleep(0)
        if self.is_closed:
            raise ConnectionResetError(104, "c15: transport closed")
        if self.rx:
            return self.rx.pop(0)
        await asyncio.sleep(timeout if timeout is not None else 1.0)
        raise TimeoutError


def _load_transport(target: TargetURI) -> type[BaseTransport]:
    return MemTransport


class TracingDB(DBHandler):
    """The real DBHandler; records which run_meta related calls happen and hosts the db-open / db-close points."""

    def _owner(self) -> Any:
        for c in ST["cmds"]:
            if c.db_handler is self:
                return c
        return None

    def _calls(self) -> list[str]:
        own = self._owner()
        return ST["dbcalls_outer"] if getattr(own, "_c15_role", None) == "outer" else ST["dbcalls"]

    # Every await of the database set-up / completion is its own crash point.  A planned SIGINT is raised right before
    # the real await, so the cancellation is delivered by asyncio AT that await inside gallia's code (no artificial
    # suspension point); a planned fault replaces / follows the real call.

    def _seam(self, fn: Any, name: str, fault_after: bool = False) -> Any:
        owner = self._owner()
        me = asyncio.current_task()

        async def wrapped(*a: Any, **kw: Any) -> Any:
            if asyncio.current_task() is not me:
                return await fn(*a, **kw)  # the executor task of the DBHandler uses the same connection
            if _substep(owner, name) == "dbfault":
                if fault_after:
                    await fn(*a, **kw)
                raise aiosqlite.OperationalError(f"c15: injected sqlite failure at {name}")
            return await fn(*a, **kw)

        return wrapped

    async def connect(self) -> None:
        self._calls().append("connect")
        _substep(self._owner(), "db-open:connect")
        await super().connect()

    async def check_version(self) -> None:
        _substep(self._owner(), "db-open:schema")
        await super().check_version()

    async def insert_run_meta(self, *a: Any, **kw: Any) -> None:
        self._calls().append("insert_run_meta")
        _substep(self._owner(), "db-open:insert")
        await super().insert_run_meta(*a, **kw)

    async def complete_run_meta(self, *a: Any, **kw: Any) -> None:
        self._calls().append("complete_run_meta")
        if _substep(self._owner(), "db-close:complete-execute") == "dbfault":
            raise aiosqlite.OperationalError("c15: database is locked")
        conn = self.connection
        assert conn is not None
        real_commit = conn.commit
        conn.commit = self._seam(real_commit, "db-close:complete-commit")  # type: ignore[method-assign]
        try:
            await super().complete_run_meta(*a, **kw)
        finally:
            conn.commit = real_commit  # type: ignore[method-assign]

    async def disconnect(self) -> None:
        self._calls().append("disconnect")
        conn = self.connection
        if conn is not None:
            conn.commit = self._seam(conn.commit, "db-close:disconnect-commit")  # type: ignore[method-assign]
            conn.close = self._seam(conn.close, "db-close:disconnect-close", fault_after=True)  # type: ignore[method-assign]
        _substep(self._owner(), "db-close:disconnect-executor")
        await super().disconnect()


def _substep(cmd: Any, name: str) -> str | None:
    """Synchronous crash point in front of a real await.  Returns "dbfault" if the caller has to fail here."""
    if getattr(cmd, "_c15_role", None) == "outer":
        ST["reached"].append("outer:" + name)
        return None
    ST["reached"].append(name)
    if ST["point"] != name or ST["fired"]:
        return None
    if ST["kind"] == "dbfault":
        if name == "db-open:connect":
            return None  # this fault is in the configuration (unusable path)
        ST["fired"] = True
        GLOG.info(f"c15 marker: dbfault at {name}")
        return "dbfault"
    if ST["kind"] == "sigint":
        ST["fired"] = True
        GLOG.info(f"c15 marker: sigint at {name}")
        signal.raise_signal(signal.SIGINT)
    return None


async def _point(cmd: Any, name: str) -> None:
    if getattr(cmd, "_c15_role", None) == "outer":
        ST["reached"].append("outer:" + name)  # the planned exit belongs to the inner command
        return
    ST["reached"].append(name)
    if name == "main" and ST["first"] is not None and not ST["first_fired"]:
        ST["first_fired"] = True
        kind = ST["first"]
    elif ST["point"] != name or ST["fired"] or ST["kind"] in ("normal", "dbfault", "lockfault"):
        return
    else:
        ST["fired"] = True
        kind = ST["kind"]
    await asyncio.sleep(0)
    GLOG.info(f"c15 marker: {kind} at {name}")
    if kind == "exit0":
        sys.exit(0)
    if kind == "exit1":
        sys.exit(1)
    if kind == "exit3":
        sys.exit(3)
    if kind == "exit-text":
        sys.exit("c15: exit with a text")
    if kind == "conn":
        raise ConnectionResetError(104, "c15: connection reset by peer")
    if kind == "uds":
        ecu = getattr(cmd, "ecu", None)
        if ecu is not None and not ecu.transport.is_closed:
            # natural path: negative response from the ECU turned into a UDSException
            raise_for_error(await ecu.read_data_by_identifier(0x0001))
            ST["harness_error"] = "fake ECU did not answer negatively"
        raise MissingResponse(TesterPresentRequest(suppress_response=False))
    if kind == "unexpected":
        raise RuntimeError("c15: unexpected failure")
    if kind == "sigint":
        signal.raise_signal(signal.SIGINT)
        await asyncio.sleep(20)
        ST["harness_error"] = "SIGINT was not delivered as cancellation within 20 s"
        raise HarnessFailure("sigint not delivered")
    ST["harness_error"] = f"unknown kind {kind}"


class _Lifecycle:
    """Mixin placed in front of the real command classes."""

    async def setup(self) -> None:
        await _point(self, "setup-early")
        await super().setup()  # type: ignore[misc]
        await _point(self, "setup-late")

    async def main(self) -> None:
        await asyncio.sleep(0)
        if getattr(self, "_c15_role", None) == "outer":
            # like Rerunner.main(): run another command's entry_point() while the own log file is open
            inner = ST["cmds"][1]
            GLOG.info("c15 outer: starting the inner command")
            code = await inner.entry_point()
            await asyncio.sleep(0)
            GLOG.info(f"c15 outer: inner command ended with {code}")
            ST["reached"].append("outer:after-inner")
            sys.exit(code)
        ecu = getattr(self, "ecu", None)
        tr = getattr(self, "transport", None)
        if ecu is not None:
            resp = await ecu.read_data_by_identifier(0xF190)
            GLOG.result(f"c15 main: {resp}")
        elif tr is not None:
            GLOG.result(f"c15 main: {(await tr.request(bytes([0x3E, 0x00]))).hex()}")
        else:
            GLOG.result("c15 main: plain")
        await _point(self, "main")

    async def teardown(self) -> None:
        await _point(self, "teardown-early")
        await super().teardown()  # type: ignore[misc]
        await _point(self, "teardown-late")

    async def _db_finish_run_meta(self) -> None:
        # first statement of entry_point()'s final bookkeeping: up to here the command's own log handler must have
        # stayed open and attached, from here on its owner closes it
        for i, h in enumerate(ST["zst"]):
            if Path(ST["zst_path"][i]).parent == self.artifacts_dir and ST["window_open"][i]:  # type: ignore[attr-defined]
                ST["closed_at_owner_finally"][i] = bool(h.file.closed)
                ST["window_open"][i] = False
        await super()._db_finish_run_meta()  # type: ignore[misc]

    def run_hook(self, variant: HookVariant, exit_code: int | None = None) -> None:
        name = f"{variant.value}-hook"
        if getattr(self, "_c15_role", None) == "outer":
            return super().run_hook(variant, exit_code)  # type: ignore[misc]
        ST["reached"].append(name)
        if ST["point"] == name:
            ST["fired"] = True
        ST["in_hook"] = variant.value
        try:
            super().run_hook(variant, exit_code)  # type: ignore[misc]
        except BaseException:
            ST["hook_raised"] = variant.value
            raise
        finally:
            ST["in_hook"] = None


class C15PlainConfig(AsyncScriptConfig):
    note: str = Field("plain", description="c15 harness command")


class C15ScannerConfig(ScannerConfig):
    note: str = Field("scanner", description="c15 harness command")


class C15UDSConfig(UDSScannerConfig):
    note: str = Field("uds", description="c15 harness command")


class C15OuterConfig(AsyncScriptConfig):
    note: str = Field("outer", description="c15 harness command that runs another command")


class C15Outer(_Lifecycle, AsyncScript):
    CONFIG_TYPE = C15OuterConfig


class C15Plain(_Lifecycle, AsyncScript):
    CONFIG_TYPE = C15PlainConfig


class C15Scanner(_Lifecycle, Scanner):
    CONFIG_TYPE = C15ScannerConfig


class C15Uds(_Lifecycle, UDSScanner):
    CONFIG_TYPE = C15UDSConfig


CLASSES: dict[str, Any] = {"plain": C15Plain, "scanner": C15Scanner, "uds": C15Uds, "outer": C15Outer}


class Probe(logging.Handler):
    def emit(self, record: logging.LogRecord) -> None:
        glog = logging.getLogger("gallia")
        attached = [i for i, h in enumerate(ST["zst"]) if h.queue_handler in glog.handlers]
        for i in range(len(ST["zst"])):
            if ST["window_open"][i] and i not in attached and ST["detached_early"][i] is None:
                ST["detached_early"][i] = record.getMessage()
        ST["records"].append(
            [record.levelno, record.name, record.getMessage(), attached, ST["in_hook"], bool(record.exc_info)]
        )


# ---------------------------------------------------------------------------------------------
# case construction


def hook_script(d: Path, which: str, fail: bool, sigint: bool) -> str:
    s = f"env -0 > '{d}/{which}.env'; echo c15-{which}-stdout; echo c15-{which}-stderr >&2; "
    if sigint:
        s += "kill -INT $PPID; "
    s += f"exit {7 if fail else 0}"
    return s


def build_config(case: dict[str, Any], d: Path) -> Any:
    cmd, kind, point, hv = case["cmd"], case["kind"], case["point"], case["hv"]
    kw: dict[str, Any] = {}
    if case["art"]:
        kw["artifacts_base"] = d / "artifacts"
    if case["db"]:
        if kind == "dbfault" and point == "db-open:connect":
            (d / "blocker").write_text("not a directory\n")
            kw["db"] = d / "blocker" / "sub" / "run.sqlite"
        else:
            kw["db"] = d / "db" / "run.sqlite"
    if case["lock"]:
        kw["lock_file"] = lock_path(case, d)
    kw["hooks"] = hv != "off"
    kw["pre_hook"] = hook_script(d, "pre", hv in ("pre-fail", "both-fail"), kind == "sigint" and point == "pre-hook")
    kw["post_hook"] = hook_script(d, "post", hv in ("post-fail", "both-fail"), kind == "sigint" and point == "post-hook")
    if cmd in ("scanner", "uds"):
        kw["target"] = TARGET
        kw["dumpcap"] = False
    if cmd == "uds":
        kw["ping"] = bool(case.get("ping", False))
        kw["tester_present_interval"] = 60.0
    return CLASSES[cmd].CONFIG_TYPE(**kw)


def lock_path(case: dict[str, Any], d: Path) -> Path:
    if case["kind"] == "lockfault":
        return d / "no-such-dir" / "lockfile"
    return d / "lockfile"


def build_outer_config(case: dict[str, Any], d: Path) -> Any:
    kw: dict[str, Any] = {"artifacts_base": d / "artifacts", "hooks": False}
    if case["db"]:
        kw["db"] = d / "db" / "run.sqlite"
    return C15OuterConfig(**kw)


def case_label(case: dict[str, Any]) -> str:
    if case.get("nest"):
        return (
            f"outer command awaiting {case['cmd']}/{case['kind']}@{case['point']} inner-artifacts={'on' if case['art'] else 'off'} "
            f"outer-artifacts=on db={'on' if case['db'] else 'off'} lock=off hooks=off"
        )
    return (
        f"{case['cmd']}/{case['kind']}@{case['point']} artifacts={'on' if case['art'] else 'off'} "
        f"db={'on' if case['db'] else 'off'} lock={'on' if case['lock'] else 'off'} hooks={case['hv']}"
    )


# ---------------------------------------------------------------------------------------------
# child


def _child_prepare(case: dict[str, Any], d: Path) -> tuple[Any, dict[str, Any]]:
    signal.signal(signal.SIGINT, signal.default_int_handler)
    signal.alarm(90)
    for k in [k for k in os.environ if k.startswith("GALLIA_")]:
        del os.environ[k]
    sys.argv = ARGV + [case_label(case).replace(" ", ",")]
    _reset_state(case["kind"], case["point"], case.get("first"))
    if (case["kind"] == "dbfault" and case["point"] == "db-open:connect") or case["kind"] == "lockfault":
        ST["fired"] = True  # the fault is in the configuration
    ST["nest"] = bool(case.get("nest"))
    gbase.DBHandler = TracingDB  # type: ignore[misc]
    gplugin.load_transport = _load_transport  # type: ignore[assignment]
    real_add = gbase.add_zst_log_handler

    def add(**kw: Any) -> Any:
        h = real_add(**kw)
        ST["zst"].append(h)
        ST["zst_path"].append(str(kw["filepath"]))
        ST["window_open"].append(True)
        ST["detached_early"].append(None)
        ST["closed_at_owner_finally"].append(None)
        return h

    gbase.add_zst_log_handler = add  # type: ignore[assignment]
    setup_logging(level=Loglevel.INFO, color_mode=ColorMode.NEVER, no_volatile_info=True, logger_name="")
    glog = logging.getLogger("gallia")
    glog.addHandler(Probe(level=0))
    config = build_config(case, d)
    cmd = CLASSES[case["cmd"]](config)
    cmd._c15_role = "inner" if ST["nest"] else "single"
    cmd._c15_kind = case["cmd"]
    top = cmd
    if ST["nest"]:
        top = C15Outer(build_outer_config(case, d))
        top._c15_role = "outer"
        top._c15_kind = "outer"
        ST["cmds"].append(top)
    ST["cmds"].append(cmd)
    pre = {"config_json": config.model_dump_json(), "command": f"{type(cmd).__module__}.{type(cmd).__name__}",
           "cmd_id": cmd.id, "baseline_handlers": len(glog.handlers)}
    return top, pre


def _child(case: dict[str, Any], d: Path) -> None:
    obs: dict[str, Any] = {}
    try:
        errf = os.open(d / "stderr.txt", os.O_WRONLY | os.O_CREAT | os.O_TRUNC, 0o644)
        os.dup2(errf, 2)
        os.dup2(errf, 1)
        cmd, pre = _child_prepare(case, d)
        obs.update(pre)
        obs["t0"] = time.time()
        value: Any = None
        try:
            value = asyncio.run(cmd.entry_point())
            fate = "return"
        except BaseException as e:  # noqa: BLE001 - the outcome of the process is what is observed
            fate = f"raise:{type(e).__name__}"
            value = e.code if isinstance(e, SystemExit) else None
            tb = traceback.extract_tb(e.__traceback__)
            site = [f for f in tb if "/gallia/" in f.filename]
            obs["raise_site"] = site[-1].name if site else (tb[-1].name if tb else "?")
            obs["raise_text"] = "".join(traceback.format_exception_only(type(e), e)).strip()[:300]
            traceback.print_exc()
        obs["t1"] = time.time()
        signal.signal(signal.SIGINT, signal.SIG_IGN)
        obs["fate"] = fate
        obs["value"] = value if isinstance(value, int | str | type(None)) else repr(value)
        obs["proc_code"] = M.python_process_code(fate, value)
        glog = logging.getLogger("gallia")
        obs["zst"] = [
            {
                "path": ST["zst_path"][i],
                "closed": bool(h.file.closed),
                "attached": h.queue_handler in glog.handlers,
                "listener_alive": h.queue_listener is not None and h.queue_listener._thread is not None,
                "detached_early": ST["detached_early"][i],
                "closed_at_owner_finally": ST["closed_at_owner_finally"][i],
            }
            for i, h in enumerate(ST["zst"])
        ]
        obs["handlers_after"] = len(glog.handlers)
        # Work that was already handed to the sqlite worker of a connection that is still open (e.g. a commit whose
        # await was cancelled) is carried out by that thread no matter what; wait for it so that the database file is
        # observed in its final state (the worker is FIFO: a marker function behind the pending calls).
        for c in ST["cmds"]:
            conn = c.db_handler.connection if c.db_handler is not None else None
            th = getattr(conn, "_thread", None)
            if conn is not None and th is not None and th.is_alive() and hasattr(conn, "_tx"):
                done = threading.Event()
                conn._tx.put_nowait((None, done.set))
                done.wait(timeout=15)
        obs["cmds"] = [
            {
                "role": c._c15_role,
                "cmd": c._c15_kind,
                "command": f"{type(c).__module__}.{type(c).__name__}",
                "cmd_id": c.id,
                "config_json": c.config.model_dump_json(),
                "art": c.config.artifacts_base is not None,
                "db": c.config.db is not None,
                "artifacts_dir": str(c.artifacts_dir) if c.artifacts_dir is not None else None,
                "handlers_left": len(c.log_file_handlers),
                # an aiosqlite connection whose stop()/close() was never requested keeps its non-daemon worker thread
                "db_left_open": bool(
                    c.db_handler is not None
                    and c.db_handler.connection is not None
                    and getattr(c.db_handler.connection, "_running", False)
                ),
            }
            for c in ST["cmds"]
        ]
        obs["cmd_handlers_left"] = sum(x["handlers_left"] for x in obs["cmds"])
        obs["db_connection_left_open"] = any(x["db_left_open"] for x in obs["cmds"])
        others = [t for t in threading.enumerate() if t is not threading.main_thread() and not t.daemon]
        if not obs["db_connection_left_open"]:
            # a closed aiosqlite connection has told its worker to stop; give it time to do so. (With a
            # connection left open the worker never stops - no point in waiting.)
            for t in others:
                t.join(timeout=15)
        obs["threads"] = sorted(t.name for t in others if t.is_alive())
        if case["lock"]:
            lp = lock_path(case, d)
            if lp.exists():
                fd = os.open(lp, os.O_RDONLY)
                try:
                    fcntl.flock(fd, fcntl.LOCK_EX | fcntl.LOCK_NB)
                    obs["lock_free"] = True
                except BlockingIOError:
                    obs["lock_free"] = False
                finally:
                    os.close(fd)
            else:
                obs["lock_free"] = None
        obs["artifacts_dir"] = str(cmd.artifacts_dir) if cmd.artifacts_dir is not None else None
        for k in ("fired", "reached", "dbcalls", "dbcalls_outer", "records", "hook_raised", "harness_error"):
            obs[k] = ST[k]
    except BaseException:  # noqa: BLE001 - reported to the parent, which raises
        obs["harness_error"] = "child harness exception:\n" + traceback.format_exc()
    try:
        (d / "obs.json").write_text(json.dumps(obs))
    finally:
        os._exit(0)


class ChildDied(Exception):
    """the forked process running the command under test was killed by a signal (14 = the 90 s watchdog: it hung)"""

    def __init__(self, case: dict[str, Any], status: int, err: str) -> None:
        super().__init__(f"child for {case_label(case)} ended with wait status {status}")
        self.case, self.status, self.err = case, status, err


def run_child(case: dict[str, Any], d: Path) -> dict[str, Any]:
    d.mkdir(parents=True)
    sys.stdout.flush()
    sys.stderr.flush()
    pid = os.fork()
    if pid == 0:
        _child(case, d)
        os._exit(0)
    _, status = os.waitpid(pid, 0)
    if status != 0 or not (d / "obs.json").exists():
        err = (d / "stderr.txt").read_text()[-2000:] if (d / "stderr.txt").exists() else ""
        if os.WIFSIGNALED(status) and not (d / "obs.json").exists():
            raise ChildDied(case, status, err)  # the code under test hung or crashed the interpreter: a verdict, not a harness fault
        raise RuntimeError(f"child for {case_label(case)} ended with wait status {status}\n{err}")
    obs: dict[str, Any] = json.loads((d / "obs.json").read_text())
    if obs.get("harness_error"):
        raise RuntimeError(f"{case_label(case)}: {obs['harness_error']}")
    return obs


# ---------------------------------------------------------------------------------------------
# parent-side observation of the files


def read_env(p: Path) -> dict[str, str] | None:
    if not p.exists():
        return None
    out: dict[str, str] = {}
    for ent in p.read_bytes().split(b"\0"):
        if b"=" in ent:
            k, v = ent.split(b"=", 1)
            out[k.decode()] = v.decode(errors="replace")
    return out


def _read_log(lp: Path) -> dict[str, Any]:
    out: dict[str, Any] = {"log": None, "log_error": None}
    if not lp.exists():
        out["log_error"] = "file missing"
        return out
    try:
        with PenlogReader(lp) as r:
            out["log"] = [[x._python_level_no, x.module, x.data] for x in r.records()]
    except Exception as e:  # noqa: BLE001 - any reader failure means "not fully readable"
        if lp.stat().st_size > 0 and _zstd_empty(lp):
            out["log"] = []
        else:
            out["log_error"] = f"{type(e).__name__}: {e}"
    return out


def read_files(case: dict[str, Any], d: Path, obs: dict[str, Any]) -> dict[str, Any]:
    """What the run left on disk; one entry per command of the process, the planned (single / inner) one also at top level."""
    f: dict[str, Any] = {"cmds": [], "db_all": None}
    dbp = d / "db" / "run.sqlite"
    if case["db"] and dbp.exists():
        con = sqlite3.connect(dbp)
        try:
            f["db_all"] = [
                list(r)
                for r in con.execute(
                    "SELECT id, script, config, start_time, end_time, end_timezone, exit_code, path FROM run_meta ORDER BY id"
                )
            ]
        except sqlite3.Error as e:
            if "no such table" in str(e):
                f["db_all"] = []  # run ended before the schema was created: same as "no row yet"
            else:
                f["db_error"] = f"{type(e).__name__}: {e}"
        finally:
            con.close()
    # log files are only decoded when their handler was closed (an open zstd stream has no end mark)
    f["logs"] = [_read_log(Path(z["path"])) if z["closed"] else {"log": None, "log_error": "handler never closed"} for z in obs["zst"]]
    for spec in obs["cmds"]:
        rec: dict[str, Any] = {"meta": None, "meta_error": None, "run_dirs": None, "db_rows": None}
        if spec["art"]:
            base = d / "artifacts" / spec["cmd_id"]
            runs = sorted(base.glob("run-*")) if base.exists() else []
            rec["run_dirs"] = [str(r) for r in runs]
            if len(runs) == 1:
                mp = runs[0] / "META.json"
                if mp.exists():
                    try:
                        rec["meta"] = json.loads(mp.read_text())
                    except ValueError as e:
                        rec["meta_error"] = f"META.json is not JSON: {e}"
        if f["db_all"] is not None:
            rec["db_rows"] = [r for r in f["db_all"] if r[1] == spec["command"]]
        f["cmds"].append(rec)
    prim = f["cmds"][-1]  # the planned command is created last
    for k in ("meta", "meta_error", "run_dirs", "db_rows"):
        f[k] = prim[k]
    f["pre_env"] = read_env(d / "pre.env")
    f["post_env"] = read_env(d / "post.env")
    return f


def _zstd_empty(p: Path) -> bool:
    import zstandard

    try:
        with p.open("rb") as fh:
            return zstandard.ZstdDecompressor().stream_reader(fh).read() == b""
    except zstandard.ZstdError:
        return False


# ---------------------------------------------------------------------------------------------
# oracle

_RUN_RE = re.compile(r"run-\d{8}-\d{6}\.\d+")
_HEX_RE = re.compile(r"0x[0-9a-fA-F]+")
_TIME_RE = re.compile(r"\d{4}-\d\d-\d\dT\d\d:\d\d:\d\d(\.\d+)?([+-]\d\d:\d\d)?")
_NUM_RE = re.compile(r"\b\d{9,}(\.\d+)?\b")


def _norm(msg: str, d: Path) -> str:
    return _HEX_RE.sub("0x?", _RUN_RE.sub("<RUN>", msg.replace(str(d), "<D>")))


def _stable(msg: str, d: Path) -> str:
    """violation messages must not depend on the scratch path, the clock or thread numbering (replay compares them)"""
    msg = _NUM_RE.sub("<T>", _TIME_RE.sub("<TIME>", _norm(msg, d)))
    return re.sub(r"Thread-\d+", "Thread-N", msg)


def kind_class(kind: str) -> str:
    if kind in ("exit0", "exit1", "exit3"):
        return "sys.exit(n)"
    if kind in ("conn", "uds"):
        return "expected-error"
    return kind


def _iso(s: Any) -> datetime | None:
    try:
        return datetime.fromisoformat(s)
    except (TypeError, ValueError):
        return None


def _judge_records(
    case: dict[str, Any], spec: dict[str, Any], rec: dict[str, Any], obs: dict[str, Any], f: dict[str, Any],
    exp: Any, want: int, ctx: str, fate: str, v: Any,
) -> None:
    """META.json, run_meta row and log file of ONE command (the single / inner one, or the outer one of a nested run)."""
    cmd = spec["cmd"]
    outer = spec["role"] == "outer"
    sfx = "|nested=outer" if outer else ""
    who = "outer command: " if outer else ("inner command: " if spec["role"] == "inner" else "")
    proc = obs["proc_code"]
    recorded_wrong: list[str] = []
    have_dir = bool(rec["run_dirs"])
    if spec["art"]:
        meta = rec["meta"]
        if len(rec["run_dirs"]) != 1 and not (exp.unlisted and not rec["run_dirs"]):
            v(f"artifacts-dir|{ctx}|count={len(rec['run_dirs'])}{sfx}", f"{who}expected exactly one run directory, found {rec['run_dirs']}")
        elif rec["meta_error"]:
            v(f"meta.unreadable|{ctx}{sfx}", who + rec["meta_error"])
        elif meta is None:
            if have_dir:
                v(f"meta.missing|{ctx}|fate={fate}{sfx}", f"{who}run directory without META.json (process status {proc})")
        else:
            if meta.get("exit_code") != want or isinstance(meta.get("exit_code"), bool):
                recorded_wrong.append(f"META.json exit_code={meta.get('exit_code')!r}")
            st, en = _iso(meta.get("start_time")), _iso(meta.get("end_time"))
            if st is None or en is None or st > en or st.timestamp() < obs["t0"] - 5 or en.timestamp() > obs["t1"] + 5:
                v(
                    f"meta.times|{ctx}{sfx}",
                    f"{who}META.json start_time={meta.get('start_time')!r} end_time={meta.get('end_time')!r} are not an ordered pair of timestamps inside the run",
                )
            if meta.get("command") != spec["command"]:
                v(f"meta.command|cmd={cmd}", f"META.json command={meta.get('command')!r} != {spec['command']!r}")
            try:
                again = CLASSES[cmd].CONFIG_TYPE(**meta["config"]).model_dump_json()
            except Exception as e:  # noqa: BLE001 - "config from which the run can be re-created"
                again = f"<{type(e).__name__}: {e}>"
            if again != spec["config_json"]:
                v(f"meta.config|cmd={cmd}", f"CONFIG_TYPE(**META.config) gives {again[:200]} instead of {spec['config_json'][:200]}")

    if spec["db"] and exp.db_row != "any":
        rows = rec["db_rows"]
        calls = ">".join(obs["dbcalls_outer"] if outer else obs["dbcalls"]) or "none"
        if f.get("db_error"):
            v(f"db.unreadable|{ctx}", f["db_error"])
        elif not rows:
            if exp.db_row == "complete":
                v(f"db.row-missing|{ctx}|dbcalls={calls}{sfx}", f"{who}no run_meta row in the database")
        elif len(rows) != 1:
            v(f"db.rows|{ctx}|count={len(rows)}{sfx}", f"{who}{len(rows)} run_meta rows for one run")
        else:
            _id, script, config, start, end, end_tz, code, _path = rows[0]
            if end is None or code is None or end_tz is None:
                v(
                    f"db.unfinished|family={'scanner' if cmd in ('scanner', 'uds') else 'plain'}|dbcalls={calls}"
                    + (f"|at={case['point']}" if M.PHASE[case["point"]] != "run" else "")
                    + sfx,
                    f"{who}run_meta row left with end_time={end!r} exit_code={code!r} (process status {proc}); DBHandler calls: {calls}",
                )
            else:
                if code != want:
                    recorded_wrong.append(f"run_meta.exit_code={code!r}")
                if not (start <= end):
                    v(f"db.times|{ctx}{sfx}", f"{who}run_meta start_time={start} end_time={end}")
            if json.loads(config) != json.loads(spec["config_json"]):
                v(f"db.config|cmd={cmd}", f"run_meta config differs from the run's: {config[:200]}")
    if recorded_wrong:
        got = sorted({x.split("=", 1)[1] for x in recorded_wrong})
        v(
            f"recorded-exit-code|{ctx}|got={'/'.join(got)}|want={want}{sfx}",
            f"{who}{' and '.join(recorded_wrong)} while the process exits with {proc} (documented mapping: {exp.codes or 'any non-zero'})",
        )

    # log file: exactly one handler per run directory, open and attached for as long as its owner runs, closed and
    # detached by its owner, and the file holds every record logged while it was attached
    if spec["art"] and have_dir:
        own = [i for i, x in enumerate(obs["zst"]) if rec["run_dirs"] and str(Path(x["path"]).parent) == rec["run_dirs"][0]]
        if len(own) != 1:
            v(f"log.handlers|{ctx}|count={len(own)}{sfx}", f"{who}{len(own)} log file handlers were created for the run directory")
            return
        i = own[0]
        x = obs["zst"][i]
        if x["detached_early"] is not None:
            v(
                f"log.detached-early|{ctx}{sfx}",
                f"{who}its log handler was taken off the logger while the command was still running; first record it missed: {x['detached_early']!r}",
            )
        if x["closed_at_owner_finally"]:
            v(f"log.closed-by-other|{ctx}{sfx}", f"{who}its log file was already closed when the command began its own final bookkeeping")
        if not x["closed"] or x["listener_alive"]:
            v(
                f"log.unclosed|{ctx}|fate={fate}{sfx}",
                f"{who}log.json.zst still open (closed={x['closed']}, writer thread alive={x['listener_alive']}) when the process ends: compressed stream is incomplete",
            )
        elif x["attached"] or spec["handlers_left"]:
            v(
                f"log.handler-leaked|{ctx}|fate={fate}{sfx}",
                f"{who}log handler still registered after the run (attached={x['attached']}, cmd.log_file_handlers={spec['handlers_left']})",
            )
        if x["closed"]:
            want_recs = [[r[0], r[1], r[2], r[5]] for r in obs["records"] if i in r[3] and r[0] >= Loglevel.DEBUG]
            lg = f["logs"][i]
            if lg["log_error"] or lg["log"] is None:
                v(f"log.unreadable|{ctx}{sfx}", f"{who}log.json.zst cannot be decoded completely: {lg['log_error'] or 'file missing'}")
            else:
                prob = _cmp_records(want_recs, lg["log"])
                if prob:
                    v(f"log.records|{ctx}|{prob[0]}{sfx}", who + prob[1])


def judge(case: dict[str, Any], d: Path, obs: dict[str, Any], f: dict[str, Any]) -> list[tuple[str, str]]:
    """Returns [(signature, message)] for one executed case."""
    out: list[tuple[str, str]] = []
    cmd, kind, point, hv = case["cmd"], case["kind"], case["point"], case["hv"]
    exp = M.expect(cmd, kind, point)
    if case.get("first") == "sigint" and M.SIGINT not in exp.codes:
        exp.codes.append(M.SIGINT)  # Ctrl-C in main, then teardown fails: either reading, but consistently
    kc, ph = kind_class(kind), M.PHASE[point]
    fate = obs["fate"] + (f"@{obs['raise_site']}" if obs["fate"].startswith("raise:") and obs["fate"] not in ("raise:SystemExit", "raise:KeyboardInterrupt") else "")
    where = case_label(case)
    proc = obs["proc_code"]
    # outside run() the call site inside gallia differs from point to point: it is part of the signature
    ctx = f"exit={kc}|phase={ph}" + (f"|at={point}" if ph != "run" else "")

    def v(sig: str, msg: str) -> None:
        out.append((f"C15|{sig}", _stable(f"{msg} [{where}; entry_point outcome {fate}{' ' + obs.get('raise_text', '') if 'raise_text' in obs else ''}]", d)))

    # --- a hook must never abort the run --------------------------------------------------
    if obs["hook_raised"] is not None:
        failing = (obs["hook_raised"] == "pre" and hv in ("pre-fail", "both-fail")) or (
            obs["hook_raised"] == "post" and hv in ("post-fail", "both-fail")
        )
        tag = "failing-hook-aborts-run" if failing else "hook-raises"
        v(
            f"{tag}|{obs['hook_raised']}-hook|{obs['fate'].split(':', 1)[-1]}",
            f"run_hook({obs['hook_raised']}) raised instead of reporting: process status {proc}, "
            f"META.json {'present' if f['meta'] else 'absent'}, lock {'free' if obs.get('lock_free', True) else 'still held in-process'}",
        )
        return out  # everything else is a consequence of the aborted run

    # --- did the planned exit happen where planned ------------------------------------------
    if kind != "normal" and not obs["fired"]:
        v(f"stage-not-reached|{point}", f"lifecycle stage {point} was never executed (stages seen: {obs['reached']})")
        return out

    # --- setup/main/teardown sequencing: once main was entered, teardown runs --------------------
    if "main" in obs["reached"] and "teardown-early" not in obs["reached"]:
        v(f"stage-skipped|teardown|{ctx}", f"main() was entered but teardown() never ran (stages seen: {obs['reached']})")
    if hv != "off" and exp.run_started and obs["fate"] == "return" and "post-hook" not in obs["reached"]:
        v(f"stage-skipped|post-hook|{ctx}", f"entry_point() returned without running the post-hook (stages seen: {obs['reached']})")

    # --- process-level exit code -----------------------------------------------------------
    if exp.unlisted:
        if proc == 0:
            v(f"exit-code|{ctx}|got=0", "process claims success although the run could not be started")
        want = proc
    else:
        if proc not in exp.codes:
            v(f"exit-code|{ctx}|fate={fate}|got={proc}", f"process exit status {proc}, documented mapping says {exp.codes}")
            want = exp.codes[0]
        else:
            want = proc
    if obs["db_connection_left_open"]:
        # judged on the deterministic cause, not on thread liveness: the worker of an aiosqlite connection that is never
        # closed is a non-daemon thread waiting for work forever (it only goes away if it happens to crash because a
        # query was in flight when the loop was closed)
        v(
            f"process-cannot-exit|{ctx}|cause=db-connection-left-open",
            f"database connection still open after asyncio.run(): its non-daemon worker thread keeps the interpreter from exiting and delivering status {proc}",
        )
    elif obs["threads"]:
        names = ",".join(sorted({re.sub(r"[-_ ]?\d+.*$", "", t) for t in obs["threads"]}))
        v(
            f"process-cannot-exit|{ctx}|thread={names}",
            f"non-daemon thread(s) {obs['threads']} still running after asyncio.run(): the interpreter blocks at exit instead of delivering status {proc}",
        )

    # --- what every command of the process left behind: META.json, run row, log file -----------------
    for spec, rec in zip(obs["cmds"], f["cmds"]):
        _judge_records(case, spec, rec, obs, f, exp, want, ctx, fate, v)
    z = obs["zst"]
    if z and all(x["closed"] and not x["attached"] for x in z) and obs["handlers_after"] != obs["baseline_handlers"]:
        v(f"log.handler-leaked|{ctx}|fate={fate}", f"'gallia' logger has {obs['handlers_after']} handlers after the run, {obs['baseline_handlers']} before")

    # --- lock ------------------------------------------------------------------------------------
    if case["lock"]:
        if obs.get("lock_free") is None:
            if exp.run_started:
                v(f"lock.file-missing|{ctx}", "lock file was never created")
        elif obs["lock_free"] is False and obs["fate"] == "return":
            v(f"lock.held|{ctx}", "flock(LOCK_EX|LOCK_NB) on the lock file fails after entry_point() returned")

    # --- hooks -----------------------------------------------------------------------------------
    art_dir = f["run_dirs"][0] if case["art"] and f.get("run_dirs") and len(f["run_dirs"]) == 1 else None
    inv = " ".join([Path(ARGV[0]).name] + ARGV[1:] + [where.replace(" ", ",")])
    if hv == "off":
        for w in ("pre", "post"):
            if f[f"{w}_env"] is not None:
                v(f"hook-ran-although-disabled|{w}", f"{w}-hook executed although hooks are disabled")
    else:
        for w in ("pre", "post"):
            env = f[f"{w}_env"]
            if env is None:
                if w == "pre" and exp.run_started:
                    v(f"hook-env|pre|not-run|{ctx}", "pre-hook was not executed")
                continue
            if env.get("GALLIA_HOOK") != w:
                v(f"hook-env|{w}|GALLIA_HOOK", f"GALLIA_HOOK={env.get('GALLIA_HOOK')!r}")
            if art_dir is not None and env.get("GALLIA_ARTIFACTS_DIR") != art_dir:
                v(f"hook-env|{w}|GALLIA_ARTIFACTS_DIR", f"GALLIA_ARTIFACTS_DIR={env.get('GALLIA_ARTIFACTS_DIR')!r} != {art_dir}")
            if env.get("GALLIA_INVOCATION") != inv:
                v(f"hook-env|{w}|GALLIA_INVOCATION", f"GALLIA_INVOCATION={env.get('GALLIA_INVOCATION')!r} != {inv!r}")
            if w == "post":
                # (a Ctrl-C sent by the post-hook itself cannot be foreseen: the hook was told the run's own code)
                if env.get("GALLIA_EXIT_CODE") != str(proc) and not (kind == "sigint" and point == "post-hook"):
                    v(
                        f"hook-env|post|GALLIA_EXIT_CODE|{ctx}",
                        f"GALLIA_EXIT_CODE={env.get('GALLIA_EXIT_CODE')!r} but the process exits with {proc}",
                    )
                try:
                    gm = json.loads(env.get("GALLIA_META", ""))
                except ValueError:
                    gm = None
                if gm is None or (f["meta"] is not None and gm != f["meta"]):
                    v(f"hook-env|post|GALLIA_META|{ctx}", f"GALLIA_META={str(env.get('GALLIA_META'))[:120]!r} is not the content of META.json")
    return out


def _cmp_records(want: list[list[Any]], got: list[list[Any]]) -> tuple[str, str] | None:
    for i, (w, g) in enumerate(zip(want, got)):
        same = w[0] == g[0] and w[1] == g[1] and (g[2] == w[2] or (w[3] and g[2].startswith(w[2])))
        if not same:
            return ("mismatch", f"log record #{i} differs: logged {w[:3]!r}, file has {g!r}")
    if len(got) < len(want):
        return (
            "tail-missing",
            f"log.json.zst has {len(got)} of the {len(want)} records logged while the file handler was attached; first missing: {want[len(got)][:3]!r}, last logged: {want[-1][:3]!r}",
        )
    if len(got) > len(want):
        return ("extra", f"log.json.zst has {len(got) - len(want)} records that were never logged: {got[len(want)]!r}")
    return None


def canonical(case: dict[str, Any], d: Path, obs: dict[str, Any], f: dict[str, Any]) -> dict[str, Any]:
    """What must not depend on whether a hook fails."""
    row = f["db_rows"][0] if f["db_rows"] else None
    return {
        "entry_point outcome": obs["fate"],
        "process exit status": obs["proc_code"],
        "META.json present": f["meta"] is not None,
        "META.json exit_code": f["meta"].get("exit_code") if f["meta"] else None,
        "run_meta exit_code": row[6] if row else None,
        "run_meta end_time set": (row[4] is not None) if row else None,
        "log closed": [z["closed"] for z in obs["zst"]],
        "lock free": obs.get("lock_free"),
        "lifecycle stages": [r for r in obs["reached"] if not r.endswith("-hook")],
        "log records outside hooks": [[r[0], r[1], _norm(r[2], d)] for r in obs["records"] if r[4] is None],
    }


# ---------------------------------------------------------------------------------------------
# items


def hook_variants(tier: str) -> tuple[str, ...]:
    return M.HOOK_VARIANTS if tier == "thorough" else M.HOOK_VARIANTS[:4]


def items(tier: str, seed: int) -> list[Any]:
    out: list[Any] = []
    for cmd in M.CMDS:
        for kind, point in M.scenarios(cmd):
            for art, db, lock in itertools.product((False, True), repeat=3):
                out.append(("group", tier, cmd, kind, point, art, db, lock))
    # history shape "a command awaits another command's entry_point() while its own log file is open" (script rerun)
    for cmd in M.CMDS:
        for kind, point in M.nested_scenarios(cmd):
            out.append(("nested", cmd, kind, point))
    if tier == "thorough":
        for cmd in M.CMDS:
            for kind, point in M.scenarios(cmd):
                out.append(("fresh", cmd, kind, point))
            for kind in ("normal", "exit3", "unexpected"):
                for src in ("file", "db"):
                    out.append(("rerun", cmd, kind, src))
        for kind, point in M.scenarios("uds"):
            out.append(("group-ping", tier, "uds", kind, point, True, True, True))
        for cmd in M.CMDS:
            for k1 in ("exit3", "conn", "unexpected", "sigint"):
                for k2 in ("exit1", "uds", "unexpected", "sigint"):
                    out.append(("double", cmd, k1, k2))
    return out


def _workdir() -> Path:
    d = SHM / f"lifecycle-{os.getpid()}"
    d.mkdir(exist_ok=True)
    return d


_SEQ = itertools.count()


def run_case(case: dict[str, Any], res: Result) -> tuple[dict[str, Any], dict[str, Any], Path, list[tuple[str, str]]]:
    d = _workdir() / f"case-{next(_SEQ)}"
    if d.exists():
        shutil.rmtree(d)
    obs = run_child(case, d)
    f = read_files(case, d, obs)
    viol = judge(case, d, obs, f)
    res.count("evaluations")
    fired = obs["fired"] or case["kind"] == "normal"
    if fired:
        res.seen("nontrivial", tuple(sorted(case.items())))
        res.count("exit_fired_at_planned_point")
    res.seen("outcomes", (case["cmd"], case["kind"], case["point"], obs["fate"], obs["proc_code"]))
    h = res.notes.setdefault("process_status_histogram", {})
    h[str(obs["proc_code"])] = h.get(str(obs["proc_code"]), 0) + 1
    if fired:
        ecodes = M.expect(case["cmd"], case["kind"], case["point"]).codes
        h3 = res.notes.setdefault("expected_code_histogram", {})
        key = str(ecodes[0]) if ecodes else "unlisted"
        h3[key] = h3.get(key, 0) + 1
    h2 = res.notes.setdefault("entry_point_outcome_histogram", {})
    h2[obs["fate"]] = h2.get(obs["fate"], 0) + 1
    for sig, msg in viol:
        res.violate(sig, msg, {"case": case})
    return obs, f, d, viol


def run_group(item: tuple[Any, ...], res: Result, verbose: bool = False, only: tuple[str, ...] | None = None) -> None:
    _, tier, cmd, kind, point, art, db, lock = item[:8]
    ping = item[0] == "group-ping"
    runs: dict[str, Any] = {}
    for hv in only or hook_variants(tier):
        if not M.reachable(kind, point, db, hv, lock):
            res.count("unreachable_combinations")
            continue
        case = {"cmd": cmd, "kind": kind, "point": point, "art": art, "db": db, "lock": lock, "hv": hv}
        if ping:
            case["ping"] = True
        obs, f, d, viol = run_case(case, res)
        runs[hv] = (case, canonical(case, d, obs, f), obs, viol)
        if verbose:
            _print_case(case, obs, f, viol)
        shutil.rmtree(d, ignore_errors=True)
    # a failing hook is reported but never alters the run: compare with the run whose hooks succeed
    if "ok" in runs:
        ref = runs["ok"][1]
        for hv in ("pre-fail", "post-fail", "both-fail"):
            if hv not in runs:
                continue
            case, can, obs, viol = runs[hv]
            res.count("differential_comparisons")
            if any(s.startswith("C15|failing-hook-aborts-run") for s, _ in viol):
                continue  # already reported with its root cause
            for k in ref:
                if ref[k] != can[k]:
                    res.violate(
                        f"C15|failing-hook-alters-run|{hv}|{k.replace(' ', '_')}",
                        f"{k} is {_short(can[k])} with a failing hook but {_short(ref[k])} with succeeding hooks [{case_label(case)}]",
                        {"case": case},
                    )
            for w in ("pre", "post"):
                if hv in (f"{w}-fail", "both-fail") and f"{w}-hook" in obs["reached"]:
                    if not any(r[4] == w and r[0] >= logging.WARNING for r in obs["records"]):
                        res.violate(
                            f"C15|failing-hook-not-reported|{w}",
                            f"failing {w}-hook produced no log record of level WARNING or above [{case_label(case)}]",
                            {"case": case},
                        )
    if cmd == "uds" and kind == "uds" and point == "main" and art and db and lock and "ok" in runs:
        case, can, obs, _ = runs["ok"]
        res.sample({"case": case_label(case), **{k: v for k, v in can.items() if k != "log records outside hooks"},
                    "DBHandler calls": obs["dbcalls"], "records logged": len(obs["records"])})


def run_nested(item: tuple[Any, ...], res: Result, verbose: bool = False, only: dict[str, Any] | None = None) -> None:
    _, cmd, kind, point = item
    for art, db in itertools.product((True, False), (False, True)):
        case = {"cmd": cmd, "kind": kind, "point": point, "art": art, "db": db, "lock": False, "hv": "off", "nest": True}
        if only is not None and only != case:
            continue
        obs, f, d, viol = run_case(case, res)
        res.count("nested_command_cases")
        if verbose:
            _print_case(case, obs, f, viol)
        if cmd == "plain" and kind == "exit3" and point == "main" and art and db:
            res.sample({"case": case_label(case), "process exit status": obs["proc_code"], "stages": obs["reached"],
                        "commands": [{"role": s["role"], "META exit_code": (r["meta"] or {}).get("exit_code"),
                                      "run_meta exit_code": r["db_rows"][0][6] if r["db_rows"] else None}
                                     for s, r in zip(obs["cmds"], f["cmds"])],
                        "log handlers": [{k: z[k] for k in ("closed", "attached", "detached_early", "closed_at_owner_finally")} for z in obs["zst"]]})
        shutil.rmtree(d, ignore_errors=True)


def _short(x: Any) -> str:
    s = json.dumps(x)
    return s if len(s) < 160 else s[:160] + "..."


def _print_case(case: dict[str, Any], obs: dict[str, Any], f: dict[str, Any], viol: list[tuple[str, str]]) -> None:
    print("  case:", case_label(case))
    print("    entry_point outcome:", obs["fate"], obs.get("raise_site", ""), obs.get("raise_text", ""))
    print("    process status:", obs["proc_code"], "| stages:", obs["reached"], "| exit fired:", obs["fired"])
    if case.get("nest"):
        for sp, rc in zip(obs["cmds"], f["cmds"]):
            print(f"    {sp['role']} command: run dirs {len(rc['run_dirs'] or [])}, META exit_code",
                  (rc["meta"] or {}).get("exit_code"), "| rows", [[r[0], r[4], r[6]] for r in rc["db_rows"] or []])
    print("    META.json:", {k: v for k, v in f["meta"].items() if k != "config"} if f["meta"] else None)
    print("    run_meta rows (id, end_time, end_tz, exit_code):", [[r[0], r[4], r[5], r[6]] for r in f["db_rows"]] if f["db_rows"] is not None else None)
    print("    DBHandler calls:", obs["dbcalls"], "| log handlers:", obs["zst"], "| lock free:", obs.get("lock_free"))
    print("    threads left:", obs["threads"], "| hooks ran:", [w for w in ("pre", "post") if f[f"{w}_env"] is not None])
    for s, m in viol:
        print("    ->", s, "::", m)


# ---------------------------------------------------------------------------------------------
# thorough extras


def run_double(item: tuple[Any, ...], res: Result) -> None:
    """fault sequences: main ends with k1, then teardown ends with k2 - the later one decides."""
    _, cmd, k1, k2 = item
    for art, db, lock in ((True, True, True), (True, False, False), (False, True, False)):
        case = {"cmd": cmd, "kind": k2, "point": "teardown-early", "art": art, "db": db, "lock": lock, "hv": "ok", "first": k1}
        d = _workdir() / f"case-{next(_SEQ)}"
        obs = run_child(case, d)
        f = read_files(case, d, obs)
        viol = judge(case, d, obs, f)
        res.count("evaluations")
        res.count("double_fault_cases")
        res.seen("nontrivial", tuple(sorted(case.items())))
        for sig, msg in viol:
            res.violate(sig, msg + f" [main ended with {k1} first]", {"case": case})
        shutil.rmtree(d, ignore_errors=True)


FRESH_DRIVER = (
    "import sys, json, asyncio, os\n"
    "from pathlib import Path\n"
    "import vf.checks.c15 as c\n"
    "case = json.loads(sys.argv[1]); d = Path(sys.argv[2])\n"
    "cmd, pre = c._child_prepare(case, d)\n"
    "sys.exit(asyncio.run(cmd.entry_point()))\n"
)


def run_fresh(item: tuple[Any, ...], res: Result) -> None:
    """Conformance of the process-status derivation: the same case in a fresh interpreter, real wait status."""
    import subprocess

    _, cmd, kind, point = item
    case = {"cmd": cmd, "kind": kind, "point": point, "art": True, "db": True, "lock": True, "hv": "ok"}
    d1 = _workdir() / f"case-{next(_SEQ)}"
    obs = run_child(case, d1)
    d2 = _workdir() / f"case-{next(_SEQ)}"
    d2.mkdir(parents=True)
    env = dict(os.environ)
    with (d2 / "stderr.txt").open("wb") as err:
        try:
            p = subprocess.run(
                [sys.executable, "-c", FRESH_DRIVER, json.dumps(case), str(d2)],
                stdout=err, stderr=err, env=env, timeout=20, start_new_session=True, check=False,
            )
            rc: Any = p.returncode
        except subprocess.TimeoutExpired:
            rc = "hang"
    status = 128 - rc if isinstance(rc, int) and rc < 0 else rc
    res.count("evaluations")
    res.count("fresh_interpreter_conformance_runs")
    predicted: set[Any] = {"hang"} if obs["threads"] else {obs["proc_code"]}
    if obs["db_connection_left_open"]:
        predicted = {"hang", obs["proc_code"]}  # the worker thread may crash on the closed loop if a query was in flight
    if any(not z["closed"] for z in obs["zst"]):
        # a log handler that is still open at interpreter exit is closed by logging.shutdown(), which holds the
        # handler lock while _ZstdFileHandler.close() joins the writer thread: if that thread still has a record to
        # deliver the two deadlock (observed in about 1 of 10 runs) - both outcomes are possible, neither is a verdict
        predicted.add("hang")
    if status not in predicted:
        raise Broken(
            f"process-status model is wrong for {case_label(case)}: fresh interpreter ended with {rc!r} "
            f"(=> {status}), derived {predicted} from {obs['fate']} / threads {obs['threads']}"
        )
    shutil.rmtree(d1, ignore_errors=True)
    shutil.rmtree(d2, ignore_errors=True)


def run_rerun(item: tuple[Any, ...], res: Result) -> None:
    """META.json / run_meta carry a config from which the run can be re-created (the real Rerunner does it)."""
    _, cmd, kind, src = item
    case = {"cmd": cmd, "kind": kind, "point": "none" if kind == "normal" else "main", "art": True, "db": True,
            "lock": False, "hv": "off"}
    d = _workdir() / f"case-{next(_SEQ)}"
    obs = run_child(case, d)
    f = read_files(case, d, obs)
    res.count("evaluations")
    res.count("rerunner_round_trips")
    if f["meta"] is None or not f["db_rows"]:
        res.count("rerun_skipped_no_record")  # reported by the group items
        shutil.rmtree(d, ignore_errors=True)
        return
    case2 = dict(case, rerun=src)
    pid = os.fork()
    if pid == 0:
        _child_rerun(case2, d, f)
        os._exit(0)
    _, status = os.waitpid(pid, 0)
    o2 = json.loads((d / "obs2.json").read_text()) if (d / "obs2.json").exists() else {"harness_error": f"wait status {status}"}
    if o2.get("harness_error"):
        raise RuntimeError(f"rerun {cmd}/{kind}/{src}: {o2['harness_error']}")
    base = d / "artifacts" / obs["cmd_id"]
    runs = sorted(base.glob("run-*"))
    metas = [json.loads((r / "META.json").read_text()) for r in runs if (r / "META.json").exists()]
    lbl = f"{cmd}/{kind} re-run from {src}"
    if len(runs) != 2 or len(metas) != 2:
        res.violate(f"C15|rerun|{src}|no-second-run", f"Rerunner did not re-create the run: run dirs {len(runs)}, META files {len(metas)}, rerunner outcome {o2['fate']} {o2.get('raise_text', '')} [{lbl}]", {"item": list(item)})
    else:
        if metas[0]["config"] != metas[1]["config"] or metas[0]["command"] != metas[1]["command"]:
            res.violate(f"C15|rerun|{src}|config-differs", f"re-created run has a different config/command [{lbl}]", {"item": list(item)})
        if metas[0]["exit_code"] != metas[1]["exit_code"] or o2["proc_code"] != obs["proc_code"]:
            res.violate(
                f"C15|rerun|{src}|exit-code",
                f"original run ended with {obs['proc_code']} (META {metas[0]['exit_code']}), re-run with {o2['proc_code']} (META {metas[1]['exit_code']}) [{lbl}]",
                {"item": list(item)},
            )
    shutil.rmtree(d, ignore_errors=True)


def _child_rerun(case: dict[str, Any], d: Path, f: dict[str, Any]) -> None:
    obs: dict[str, Any] = {}
    try:
        errf = os.open(d / "stderr2.txt", os.O_WRONLY | os.O_CREAT | os.O_TRUNC, 0o644)
        os.dup2(errf, 2)
        os.dup2(errf, 1)
        from gallia.commands.script.rerun import Rerunner, RerunnerConfig

        _child_prepare(case, d)  # installs the seams and the plan; its command object is not used
        run_dir = sorted((d / "artifacts").glob("*/run-*"))[0]
        if case["rerun"] == "file":
            rc = RerunnerConfig(file=run_dir / "META.json", hooks=False)
        else:
            rc = RerunnerConfig(id=f["db_rows"][0][0], db=d / "db" / "run.sqlite", hooks=False)
        try:
            value: Any = asyncio.run(Rerunner(rc).entry_point())
            fate = "return"
        except BaseException as e:  # noqa: BLE001
            fate = f"raise:{type(e).__name__}"
            value = e.code if isinstance(e, SystemExit) else None
            obs["raise_text"] = "".join(traceback.format_exception_only(type(e), e)).strip()[:300]
            traceback.print_exc()
        obs["fate"] = fate
        obs["proc_code"] = M.python_process_code(fate, value)
        obs["harness_error"] = ST["harness_error"]
    except BaseException:  # noqa: BLE001
        obs["harness_error"] = "child harness exception:\n" + traceback.format_exc()
    try:
        (d / "obs2.json").write_text(json.dumps(obs))
    finally:
        os._exit(0)


# ---------------------------------------------------------------------------------------------
# runner interface


def run_item(item: tuple[Any, ...]) -> Result:
    res = Result()
    try:
        if item[0] in ("group", "group-ping"):
            run_group(item, res)
        elif item[0] == "nested":
            run_nested(item, res)
        elif item[0] == "double":
            run_double(item, res)
        elif item[0] == "fresh":
            run_fresh(item, res)
        elif item[0] == "rerun":
            run_rerun(item, res)
        else:
            raise RuntimeError(f"unknown item {item!r}")
    except ChildDied as e:
        _child_died(res, e)
    finally:
        shutil.rmtree(_workdir(), ignore_errors=True)
    return res


def _child_died(res: Result, e: ChildDied) -> None:
    sig = os.WTERMSIG(e.status)
    what = "hung (killed by the 90 s watchdog)" if sig == signal.SIGALRM else f"was killed by signal {sig}"
    c = e.case
    tail = " | ".join(x for x in e.err.strip().splitlines()[-3:])[:300]
    res.count("evaluations")
    res.violate(
        f"C15|process-{'hung' if sig == signal.SIGALRM else 'killed'}|exit={c['kind']}|point={c['point']}{'|nested' if c.get('nest') else ''}",
        f"the process running the command {what}: no exit code, nothing could be observed; last stderr: {tail} [{case_label(c)}]",
        {"case": c},
    )


def replay(doc: dict[str, Any]) -> Result:
    res = Result()
    try:
        if "case" in doc:
            case = doc["case"]
            if "first" in case:
                run_double(("double", case["cmd"], case["first"], case["kind"]), res)
            elif case.get("nest"):
                run_nested(("nested", case["cmd"], case["kind"], case["point"]), res, verbose=True, only=case)
            else:
                item = ("group-ping" if case.get("ping") else "group", "thorough", case["cmd"], case["kind"], case["point"],
                        case["art"], case["db"], case["lock"])
                hv = case["hv"]
                run_group(item, res, verbose=True, only=(hv,) if hv in ("off", "ok") else ("ok", hv))
        else:
            run_item(tuple(doc["item"]))
    except ChildDied as e:
        _child_died(res, e)
    finally:
        shutil.rmtree(_workdir(), ignore_errors=True)
    return res


def finish(merged: Result, tier: str) -> dict[str, Any]:
    c = merged.counters
    ev = c.get("evaluations", 0)
    if ev == 0:
        raise Broken("no case was evaluated")
    planned = merged.notes.get("expected_code_histogram", {})
    for code in ("0", "1", "3", "70", "74", "130", "unlisted"):
        if code not in planned:
            raise Broken(f"vacuous: no executed case whose documented exit code is {code}")
    if c.get("exit_fired_at_planned_point", 0) < ev * 0.5:
        raise Broken("vacuous: planned exits fired in fewer than half of the cases")
    left = [p for p in SHM.glob("lifecycle-*") if p.is_dir() and not any(p.iterdir())]
    for p in left:
        p.rmdir()
    return {
        "bound": {
            "command_kinds": list(M.CMDS),
            "scenarios_per_command": {k: len(M.scenarios(k)) for k in M.CMDS},
            "resource_subsets": 8,
            "hook_variants": list(hook_variants(tier)),
            "nested_scenarios_per_inner_command": {k: len(M.nested_scenarios(k)) for k in M.CMDS},
            "nested_resource_subsets": 4,
        }
    }
