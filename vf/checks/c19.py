"""C19 - line-based transports deliver every message intact, in order, one per read.

Engine A.  The real ``TCPLinesTransport`` / ``UnixLinesTransport`` (client side)
and the real ``TCPUDSServerTransport.handle_client`` (server side, with an
echoing server object) run on in-memory streams.  Enumerated: message
sequences over a length/content alphabet, segmentations of the byte stream
(coalesced, per message, byte-by-byte, every single split point, pairs of split
points on short streams), and - by the explorer - every placement of the read
timeout relative to the delivered segments (timer before data, timer and data
in one iteration, data while tasks are runnable).
"""

from __future__ import annotations

import asyncio
import binascii
import itertools
from typing import Any

from vf.engine.explore import Policy, Run, explore, run_once
from vf.engine.netsim import Conn, Net, Peer
from vf.engine.runner import Broken, Result

ID = "C19"
LEVEL = "model_checking"
RULE = (
    "message sequences = all sequences of length <= n over {lengths 1,2,255,4095} x {00.., FF.., 0A0D.., ascending bytes} (plus bursts "
    "of 50 messages); for each: client receive side (tcp-lines and unix-lines), client send side, and the virtual ECU's TCP server loop "
    "with an echoing server; segmentations: coalesced, one segment per message, byte-by-byte (short streams), every single split point "
    "near every message boundary and stream end (all offsets for short streams), pairs of split points for short streams; read timeout "
    "1 s, explorer places the timer at every point of the partially delivered stream (<= bound deviations). states = distinct canonical "
    "(read results with virtual times, bytes delivered so far at each result); transitions = environment actions fired"
)
ASSUMPTIONS = [
    "TCP/unix stream model: in-order bytes, arbitrary segmentation, delivery through StreamReaderProtocol.data_received, EOF through eof_received",
    "independent line codec for the oracle: lower/upper-case hex digits followed by one LF per message",
    "server side uses an echo server object (respond() returns a response whose pdu is the request pdu) so that framing, not UDS semantics, is observed",
]

POLICY = Policy(io_while_ready=True, early_timers=False, timer_before_io=True, timer_with_io=True, max_iterations=200000, max_vtime=10000.0)
G: dict[str, Any] = {}


def worker_init() -> None:
    import logging

    import gallia.command  # noqa: F401
    from gallia.services.uds import server as srv
    from gallia.transports.base import TargetURI
    from gallia.transports.tcp import TCPLinesTransport
    from gallia.transports.unix import UnixLinesTransport

    logging.disable(logging.CRITICAL)
    G.update(tcp=TCPLinesTransport, unix=UnixLinesTransport, srv=srv, TargetURI=TargetURI)


def msg(spec: tuple[int, str]) -> bytes:
    n, kind = spec
    if kind == "00":
        return bytes(n)
    if kind == "ff":
        return b"\xff" * n
    if kind == "0a0d":
        return (b"\x0a\x0d" * n)[:n]
    if kind == "asc":
        return bytes((i * 7 + 1) & 0xFF for i in range(n))
    raise KeyError(kind)


def encode(m: bytes) -> bytes:
    return binascii.hexlify(m) + b"\n"


def decode_stream(b: bytes) -> tuple[list[bytes], bytes]:
    """independent decoder: complete lines -> messages, remainder"""
    out = []
    while b"\n" in b:
        line, b = b.split(b"\n", 1)
        out.append(bytes.fromhex(line.decode("ascii")))
    return out, b


class Source(Peer):
    """sends a prepared, pre-segmented byte stream at connect; optionally EOF at the end"""

    def __init__(self, segments: list[bytes], eof: bool) -> None:
        self.segments = segments
        self.eof = eof
        self.rx = bytearray()

    def on_connect(self) -> None:
        for s in self.segments:
            self.conn.out.append(s)
        if self.eof:
            self.send_eof()

    def on_data(self, data: bytes) -> None:
        self.rx += data


def segment(stream: bytes, seg: Any) -> list[bytes]:
    if seg == "one":
        return [stream] if stream else []
    if seg == "bytes":
        return [stream[i : i + 1] for i in range(len(stream))]
    cuts = sorted(set(c for c in seg if 0 < c < len(stream)))
    out, last = [], 0
    for c in cuts:
        out.append(stream[last:c])
        last = c
    out.append(stream[last:])
    return out


def build_client_rx(item: dict[str, Any], box: dict[str, Any]) -> Any:
    msgs = [msg(tuple(s)) for s in item["msgs"]]
    stream = b"".join(encode(m) for m in msgs)
    if item["seg"] == "msgs":
        cuts, off = [], 0
        for m in msgs:
            off += len(encode(m))
            cuts.append(off)
        segs = segment(stream, cuts)
    else:
        segs = segment(stream, item["seg"])

    def scenario(run: Run) -> None:
        src = Source(segs, eof=True)
        net = Net(run, lambda n: src)
        net.install()
        results: list[tuple[Any, ...]] = []
        box.update(results=results, net=net, src=src, n=len(msgs))
        loop = run.loop
        if item.get("trace"):
            # as after gallia.log.setup_logging(): the "gallia" logger lets TRACE records through (to a handler that drops them)
            import logging

            lg = logging.getLogger("gallia")
            prev = (lg.level, logging.root.manager.disable)
            logging.disable(logging.NOTSET)
            lg.setLevel(5)
            if not any(isinstance(h, logging.NullHandler) for h in lg.handlers):
                lg.addHandler(logging.NullHandler())
            lg.propagate = False

            def restore() -> None:
                lg.setLevel(prev[0])
                logging.disable(prev[1])
                net.uninstall()

            box["restore"] = restore

        async def drv() -> None:
            if item["side"] == "unix":
                tr = await G["unix"].connect("unix-lines:///tmp/x.sock")
            else:
                tr = await G["tcp"].connect("tcp-lines://192.0.2.1:1234")
            while True:
                delivered = sum(len(s) for _, s in net.conns[0].delivered if isinstance(s, bytes))
                try:
                    d = await tr.read(timeout=item.get("timeout", 1.0))
                except TimeoutError:
                    results.append(("timeout", loop.time(), delivered))
                    continue
                except Exception as e:  # noqa: BLE001
                    results.append(("exc", loop.time(), type(e).__name__ + ":" + str(e)[:80]))
                    break
                results.append(("msg", loop.time(), d))
                if d == b"":
                    break
            await tr.close()

        task = loop.create_task(drv(), name="driver")
        run.done = task.done
        run.finish = box.get("restore", net.uninstall)  # type: ignore[attr-defined]

    return scenario


def build_client_rx2(item: dict[str, Any], box: dict[str, Any]) -> Any:
    """two connections one after the other (reconnect) and two transports open at the same time: bytes that were delivered on one
    connection but not read yet (coalesced messages, a partial line) must never show up on another"""
    msgs = [msg(tuple(s)) for s in item["msgs"]]
    msgs_b = [bytes(x ^ 0xFF for x in m) for m in msgs][::-1]

    def scenario(run: Run) -> None:
        stream_a = b"".join(encode(m) for m in msgs) + item.get("tail", b"")
        srcs = [Source([stream_a], eof=False), Source([encode(m) for m in msgs_b], eof=True)]
        net = Net(run, lambda n: srcs[n] if n < 2 else None)
        net.install()
        results: list[tuple[Any, ...]] = []
        box.update(results=results, net=net, want=msgs_b)
        loop = run.loop

        async def drv() -> None:
            cls = G["unix"] if item["side"] == "unix" else G["tcp"]
            url = "unix-lines:///tmp/x.sock" if item["side"] == "unix" else "tcp-lines://192.0.2.1:1234"
            tr = await cls.connect(url)
            try:
                async def rd(t: Any) -> bytes:
                    while True:  # (the explorer may let the timer win against the data: try again)
                        try:
                            return await t.read(timeout=1.0)
                        except TimeoutError:
                            continue

                first = await rd(tr)  # the rest of connection A's bytes stay unread
                results.append(("first", loop.time(), first))
                if item.get("tail"):
                    for _ in range(len(msgs) - 1):
                        await rd(tr)
                    try:
                        await tr.read(timeout=0.5)  # times out in the middle of the unterminated tail
                    except TimeoutError:
                        pass
                tr2 = (await tr.reconnect()) if item["how"] == "reconnect" else (await cls.connect(url))
                while True:
                    d = await rd(tr2)
                    results.append(("msg", loop.time(), d))
                    if d == b"":
                        break
                await tr2.close()
                if item["how"] != "reconnect":
                    await tr.close()
            except Exception as e:  # noqa: BLE001
                results.append(("exc", loop.time(), type(e).__name__ + ":" + str(e)[:80]))

        task = loop.create_task(drv(), name="driver")
        run.done = task.done
        run.finish = net.uninstall  # type: ignore[attr-defined]

    return scenario


def judge_client_rx2(item: dict[str, Any], box: dict[str, Any], run: Run, choices: list[int], res: Result) -> None:
    rp = {"item": item, "choices": choices}
    results = box["results"]

    def v(sig: str, m: str) -> None:
        res.violate(f"C19|{item['side']}-rx|second-connection|{item['how']}|{sig}", m + f" [msgs={item['msgs']} tail={item.get('tail')!r}]", rp)

    if run.status != "done":
        v(f"hang|{run.status}", "reader did not finish")
        return
    excs = [r for r in results if r[0] == "exc"]
    if excs:
        v("exception|" + excs[0][2].split(":")[0], f"read raised {excs[0][2]}")
        return
    got = [r[2] for r in results if r[0] == "msg"]
    want = box["want"] + [b""]
    if got != want:
        stale = [g for g in got if g and g not in box["want"]]
        v("stale-bytes-of-other-connection" if stale else "sequence", f"second connection delivered {[g[:8].hex() for g in got]}, its peer sent {[w[:8].hex() for w in want]}")


def judge_client_rx(item: dict[str, Any], box: dict[str, Any], run: Run, choices: list[int], res: Result) -> None:
    msgs = [msg(tuple(s)) for s in item["msgs"]]
    rp = {"item": item, "choices": choices}
    side = item["side"]
    results = box["results"]

    def v(sig: str, m: str) -> None:
        res.violate(f"C19|{side}-rx|{sig}", m + f" [msgs={item['msgs']} seg={item['seg'] if not isinstance(item['seg'], list) or len(item['seg']) < 6 else str(item['seg'][:6]) + '...'}]", rp)

    if run.status != "done":
        v(f"hang|{run.status}", f"reader did not finish: {run.status}; results so far: {len(results)}")
        return
    got = [r[2] for r in results if r[0] == "msg"]
    excs = [r for r in results if r[0] == "exc"]
    if excs:
        v("exception|" + excs[0][2].split(":")[0], f"read raised {excs[0][2]} after {len(got)} messages")
        return
    if not got or got[-1] != b"":
        v("no-eof-marker", "end of stream was not reported as an empty read")
        return
    body = got[:-1]
    if body != msgs:
        # classify
        if len(body) != len(msgs):
            kind = "count"
        else:
            kind = "content"
        i = next((k for k in range(min(len(body), len(msgs))) if body[k] != msgs[k]), min(len(body), len(msgs)))
        v(
            f"sequence-{kind}",
            f"read() returned {len(body)} messages, sent {len(msgs)}; first difference at index {i}: got "
            f"{body[i][:16].hex() if i < len(body) else None}... want {msgs[i][:16].hex() if i < len(msgs) else None}...",
        )
        return
    if b"" in body:
        v("empty-message", "a read returned an empty message before end of stream")


def build_server(item: dict[str, Any], box: dict[str, Any]) -> Any:
    msgs = [msg(tuple(s)) for s in item["msgs"]]
    stream = b"".join(encode(m) for m in msgs)
    if item["seg"] == "msgs":
        cuts, off = [], 0
        for m in msgs:
            off += len(encode(m))
            cuts.append(off)
        segs = segment(stream, cuts)
    else:
        segs = segment(stream, item["seg"])

    class EchoResponse:
        def __init__(self, pdu: bytes) -> None:
            self.pdu = pdu

    class EchoServer:
        class state:  # noqa: N801
            @staticmethod
            def reset() -> None:
                pass

        async def respond(self, request: Any) -> Any:
            # requests take differing times inside the ECU (virtual): replies must still come in request order
            d = item.get("delays")
            await asyncio.sleep(0 if not d else d[(request.pdu[0] + len(request.pdu)) % len(d)])
            return EchoResponse(request.pdu)

    if item["mode"] == "server2":
        return _build_server2(item, box, EchoServer, msgs)

    def scenario(run: Run) -> None:
        src = Source(segs, eof=True)
        conn = Conn(run, src, "c0")
        run.add_actor(conn)
        box.update(src=src, conn=conn)
        srv = G["srv"]
        t = srv.TCPUDSServerTransport(EchoServer(), G["TargetURI"]("tcp-lines://127.0.0.1:1"))
        out: dict[str, Any] = {}
        box["out"] = out

        async def drv() -> None:
            try:
                await t.handle_client(conn.reader, conn.writer)
                out["end"] = "returned"
            except ZeroDivisionError:
                out["end"] = "returned"  # statistics line of an empty session; not a framing matter
            except BaseException as e:  # noqa: BLE001
                out["end"] = "raised:" + type(e).__name__

        task = run.loop.create_task(drv(), name="server")
        run.done = task.done

    return scenario


def _build_server2(item: dict[str, Any], box: dict[str, Any], echo_cls: Any, msgs: list[bytes]) -> Any:
    """two testers connected to the same virtual ECU transport object at overlapping times; each sends its own messages
    (tester B's are the bit-wise complements), one segment per message, the explorer interleaves the deliveries"""
    msgs_b = [bytes(x ^ 0xFF for x in m) for m in msgs]

    def scenario(run: Run) -> None:
        srcs = [Source([encode(m) for m in msgs], eof=True), Source([encode(m) for m in msgs_b], eof=True)]
        conns = [Conn(run, srcs[0], "c0"), Conn(run, srcs[1], "c1")]
        for c in conns:
            run.add_actor(c)
        srv = G["srv"]
        t = srv.TCPUDSServerTransport(echo_cls(), G["TargetURI"]("tcp-lines://127.0.0.1:1"))
        out: dict[str, Any] = {}
        box.update(srcs=srcs, conns=conns, out=out, msgs2=[msgs, msgs_b])

        async def one(i: int) -> None:
            try:
                await t.handle_client(conns[i].reader, conns[i].writer)
                out[i] = "returned"
            except ZeroDivisionError:
                out[i] = "returned"
            except BaseException as e:  # noqa: BLE001
                out[i] = "raised:" + type(e).__name__

        tasks = [run.loop.create_task(one(i), name=f"server{i}") for i in (0, 1)]
        run.done = lambda: all(x.done() for x in tasks)

    return scenario


def judge_server2(item: dict[str, Any], box: dict[str, Any], run: Run, choices: list[int], res: Result) -> None:
    rp = {"item": item, "choices": choices}

    def v(sig: str, m: str) -> None:
        res.violate(f"C19|server|two-connections|{sig}", m + f" [msgs={item['msgs']}]", rp)

    if run.status != "done":
        v(f"hang|{run.status}", "server loops did not end after end of both streams")
        return
    for i in (0, 1):
        if box["out"].get(i) != "returned":
            v("loop-raised|" + str(box["out"].get(i)), f"handle_client of connection {i} ended with {box['out'].get(i)}")
            return
        try:
            got, rest = decode_stream(bytes(box["srcs"][i].rx))
        except ValueError as e:
            v("reply-not-hex", f"connection {i} received something that is not a hex line: {e}")
            return
        want = box["msgs2"][i]
        if rest or got != want:
            other = box["msgs2"][1 - i]
            foreign = sum(1 for g in got if g in other and g not in want)
            v(
                "foreign-replies" if foreign else "sequence-" + ("count" if len(got) != len(want) else "content"),
                f"tester {i} sent {len(want)} requests and received {len(got)} replies, {foreign} of them answers to the other tester's requests",
            )
            return


def judge_server(item: dict[str, Any], box: dict[str, Any], run: Run, choices: list[int], res: Result) -> None:
    msgs = [msg(tuple(s)) for s in item["msgs"]]
    rp = {"item": item, "choices": choices}

    def v(sig: str, m: str) -> None:
        res.violate(f"C19|server|{sig}", m + f" [msgs={item['msgs']} seg={str(item['seg'])[:60]}]", rp)

    if run.status != "done":
        v(f"hang|{run.status}", "server loop did not end after end of stream")
        return
    if box["out"].get("end") != "returned":
        v("loop-raised|" + str(box["out"].get("end")), f"handle_client ended with {box['out'].get('end')}")
        return
    try:
        got, rest = decode_stream(bytes(box["src"].rx))
    except ValueError as e:
        v("reply-not-hex", f"server wrote something that is not a hex line: {e}")
        return
    if rest:
        v("reply-partial-line", f"server wrote an unterminated line: {rest[:20]!r}")
        return
    if got != msgs:
        i = next((k for k in range(min(len(got), len(msgs))) if got[k] != msgs[k]), min(len(got), len(msgs)))
        v(
            "sequence-" + ("count" if len(got) != len(msgs) else "content"),
            f"server answered {len(got)} messages for {len(msgs)} requests; first difference at index {i}",
        )


def build_client_tx(item: dict[str, Any], box: dict[str, Any]) -> Any:
    msgs = [msg(tuple(s)) for s in item["msgs"]]

    def scenario(run: Run) -> None:
        src = Source([], eof=False)
        net = Net(run, lambda n: src)
        net.tx_room = item.get("tx_room")  # not None: the peer reads slowly, writes pile up in the transport's buffer
        net.install()
        box.update(src=src, net=net)
        out: dict[str, Any] = {}
        box["out"] = out

        async def drv() -> None:
            if item["side"] == "unix":
                tr = await G["unix"].connect("unix-lines:///tmp/x.sock")
            else:
                tr = await G["tcp"].connect("tcp-lines://192.0.2.1:1234")
            rets = []
            for m in msgs:
                # (slow peer: no write timeout - whether the peer reads within a deadline is not the property's subject -
                # unless the item asks for it: then a write may end with TimeoutError, and what reaches the peer must still be whole messages)
                tmo = 1.0 if item.get("tx_room") is None or item.get("write_timeout") else None
                try:
                    rets.append(await tr.write(m, timeout=tmo))
                except TimeoutError:
                    if not item.get("write_timeout"):
                        raise
                    rets.append("timeout")
            out["rets"] = rets
            await tr.close()

        task = run.loop.create_task(drv(), name="driver")
        run.done = task.done
        run.finish = net.uninstall  # type: ignore[attr-defined]

    return scenario


def judge_client_tx(item: dict[str, Any], box: dict[str, Any], run: Run, choices: list[int], res: Result) -> None:
    msgs = [msg(tuple(s)) for s in item["msgs"]]
    rp = {"item": item, "choices": choices}
    side = item["side"]
    if run.status != "done":
        res.violate(f"C19|{side}-tx|hang", "writer did not finish", rp)
        return
    wire = bytes(box["src"].rx)
    try:
        got, rest = decode_stream(wire)
    except ValueError:
        res.violate(f"C19|{side}-tx|not-hex", f"wire is not hex lines: {wire[:40]!r}", rp)
        return
    if item.get("write_timeout"):
        # writes may have timed out: the peer must see whole messages only, in order, among them every message whose write() returned
        rets = box["out"].get("rets") or []
        it = iter(msgs)
        in_order = all(any(g == m for m in it) for g in got)
        must = [m for m, r in zip(msgs, rets, strict=False) if r != "timeout"]
        it2 = iter(got)
        has_all = all(any(g == m for g in it2) for m in must)
        if rest or not in_order or not has_all:
            res.violate(
                f"C19|{side}-tx|slow-peer-with-write-timeout|" + ("partial-line" if rest else "glued-or-reordered" if not in_order else "acknowledged-message-missing"),
                f"peer received {len(got)} whole messages (+{len(rest)} stray bytes) for {len(msgs)} writes, {rets.count('timeout')} of which timed out [msgs={item['msgs'][:4]}..]", rp)
        res.count("write_timeouts_observed", rets.count("timeout"))
        return
    if rest or got != msgs:
        res.violate(f"C19|{side}-tx|wire-sequence", f"wire decodes to {len(got)} messages (+{len(rest)} stray bytes), written {len(msgs)} [msgs={item['msgs']}]", rp)
    if box["out"].get("rets") != [len(m) for m in msgs]:
        res.violate(f"C19|{side}-tx|return-value", f"write() returned {box['out'].get('rets')}", rp)


MODES = {
    "rx": (build_client_rx, judge_client_rx),
    "rx2": (build_client_rx2, judge_client_rx2),
    "server": (build_server, judge_server),
    "server2": (build_server, judge_server2),
    "tx": (build_client_tx, judge_client_tx),
}


def _segments(item: dict[str, Any]) -> tuple[list[bytes], list[bytes]]:
    msgs = [msg(tuple(s)) for s in item["msgs"]]
    stream = b"".join(encode(m) for m in msgs)
    if item["seg"] == "msgs":
        cuts, off = [], 0
        for m in msgs:
            off += len(encode(m))
            cuts.append(off)
        return msgs, segment(stream, cuts)
    return msgs, segment(stream, item["seg"])


def run_conform(item: dict[str, Any], res: Result) -> None:
    """Environment-model conformance: the same scenario on the virtual stream (benign schedule) and on a real
    loopback TCP connection must give the same observable result.  A disagreement is a harness defect."""
    from vf.engine.realnet import run_real

    msgs, segs = _segments(item)
    box: dict[str, Any] = {}
    if item["what"] == "rx":
        vitem = dict(item, mode="rx", side="tcp")
        run_once(build_client_rx(vitem, box), [], POLICY)
        virt = [r[2] for r in box["results"] if r[0] == "msg"]

        async def client(host: str, port: int) -> list[bytes]:
            tr = await G["tcp"].connect(f"tcp-lines://{host}:{port}")
            out = []
            while True:
                d = await tr.read(timeout=5.0)
                out.append(d)
                if d == b"":
                    break
            await tr.close()
            return out

        try:
            real, _ = run_real(lambda n: Source(segs, eof=True), client)
        except Exception as e:  # noqa: BLE001  (only a seeded/real defect can get here; finish() decides)
            real = ["EXC:" + type(e).__name__]
    else:
        vitem = dict(item, mode="server")
        run_once(build_server(vitem, box), [], POLICY)
        virt = bytes(box["src"].rx)

        class Echo:
            class state:  # noqa: N801
                @staticmethod
                def reset() -> None:
                    pass

            async def respond(self, request: Any) -> Any:
                class R:
                    pdu = request.pdu

                return R

        async def main() -> bytes:
            t = G["srv"].TCPUDSServerTransport(Echo(), G["TargetURI"]("tcp-lines://127.0.0.1:1"))

            async def handler(r: Any, w: Any) -> None:
                try:
                    await t.handle_client(r, w)
                except ZeroDivisionError:
                    pass
                w.close()

            server = await asyncio.start_server(handler, "127.0.0.1", 0)
            port = server.sockets[0].getsockname()[1]
            reader, writer = await asyncio.open_connection("127.0.0.1", port)
            import socket as _s

            writer.get_extra_info("socket").setsockopt(_s.IPPROTO_TCP, _s.TCP_NODELAY, 1)
            for sg in segs:
                writer.write(sg)
                await writer.drain()
                await asyncio.sleep(0.01)
            writer.write_eof()
            data = await asyncio.wait_for(reader.read(-1), 20)
            writer.close()
            server.close()
            return data

        try:
            real = asyncio.run(main())
        except Exception as e:  # noqa: BLE001
            real = b"EXC:" + type(e).__name__.encode()
    res.count("conformance_replays")
    res.count("executions")
    if real != virt:
        res.count("conformance_disagreements")
        res.notes.setdefault("conformance_disagreement_samples", []).append(f"{item}: virtual {str(virt)[:120]} real {str(real)[:120]}")


def run_item(work: tuple[Any, ...]) -> Result:
    item, bound, cap = work
    res = Result()
    if item["mode"] == "conform":
        run_conform(item, res)
        return res
    build, judge = MODES[item["mode"]]
    box: dict[str, Any] = {}

    def scenario(run: Run) -> None:
        box.clear()
        build(item, box)(run)

    first = True
    for run in explore(scenario, bound, POLICY, max_execs=cap):
        res.count("executions")
        res.count("transitions", run.n_actions)
        res.count("choice_points", len(run.trace))
        h = res.notes.setdefault("deviation_histogram", {})
        dev = str(getattr(run, "deviations", 0))
        h[dev] = h.get(dev, 0) + 1
        if item["mode"] == "rx":
            rs = box["results"]
            res.seen("states", (item["side"], tuple(rs)))
            for r in rs:
                if r[0] == "timeout":
                    res.count("timeouts_observed")
                    stream_len = sum(len(encode(msg(tuple(s)))) for s in item["msgs"])
                    if 0 < r[2] < stream_len:
                        res.count("timeouts_mid_stream")
                        res.seen("timeout_positions", (tuple(map(tuple, item["msgs"])), r[2]))
        elif item["mode"] == "rx2":
            res.count("second_connection_executions")
            res.seen("states", ("rx2", item["side"], item["how"], tuple(box["results"])))
        elif item["mode"] == "server":
            res.seen("states", ("server", bytes(box["src"].rx), tuple(t for t, _ in box["conn"].wire)))
        elif item["mode"] == "server2":
            res.count("two_connection_executions")
            res.seen("states", ("server2", tuple(bytes(x.rx) for x in box["srcs"]), tuple(tuple(t for t, _ in c.wire) for c in box["conns"])))
        else:
            if item.get("tx_room") is not None:
                res.count("slow_peer_executions")
            res.seen("states", ("tx", item["side"], bytes(box["src"].rx)))
        if getattr(run, "capped", False):
            res.count("capped_items")
        judge(item, box, run, run.choices(), res)
        if first:
            first = False
            if item["mode"] == "rx" and len(item["msgs"]) == 2 and item["seg"] not in ("one", "bytes", "msgs"):
                res.sample({"scenario": item, "results": [[r[0], r[1], r[2].hex() if isinstance(r[2], bytes) else r[2]] for r in box["results"]]}, cap=2)
    return res


SPECS = [(n, k) for n in (1, 2, 255, 4095) for k in ("00", "ff", "0a0d", "asc")]
SPECS_SMALL = [(1, "00"), (2, "0a0d"), (1, "ff"), (255, "asc"), (2, "asc"), (4095, "0a0d")]


def split_points(msgs: list[tuple[int, str]]) -> list[int]:
    lens = [2 * n + 1 for n, _ in msgs]
    total = sum(lens)
    if total <= 40:
        return list(range(1, total))
    pts = {1, 2, total - 2, total - 1}
    off = 0
    for ln in lens:
        for d in (-2, -1, 0, 1, 2):
            pts.add(off + d)
            pts.add(off + ln // 2)
        off += ln
    return sorted(p for p in pts if 0 < p < total)


def items(tier: str, seed: int) -> list[Any]:
    quick = tier == "quick"
    bound = 1 if quick else 2
    cap = 5000 if quick else 100000
    out: list[Any] = []
    seqs: list[list[tuple[int, str]]] = [[]]
    for n in (1, 2):
        seqs += [list(t) for t in itertools.product(SPECS, repeat=n)]
    seqs += [list(t) for t in itertools.product(SPECS_SMALL if quick else SPECS[:10], repeat=3)]
    for sq in seqs:
        total = sum(2 * n + 1 for n, _ in sq)
        segs: list[Any] = ["one"]
        if sq:
            segs.append("msgs")
            if total <= (64 if quick else 128):
                segs.append("bytes")
            pts = split_points(sq)
            segs += [[p] for p in pts]
            if total <= 16 or (not quick and total <= 40):
                segs += [list(c) for c in itertools.combinations(range(1, total), 2)]
            elif len(sq) >= 2 and not quick:
                segs += [list(c) for c in itertools.combinations(pts, 2)][:200]
        for seg in segs:
            sides = ("tcp", "unix") if (len(sq) <= 1 or seg in ("one", "msgs")) else ("tcp",)
            b = bound if total <= 64 or seg in ("one", "msgs") else min(bound, 1)
            for side in sides:
                out.append(({"mode": "rx", "side": side, "msgs": sq, "seg": seg}, b, cap))
            if len(sq) <= 2 or seg in ("one", "msgs", "bytes"):
                out.append(({"mode": "server", "msgs": sq, "seg": seg}, min(b, 1), cap))
        for side in ("tcp", "unix"):
            out.append(({"mode": "tx", "side": side, "msgs": sq}, 0, cap))
            if sq and (len(sq) <= 2 or not quick):
                # slow peer: everything written waits in the transport's buffer until the peer reads; close() must flush it
                out.append(({"mode": "tx", "side": side, "msgs": sq, "tx_room": 0}, 1, cap))
        if sq and len(sq) <= 2 and all(n <= 255 for n, _ in sq):
            # requests that take differing times inside the ECU; two testers on one virtual ECU
            out.append(({"mode": "server", "msgs": sq + sq[::-1] + sq, "seg": "one", "delays": [0.3, 0.0, 0.1]}, 1, cap))
            out.append(({"mode": "server2", "msgs": sq + sq[::-1], "seg": "msgs"}, 2 if len(sq) == 1 else 1, cap))
    # with TRACE logging enabled (every gallia command runs like that): same messages, same oracle
    for sq in ([(255, "asc")], [(4095, "asc")], [(255, "ff"), (4095, "0a0d"), (2, "00")], [(1, "00"), (255, "00")]):
        for side in ("tcp", "unix"):
            for seg in ("one", "msgs"):
                out.append(({"mode": "rx", "side": side, "msgs": sq, "seg": seg, "trace": True}, 0, cap))
        out.append(({"mode": "tx", "side": "tcp", "msgs": sq, "trace": True}, 0, cap))
        out.append(({"mode": "server", "msgs": sq, "seg": "one", "trace": True}, 0, cap))
    # leftovers of one connection must not reach another (reconnect, two transports at once)
    for sq in ([(2, "asc"), (1, "00")], [(1, "ff"), (2, "0a0d"), (255, "asc")], [(255, "00"), (255, "ff")]):
        for side in ("tcp", "unix"):
            for how in ("reconnect", "second-transport"):
                for tail in (b"", b"0a0", b"ff"):
                    out.append(({"mode": "rx2", "side": side, "msgs": sq, "how": how, "tail": tail}, 1, cap))
    # bursts
    burst = [SPECS[i % len(SPECS)] if SPECS[i % len(SPECS)][0] < 4095 else (3, "asc") for i in range(50)]
    for seg in ("one", "msgs", [7, 300, 301, 2000]):
        out.append(({"mode": "rx", "side": "tcp", "msgs": burst, "seg": seg}, 1, cap))
        out.append(({"mode": "server", "msgs": burst, "seg": seg}, 1, cap))
    out.append(({"mode": "tx", "side": "tcp", "msgs": burst}, 0, cap))
    out.append(({"mode": "server", "msgs": burst, "seg": "one", "delays": [0.2, 0.0, 0.05, 0.4]}, 1, cap))
    out.append(({"mode": "server2", "msgs": burst[:12], "seg": "msgs"}, 1, cap))
    for side in ("tcp", "unix"):
        for sq in ([(4095, "asc"), (2, "00")], [(4095, "ff"), (4095, "asc"), (1, "00")], [(255, "asc")] * 3 + [(4095, "00")]):
            # a slow peer AND a write timeout: the timer may fire while a message is only partly handed to the kernel
            out.append(({"mode": "tx", "side": side, "msgs": sq, "tx_room": 100, "write_timeout": True}, 2 if not quick else 1, cap))
            out.append(({"mode": "tx", "side": side, "msgs": sq * 6, "tx_room": 0, "write_timeout": True}, 1, cap))
        # (different alignments of the 64 KiB high-water mark - where the writer is paused - relative to the message boundaries)
        for sq in ([(4095, "ff")] * 12, [(4095, "asc"), (255, "00")] * 9, [(2, "00")] + [(4095, "ff")] * 10, [(255, "ff")] + [(4095, "asc")] * 11):
            out.append(({"mode": "tx", "side": side, "msgs": sq, "tx_room": 0, "write_timeout": True}, 1, cap))
    big = [(4095, "asc"), (4095, "ff")] * 12  # > 64 KiB of hex lines: the transport pauses the writer until the peer has read
    for side in ("tcp", "unix"):
        for room in (0, 100):
            out.append(({"mode": "tx", "side": side, "msgs": burst, "tx_room": room}, 1, cap))
            out.append(({"mode": "tx", "side": side, "msgs": big, "tx_room": room}, 1, cap))
    # conformance of the stream model against real loopback sockets (few: real time)
    conf = [([(2, "0a0d")], [3]), ([(1, "00"), (2, "asc")], "msgs"), ([(1, "ff"), (1, "00"), (2, "0a0d")], "one"), ([(255, "asc"), (1, "00")], [1, 300, 511, 512]),
            ([(4095, "0a0d"), (2, "asc")], [8190, 8192]), ([(2, "asc")], "bytes"), ([], "one"), ([(4095, "ff")] * 2, "msgs")]
    if not quick:
        conf += [([SPECS[i % 16], SPECS[(i * 5 + 3) % 16]], [1 + 3 * i]) for i in range(24)]
    for ms, sg in conf:
        for what in ("rx", "server"):
            out.append(({"mode": "conform", "what": what, "msgs": ms, "seg": sg}, 0, cap))
    return out


def replay(doc: dict[str, Any]) -> Result:
    item = doc["item"]
    res = Result()
    build, judge = MODES[item["mode"]]
    box: dict[str, Any] = {}
    run = run_once(build(item, box), list(doc["choices"]), POLICY)
    for c in run.trace:
        if c.chosen:
            print(f"    t={c.t}: deviation {c.labels[c.chosen]} (menu {c.labels})")
    if item["mode"] == "rx":
        for r in box["results"]:
            print("    read ->", r[0], "t=", r[1], (r[2][:24].hex() + ("..." if len(r[2]) > 24 else "")) if isinstance(r[2], bytes) else r[2])
    else:
        print("    peer received:", bytes(box["src"].rx)[:200])
    judge(item, box, run, run.choices(), res)
    return res


def finish(merged: Result, tier: str) -> dict[str, Any]:
    c = merged.counters
    if not c.get("timeouts_mid_stream"):
        raise Broken("vacuous: no read timeout ever fired in the middle of a partially delivered stream")
    capped = c.get("capped_items", 0)
    if not c.get("conformance_replays"):
        raise Broken("no conformance replay ran")
    if c.get("conformance_disagreements") and not merged.violations:
        raise Broken(f"stream model disagrees with real sockets: {merged.notes.get('conformance_disagreement_samples', [])[:1]}")
    return {
        "conformance_replays": c.get("conformance_replays", 0),
        "exhaustive": capped == 0,
        "capped_scenarios": capped,
        "deviation_bound": 1 if tier == "quick" else 2,
        "distinct_timeout_positions": len(merged.digests.get("timeout_positions", ())),
    }
