"""C14 - the virtual ECU survives any request and gallia's own client accepts its answers.

Engine B, explicit-state: the same state enumeration as C13 (every reachable state of every model is
reached by executing a request history on a fresh real server; one work item per state) but with
invariants instead of a reference:

  I1  UDSServerTransport.handle_request never raises, whatever non-empty byte string arrives
  I2  afterwards server.state.session is a session the model offers
  I3  a reply, if any, is accepted by helpers.parse_pdu for RawRequest(req) *and* for
      UDSRequest.parse_dynamic(req) (the two ways UDSClient hands a request to the matcher)
  I4  TCPUDSServerTransport.handle_client (real asyncio.StreamReader fed with the whole history as hex
      lines, minimal writer) consumes every line up to EOF - i.e. never drops the connection - and writes
      exactly hex + LF of every reply that driving handle_request directly produces, and nothing else
  I5  idle time is an input too: after 9.9 s / 10.0 s nothing changes, after 11 s (also followed by a
      TesterPresent) the server behaves exactly like a freshly started one - same replies, same state fields

I1-I3 are evaluated for every request of the alphabet in every state (state restored afterwards);
I4 runs the alphabet as one long history behind the state's own history.
"""

from __future__ import annotations

import asyncio
import contextlib
import io
import traceback
from typing import Any

from vf.engine.runner import Broken, Result
from vf.ref import c13_model as ref
from vf.ref import vecu_common as vc

ID = "C14"
LEVEL = "model_checking"
RULE = (
    "states = distinct (model, everything the server keeps between requests) reached by executing request histories "
    "on fresh real server objects (state set predicted from the model, confirmed by execution, closure under the "
    "alphabet reported). transitions = (state, request) pairs applied to handle_request + requests pushed through "
    "handle_client. Alphabet per state: every SID x payload length 0..2 (boundary bytes + the model's sub-functions "
    "with/without suppress bit), every SID x payload lengths 3..8 (first byte as before for SIDs the model or ISO "
    "knows, three fill patterns), 4095 byte requests for every SID, structured ISO requests, every request gallia's "
    "own request classes serialise (all concrete UDSRequest subclasses, multi-identifier and suppress variants), keys "
    "for the pending seed; idle gaps (9.9 / 10.0 / 11 s, 11 s + TesterPresent) x representative requests (structured, "
    "codec-serialised, keys and seeds of every SecurityAccess type, every session change, TesterPresent)."
)
ASSUMPTIONS = [
    "default behaviour switches (the property does not quantify over them)",
    "virtual wall clock: 1 s per request in the per-state pass, idle gaps of 9.9 / 10.0 / 11 s before a representative "
    "request set in every state, 11 s of silence after every 23rd request of the long history; SecurityAccess seeds "
    "from a seeded generator",
    "helpers.parse_pdu is a pure function of (reply, request bytes): verdicts are memoised per worker",
    "handle_client is driven without an event loop: the callback and the StreamReader limit are those the transport's own "
    "run() hands to asyncio.start_server / start_unix_server (captured), the StreamReader is fed completely (all lines + EOF) before "
    "the coroutine starts, the writer is a stub whose drain() returns at once - segmentation / back-pressure of a "
    "real socket are out of scope here",
    "state restore by replacing server.state / last_time_active (validated in C13)",
    "forced draws: random(), randint(a, b) and expovariate() of the per-reply generators are environment answers; "
    "one draw per reply (the first 24 positions) is forced to either end of its range (expovariate: 0 and 8x its mean), "
    "the generator still advances so all other draws are those of the natural run",
]
CHUNK = 1
DRAW_CAP = 24  # draw positions per reply that are forced (later positions are payload bytes / further DTC records)

_LOOP: list[Any] = []
_MEMO: dict[tuple[bytes, bytes], tuple[tuple[str, str, str], ...]] = {}


def worker_init() -> None:
    vc.load()
    if not _LOOP:
        _LOOP.append(asyncio.new_event_loop())  # never run; StreamReader wants a loop object


def items(tier: str, seed: int) -> list[tuple[Any, ...]]:
    vc.load()
    out: list[tuple[Any, ...]] = []
    for cfg in vc.configs(tier, "C14"):
        m = ref.Model(vc.Ecu(cfg).model_dict())
        for st, hist in vc.state_items(cfg, m):
            out.append(("state", cfg, vc.ser(st), hist))
    return out


def _cat(m: ref.Model, sid: int) -> str:
    return f"{sid:02x}" if (sid in ref.FORMAT_SIDS or sid in m.anywhere) else "other"


def _lencls(q: bytes) -> str:
    n = len(q)
    return str(n) if n <= 3 else ("4-9" if n <= 9 else "long")


def _rcls(r: bytes) -> str:
    if r[:1] == b"\x7f":
        return f"neg{r[2]:02x}" if len(r) == 3 else f"neg-len{len(r)}"
    return "pos"


def _innermost(e: BaseException) -> str:
    tb = traceback.extract_tb(e.__traceback__)
    for fr in reversed(tb):
        if "/gallia/" in fr.filename:
            return fr.name
    return tb[-1].name if tb else "?"


def client_verdict(q: bytes, reply: bytes) -> tuple[tuple[str, str, str], ...]:
    """() if the client accepts `reply` as the answer to `q`; else (how, exception class, text) per failing way."""
    key = (q, reply)
    v = _MEMO.get(key)
    if v is not None:
        return v
    service, helpers = vc.G["service"], vc.G["helpers"]
    out: list[tuple[str, str, str]] = []
    for how in ("raw", "typed"):
        try:
            req = service.RawRequest(q) if how == "raw" else service.UDSRequest.parse_dynamic(q)
            resp = helpers.parse_pdu(reply, req)
            if bytes(resp.pdu) != reply and not isinstance(resp, service.RawResponse):
                # accepted, but the client would see other bytes than were sent (codec round trip; C02's subject)
                pass
        except Exception as e:  # noqa: BLE001 - every exception of the matcher is the verdict "not accepted"
            out.append((how, type(e).__name__, str(e)[:160]))
    if len(_MEMO) < 400000:
        _MEMO[key] = tuple(out)
    return tuple(out)


def alphabet(cfg: dict[str, Any], m: ref.Model, pre: tuple[Any, ...]) -> tuple[list[bytes], list[bytes], list[str]]:
    """(everything, the part that is also run as one long history, notes)."""
    gen, notes = vc.codec_generated()
    wide = vc.wide(cfg)
    short = vc.short_alphabet(m, wide)
    seq = short + vc.structured(m) + gen + vc.dynamic(m, pre)
    rest = vc.long_alphabet(m, wide) + vc.boundary_lengths(m)
    ladder = vc.length_ladder(m)
    return list(dict.fromkeys(seq + rest + ladder)), list(dict.fromkeys(seq + rest[:: 7 if not wide else 3] + ladder)), notes


def check_one(res: Result, cfg: dict[str, Any], m: ref.Model, hist: list[Any], ecu: vc.Ecu, q: bytes, where: str, sent: bytes | None) -> None:
    sid = q[0]
    sess = ecu.srv.state.session
    if sess not in ecu.srv.supported_services:
        res.violate(
            f"C14|session-not-offered|request-sid={_cat(m, sid)}|reply={_rcls(sent) if sent else 'none'}",
            f"server is in session {sess:#04x} which the model does not offer :: {where} request={q[:12].hex()}",
            {"cfg": cfg, "hist": [list(e) for e in hist], "request": q.hex(), "mode": where},
        )
    if sent is None:
        res.count("no_reply")
        return
    if len(sent) == 0:
        res.violate(f"C14|empty-reply|sid={_cat(m, sid)}", f"empty reply :: {where} request={q[:12].hex()}", {"cfg": cfg, "hist": [list(e) for e in hist], "request": q.hex(), "mode": where})
        return
    if sent[0] != 0x7F:
        res.count("positive_replies")
        res.seen("positive_kinds", sent[0])
    for how, exc, text in client_verdict(q, sent):
        res.violate(
            f"C14|client-rejects|{how}|{exc}|sid={_cat(m, sid)}|reply={_rcls(sent)}",
            f"parse_pdu(reply={sent[:16].hex()}{'..' if len(sent) > 16 else ''}, {how} request {q[:12].hex()}{'..' if len(q) > 12 else ''}) -> {exc}: {text} :: {where}",
            {"cfg": cfg, "hist": [list(e) for e in hist], "request": q.hex(), "mode": where},
        )


def explore_state(res: Result, cfg: dict[str, Any], st: tuple[Any, ...], hist: list[Any], only: bytes | None = None) -> None:
    ecu = vc.Ecu(cfg)
    m = ref.Model(ecu.model_dict())
    ecu.play(hist)
    pre = ecu.abstract()
    pre_conc = ecu.concrete()
    res.count("executions")
    res.seen("states", (cfg["name"], pre_conc))
    res.seen("models", m.dump())
    if pre != st:
        res.notes.setdefault("state_prediction_missed", []).append(f"{cfg['name']} {hist}")
    snap = ecu.snapshot()
    alpha, seq, notes = alphabet(cfg, m, pre)
    for n in notes:
        res.uncovered.add(n.split("(")[0])
    if only is not None:
        alpha = [only]
    where = f"model={cfg['name']} state={vc.ser(pre)}"
    for q in alpha:
        res.count("transitions")
        res.count("evaluations")
        try:
            sent = ecu.request(q, log=True)
        except Exception as e:  # noqa: BLE001 - I1
            res.violate(
                f"C14|raises|{type(e).__name__}|in={_innermost(e)}|sid={_cat(m, q[0])}|len={_lencls(q)}",
                f"handle_request raised {e!r} :: {where} request={q[:12].hex()}{'..' if len(q) > 12 else ''}",
                {"cfg": cfg, "hist": [list(e) for e in hist], "request": q.hex(), "mode": "state"},
            )
            ecu.restore(snap)
            continue
        draws = list(vc.DRAWS["log"])
        check_one(res, cfg, m, hist, ecu, q, where, sent)
        post_conc = ecu.concrete()
        if post_conc != pre_conc:
            res.seen("succ", (cfg["name"], post_conc))
            ecu.restore(snap)
        # one deviation: one draw of the reply generators forced to an end of its range
        if len(draws) > DRAW_CAP:
            res.count("draw_positions_beyond_cap", len(draws) - DRAW_CAP)
        for i, kind in enumerate(draws[:DRAW_CAP]):
            for end in ("lo", "hi"):
                res.count("transitions")
                res.count("forced_draws")
                res.seen("forced_draw_kinds", (kind, end))
                w2 = f"{where} draw#{i}({kind})={end}"
                try:
                    sent2 = ecu.request(q, force=(i, end))
                except Exception as e:  # noqa: BLE001
                    res.violate(
                        f"C14|raises|{type(e).__name__}|in={_innermost(e)}|sid={_cat(m, q[0])}|len={_lencls(q)}|draw={kind}:{end}",
                        f"handle_request raised {e!r} :: {w2} request={q[:12].hex()}{'..' if len(q) > 12 else ''}",
                        {"cfg": cfg, "hist": [list(e) for e in hist], "request": q.hex(), "mode": "state"},
                    )
                    ecu.restore(snap)
                    continue
                if sent2 != sent:
                    res.count("forced_draws_changing_reply")
                    check_one(res, cfg, m, hist, ecu, q, w2, sent2)
                ecu.restore(snap)
    if only is None:
        idle_gaps(res, cfg, m, hist, ecu, snap, pre, where)
        long_history(res, cfg, m, hist, seq, where)


def idle_requests(m: ref.Model, pre: tuple[Any, ...]) -> list[bytes]:
    """representative requests sent after an idle gap: every structured / codec-serialised request, keys for the
    pending seed and for every sendKey type of the model, every session change, TesterPresent with/without
    suppress bit, requestSeed of every type."""
    gen, _ = vc.codec_generated()
    out = vc.structured(m) + gen + vc.dynamic(m, pre)
    for t in sorted(m.sf_any.get(ref.SA, ())):
        out += [bytes([0x27, t, 0x00]), bytes([0x27, t | 0x80, 0x00]), bytes([0x27, t])]
    for t in sorted(m.sf_any.get(ref.DSC, ())):
        out += [bytes([0x10, t]), bytes([0x10, t | 0x80])]
    out += [bytes.fromhex("3e00"), bytes.fromhex("3e80")]
    return list(dict.fromkeys(out))


IDLE_GAPS = (9.9, 10.0, 11.0)


def idle_gaps(res: Result, cfg: dict[str, Any], m: ref.Model, hist: list[Any], ecu: vc.Ecu, snap: tuple[Any, ...], pre: tuple[Any, ...], where: str) -> None:
    """Idle time is part of the alphabet.  In the item's state every representative request is sent after 9.9 s,
    10.0 s and 11 s of silence and as second step of 'silence, TesterPresent (with / without suppress bit), request'.
    I1-I3 as usual; moreover the answer and everything the server keeps afterwards (public fields of server.state,
    and their set) must be those of the same request(s) without the gap - sent in the item's state
    for gaps up to 10 s, in the start state of a fresh server for longer ones (documented inactivity reset)."""
    fresh = vc.Ecu(cfg)
    fresh_snap = fresh.snapshot()
    res.count("executions")

    def run(e: vc.Ecu, sn: tuple[Any, ...], steps: list[tuple[bytes, float]]) -> tuple[Any, ...]:
        e.restore(sn)
        sent: bytes | None = None
        try:
            for q, gap in steps:
                sent = e.request(q, gap=gap)
            return ("ok", sent, e.concrete())
        except Exception as ex:  # noqa: BLE001 - I1
            return ("raises", ex, None)
        finally:
            pass

    for q in idle_requests(m, pre):
        for gap in IDLE_GAPS:
            for tp in (None, bytes.fromhex("3e00"), bytes.fromhex("3e80")):
                if tp is not None and gap != 11.0:
                    continue
                steps = [(q, gap)] if tp is None else [(tp, gap), (q, 1.0)]
                res.count("transitions", len(steps))
                res.count("evaluations")
                res.count("idle_gap_cases")
                tag = "silence>10s" if gap > 10.0 else "silence<=10s"
                w = f"{where} after {gap} s of silence" + ("" if tp is None else f" and {tp.hex()}")
                rp = {"cfg": cfg, "hist": [list(e) for e in hist], "request": q.hex(), "mode": "idle", "gap": gap, "tp": tp.hex() if tp else None}
                got = run(ecu, snap, steps)
                if got[0] == "raises":
                    e = got[1]
                    res.violate(
                        f"C14|raises|{type(e).__name__}|in={_innermost(e)}|sid={_cat(m, q[0])}|after-{tag}",
                        f"handle_request raised {e!r} :: {w} request={q[:12].hex()}",
                        rp,
                    )
                    continue
                check_one(res, cfg, m, hist, ecu, q, w, got[1])
                ref_steps = [(x, 1.0) for x, _ in steps]
                want = run(fresh, fresh_snap, ref_steps) if gap > 10.0 else run(ecu, snap, ref_steps)
                if want[0] == "raises":
                    continue  # reported by the per-state pass of the state concerned
                if got[1:] != want[1:]:
                    what = "reply" if got[1] != want[1] else "state-fields"
                    res.violate(
                        f"C14|idle|{'reset-state-differs-from-start-state' if gap > 10.0 else 'state-changed-without-reset'}|{what}|{tag}",
                        f"reply {got[1].hex() if got[1] else None} / state {got[2]} but without the gap"
                        f"{' from the start state' if gap > 10.0 else ''}: reply {want[1].hex() if want[1] else None} / state {want[2]} :: {w} request={q[:12].hex()}",
                        rp,
                    )
    ecu.restore(snap)


def long_history(res: Result, cfg: dict[str, Any], m: ref.Model, hist: list[Any], seq: list[bytes], where: str) -> None:
    """I4: the same request sequence through handle_client and through handle_request."""
    S = vc.G["S"]
    rp = {"cfg": cfg, "hist": [list(e) for e in hist], "request": None, "mode": "history"}
    # direct
    b = vc.Ecu(cfg)
    b.play(hist)
    # two clock readings per request: 1 s per request, and after every 23rd request 11 s of silence
    vc.CLOCK.schedule(step=0.5, jump_every=46, jump=11.0)
    direct: list[bytes] = []
    broke_at: int | None = None
    try:
        for i, q in enumerate(seq):
            res.count("transitions")
            try:
                sent = b.request(q, gap=0.0)
            except Exception:  # noqa: BLE001 - reported by the per-state pass (or below as connection drop)
                broke_at = i
                break
            check_one(res, cfg, m, hist, b, q, where + " (long history)", sent)
            if sent is not None:
                direct.append(sent)
        res.seen("history_end_states", (cfg["name"], b.concrete()))
    finally:
        vc.CLOCK.schedule()
    # through the TCP loop
    a = vc.Ecu(cfg)
    a.play(hist)
    # the server's own run() decides the client callback and the stream limit (TCP and unix flavours alternate)
    flavour = S.TCPUDSServerTransport if len(hist) % 2 == 0 or not hasattr(S, "UnixUDSServerTransport") else S.UnixUDSServerTransport
    tcp = flavour(a.srv, vc.G["target"] if flavour is S.TCPUDSServerTransport else vc.G["TargetURI"]("unix-lines:///nonexistent/vf.sock"))
    cb, limit, which = vc.capture_stream_server(tcp)
    res.seen("stream_servers", (flavour.__name__, which, limit))
    reader = asyncio.StreamReader(limit=limit, loop=_LOOP[0])
    reader.feed_data(b"".join(q.hex().encode() + b"\n" for q in seq))
    reader.feed_eof()
    writer = vc.FakeWriter()
    err = io.StringIO()
    vc.CLOCK.schedule(step=0.5, jump_every=46, jump=11.0)
    vc.ENTROPY[0] = vc.G["entropy_real"][0]
    try:
        with contextlib.redirect_stderr(err):
            vc.drive(cb(reader, writer))
    except Exception as e:  # noqa: BLE001
        res.violate(
            f"C14|handle_client|raises|{type(e).__name__}|in={_innermost(e)}",
            f"handle_client raised {e!r} :: {where}",
            rp,
        )
    finally:
        vc.CLOCK.schedule()
    res.count("executions", 2)
    res.count("transitions", len(seq))
    left = vc.drive(reader.read())
    wire = b"".join(writer.chunks)
    lines = wire.split(b"\n")
    tail = lines.pop()  # what follows the last LF: must be nothing
    got: list[bytes] = []
    bad_lines = 0
    for ln in lines:
        try:
            if not ln:
                raise ValueError("empty line")
            got.append(bytes.fromhex(ln.decode("ascii")))
        except ValueError:
            bad_lines += 1
            if bad_lines == 1:
                res.violate(
                    f"C14|handle_client|wire-format|{'empty-line' if not ln else 'not-hex'}",
                    f"handle_client wrote the line {ln[:40]!r} (line #{len(got)} of {len(lines)}): every line must be the hex of one reply :: {where}",
                    rp,
                )
    if tail:
        res.violate("C14|handle_client|wire-format|unterminated-line", f"output does not end with LF: {tail[:40]!r} :: {where}", rp)
    res.count("wire_lines_checked", len(lines))
    if left:
        n_left = left.count(b"\n")
        idx = len(seq) - n_left - 1
        q = seq[idx] if 0 <= idx < len(seq) else b"\x00"
        last = err.getvalue().strip().splitlines()[-1] if err.getvalue().strip() else "?"
        res.violate(
            f"C14|handle_client|connection-dropped|sid={_cat(m, q[0])}|len={_lencls(q)}|{last.split(':')[0][:40]}",
            f"handle_client stopped reading after request #{idx} ({q[:12].hex()}), {n_left} requests unread: {last[:200]} :: {where}",
            {**rp, "request": q.hex(), "index": idx},
        )
    elif broke_at is not None:
        res.violate("C14|handle_client|survived-what-handle_request-did-not", f"direct run raised at #{broke_at}, TCP loop did not :: {where}", rp)
    elif got != direct:
        k = next((i for i, (x, y) in enumerate(zip(got, direct)) if x != y), min(len(got), len(direct)))
        res.violate(
            "C14|handle_client|replies-differ-from-handle_request",
            f"reply #{k}: TCP loop wrote {got[k].hex() if k < len(got) else None}, handle_request returned {direct[k].hex() if k < len(direct) else None} ({len(got)} vs {len(direct)} replies) :: {where}",
            rp,
        )
    if a.srv.state.session not in a.srv.supported_services:
        res.violate("C14|session-not-offered|after-long-history", f"session {a.srv.state.session:#04x} after the TCP history :: {where}", rp)


def run_item(item: tuple[Any, ...]) -> Result:
    res = Result()
    _kind, cfg, st, hist = item
    hist = [tuple(e) for e in hist]
    explore_state(res, cfg, vc.de(st), hist)
    if not hist and cfg["name"] in ("three", "default/0"):
        res.sample({"model": cfg["name"], "state": st, "counters": dict(res.counters)})
    return res


def replay(doc: dict[str, Any]) -> Result:
    worker_init()
    res = Result()
    cfg = doc["cfg"]
    hist = [tuple(e) for e in doc["hist"]]
    ecu = vc.Ecu(cfg)
    m = ref.Model(ecu.model_dict())
    for q, r in ecu.play(hist):
        print(f"    history: {q.hex()} -> {r.hex() if r else None}")
    st = ecu.abstract()
    print("    state:", st)
    if doc.get("mode") == "idle":
        idle_gaps(res, cfg, m, hist, ecu, ecu.snapshot(), st, f"model={cfg['name']} state={vc.ser(st)}")
    elif doc.get("mode") == "history":
        _alpha, seq, _n = alphabet(cfg, m, st)
        long_history(res, cfg, m, hist, seq, f"model={cfg['name']} state={vc.ser(st)}")
    else:
        explore_state(res, cfg, st, hist, only=bytes.fromhex(doc["request"]))
    return res


def finish(merged: Result, tier: str) -> dict[str, Any]:
    c = merged.counters
    states = merged.digests.get("states", set())
    succ = merged.digests.get("succ", set())
    kinds = merged.digests.get("positive_kinds", set())
    from vf.engine.runner import digest

    need = [0x50, 0x51, 0x54, 0x59, 0x62, 0x67, 0x6E, 0x6F, 0x71, 0x7E]
    missing = [f"{k:02x}" for k in need if digest(k) not in kinds]
    if missing and not merged.violations:  # with violations the run fails anyway; a raising handler may hide a kind
        raise Broken(f"vacuous: positive replies of kinds {missing} never observed")
    if not merged.violations and (len(states) < 50 or c.get("transitions", 0) < 100000 or c.get("positive_replies", 0) < 1000):
        raise Broken("vacuous: too few states / transitions / positive replies")
    closed = succ <= states
    return {
        "bound": {"models": len(merged.digests.get("models", ())), "payload_lengths": "0..8, 4094", "tier": tier},
        "state_set_closed_under_alphabet": closed,
        "exhaustive": closed and not merged.notes.get("state_prediction_missed"),
    }
