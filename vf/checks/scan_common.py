"""Shared harness for the scanner checks (C09, C10): run the real scanner command's
``entry_point()`` on a VLoop against a table-driven model ECU reachable through the
real ``tcp-lines`` transport on an in-memory stream."""

from __future__ import annotations

import logging
from typing import Any

from vf.engine.explore import Policy, Run, run_once
from vf.engine.netsim import Net, Peer

POLICY = Policy(max_iterations=3_000_000, max_vtime=1e7)
G: dict[str, Any] = {}


def worker_init() -> None:
    import gallia.command  # noqa: F401
    from gallia.commands.scan.uds.identifiers import ScanIdentifiers, ScanIdentifiersConfig
    from gallia.commands.scan.uds.services import ServicesScanner, ServicesScannerConfig
    from gallia.commands.scan.uds.sessions import SessionsScanner, SessionsScannerConfig

    logging.disable(logging.NOTSET)
    G.update(
        SessionsScanner=SessionsScanner, SessionsScannerConfig=SessionsScannerConfig,
        ServicesScanner=ServicesScanner, ServicesScannerConfig=ServicesScannerConfig,
        ScanIdentifiers=ScanIdentifiers, ScanIdentifiersConfig=ScanIdentifiersConfig,
    )
    # capture RESULT-level (and warning+) records of gallia loggers instead of printing them
    root = logging.getLogger("gallia")
    root.handlers.clear()
    root.propagate = False
    root.setLevel(25)  # NOTICE: result lines, warnings, errors
    root.addHandler(CAPTURE)


class Capture(logging.Handler):
    def __init__(self) -> None:
        super().__init__(level=25)
        self.records: list[tuple[int, str, str]] = []

    def emit(self, record: logging.LogRecord) -> None:
        try:
            msg = record.getMessage()
        except Exception:  # noqa: BLE001
            msg = str(record.msg)
        tags = getattr(record, "tags", None) or []
        name = "RESULT" if "result" in tags else record.levelname
        self.records.append((record.levelno, name, msg))


CAPTURE = Capture()


class ModelECU(Peer):
    """Line-protocol ECU. `respond(session, req) -> (reply|None, new_session)` is supplied by the check.

    Optional model attributes:  start_session (session the ECU is in when the scanner connects),  reset_delay (s, a positively answered ECUReset takes effect that much later),  latency (s, every reply is sent that much later),  s3 (s, session falls back to the default
    session when no request was answered for that long),  down_after(req) -> seconds the ECU is down (silent, then default
    session) after receiving `req`."""

    def __init__(self, model: Any) -> None:
        self.model = model
        self.rx = bytearray()
        self.session = int(getattr(model, "start_session", 1) or 1)  # (a previous tester may have left the ECU in a non-default session)
        self.log: list[tuple[int, bytes]] = []  # (session in which it was received, request)
        self.latency = float(getattr(model, "latency", 0.0) or 0.0)
        self.s3 = getattr(model, "s3", None)
        self.last_answer = 0.0
        self.down_until = -1.0

    def _delayed_reset(self) -> None:
        self.session = 1
        self.last_answer = self.conn.loop.time()

    def on_data(self, data: bytes) -> None:
        self.rx += data
        loop = self.conn.loop
        while b"\n" in self.rx:
            line, rest = bytes(self.rx).split(b"\n", 1)
            self.rx = bytearray(rest)
            req = bytes.fromhex(line.decode())
            now = loop.time()
            if now < self.down_until:
                self.log.append((0, req))  # received while down: session 0 = nobody home
                continue
            if self.down_until >= 0:
                self.down_until = -1.0
                self.session = 1
                self.last_answer = now
            if self.s3 is not None and self.session != 1 and now - self.last_answer > self.s3:
                self.session = 1
            self.log.append((self.session, req))
            down = getattr(self.model, "down_after", None)
            d = down(req) if down is not None else 0
            if d:
                self.down_until = now + d
                continue
            reply, new_session = self.model.respond(self.session, req)
            delay = float(getattr(self.model, "reset_delay", 0.0) or 0.0)
            if delay > 0 and req[0] == 0x11 and reply is not None and reply[0] == 0x51:
                # the ECU acknowledges the reset and performs it a moment later
                loop.call_later(delay, self._delayed_reset)
            else:
                self.session = new_session
            if reply is not None or (req[0] == 0x3E):
                self.last_answer = now
            if reply is not None:
                line_out = reply.hex().encode() + b"\n"
                if self.latency > 0:
                    loop.call_later(self.latency, self.send, line_out)
                else:
                    self.send(line_out)


def run_scanner(cls_name: str, cfg_name: str, cfg_kwargs: dict[str, Any], model: Any, db: bool = False, keep_db: bool = False,
                db_opts: dict[str, Any] | None = None) -> dict[str, Any]:
    """One complete scanner run (benign schedule). Returns observations.
    db=True: the run writes a scan database (aiosqlite replaced by vf.engine.dbshim); box['db_path'] is the file."""
    box: dict[str, Any] = {}
    CAPTURE.records = []
    if db:
        import os
        from pathlib import Path

        import gallia.db.handler  # noqa: F401
        from vf.engine import seams

        seams.patch_gallia(db=True)
        d = Path(f"/dev/shm/vf-scan-{os.getppid()}")
        d.mkdir(parents=True, exist_ok=True)
        dbp = d / f"scan-{os.getpid()}.sqlite"
        for suffix in ("", "-wal", "-shm"):
            if keep_db:
                break
            try:
                os.unlink(str(dbp) + suffix)
            except FileNotFoundError:
                pass
        box["db_path"] = dbp
        cfg_kwargs = dict(cfg_kwargs, db=dbp)

    def scenario(run: Run) -> None:
        if db:
            from vf.engine import dbshim

            w = dbshim.DbWorker()
            for prefix, k in (db_opts or {}).get("fail", ()):
                w.fail_matching.append((prefix, k, dbshim.OperationalError("database is locked")))
            if (db_opts or {}).get("stall_on"):
                w.stall_on, w.stall_iterations = db_opts["stall_on"], int(db_opts.get("stall_iterations", 200))
            box["db_worker"] = w
            run.add_actor(w)
        ecu = ModelECU(model)
        box["ecu"] = ecu
        ecus = [ecu]

        def factory(n: int) -> Peer:
            if n == 0:
                return ecu
            e = ModelECU(model)  # reconnect: same model, shared log
            e.log = ecu.log
            e.session = ecus[-1].session
            ecus.append(e)
            return e

        net = Net(run, factory)
        net.install()
        box["net"] = net
        kwargs = dict(
            target="tcp-lines://127.0.0.1:20162", dumpcap=False, artifacts_base=None, db=None, hooks=False,
            lock_file=None, power_supply=None,
        )
        kwargs.update(cfg_kwargs)
        cfg = G[cfg_name](**kwargs)
        scanner = G[cls_name](cfg)
        box["scanner"] = scanner

        async def drv() -> None:
            try:
                box["exit"] = await scanner.entry_point()
            except BaseException as e:  # noqa: BLE001
                box["exc"] = repr(e)

        task = run.loop.create_task(drv(), name="scanner")
        run.done = task.done

        def fin() -> None:
            box["status"] = run.status
            box["t"] = run.loop.time()
            box["iterations"] = run.loop.iterations
            box["loop_exc"] = [str(c.get("message")) + ":" + repr(c.get("exception")) for c in run.loop.drain_exc_contexts()]
            net.uninstall()

        run.finish = fin  # type: ignore[attr-defined]

    run_once(scenario, [], POLICY)
    box["records"] = list(CAPTURE.records)
    box["log"] = box["ecu"].log
    return box
