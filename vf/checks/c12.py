"""C12 - a database-backed virtual ECU replays the recorded ECU's answers.

Record: the real ``ECU`` client + real ``DBHandler`` (sqlite behind vf.engine.dbshim) talk to a
real ``RandomUDSServer(seed)`` through an in-memory transport.  Replay: a real ``DBUDSServer``
on the produced file answers the same request bytes through ``UDSServerTransport.handle_request``.
Enumerated: all request histories up to a length bound over a model-derived alphabet x seeds x
database shapes (one run; two runs of the same ECU; two ECUs selected by name / by properties).
Oracle: reply i of the replay == recorded reply i (silence where none was recorded).
"""

from __future__ import annotations

import asyncio
import itertools
import logging
import os
import shutil
import sqlite3
from dataclasses import dataclass
from datetime import UTC, datetime
from pathlib import Path
from typing import Any

from vf.engine import dbshim, seams
from vf.engine.explore import Policy, Run, run_once
from vf.engine.runner import Broken, Result

ID = "C12"
LEVEL = "model_checking"
RULE = (
    "recorded ECUs = RandomUDSServer(seed) for the tier's seeds with small session/service/identifier spaces; histories = all sequences of "
    "length <= n over {DSC to each offered session, DSC to an unoffered session, SecurityAccess seed, right key, wrong key, ECUReset, read F186, "
    "read/write/routine on 2 identifiers, TesterPresent, TesterPresent with suppress bit} (requests are derived from the model and from earlier "
    "replies, e.g. the right key); database shapes {one run; the same history recorded twice; two ECUs (two seeds, same requests) selected by "
    "ECU name (tagged before or after further runs are logged); selected by properties (truthy, falsy, null values)}. Each case records with the real client + DBHandler and replays with the real DBUDSServer from the "
    "default state. states = distinct (seed, recorded transcript, replay transcript); transitions = requests recorded + requests replayed"
)
ASSUMPTIONS = [
    "aiosqlite replaced by the FIFO shim over real sqlite3 on both sides; virtual clock for the server's inactivity timer and the client's timestamps",
    "SecurityAccess seeds come from a deterministic replacement of the unseeded RNG (fresh per request, reproducible per run)",
    "the ecu table / address.ecu link (not written by gallia itself) is filled with plain SQL the way an analyst would tag a recording",
    "benign schedule; request timeout 1 s (suppressed requests are recorded as exchanges without reply)",
]

POLICY = Policy(max_iterations=400000, max_vtime=1e6)
G: dict[str, Any] = {}
TMP = Path(f"/dev/shm/vf-c12-{os.getpid()}")
BASE_T = seams.BASE_T


def worker_init() -> None:
    import gallia.command  # noqa: F401
    import gallia.services.uds.server as srv
    from gallia.db.handler import DBHandler
    from gallia.services.uds.core import service
    from gallia.services.uds.core.exception import UDSException
    from gallia.services.uds.ecu import ECU, ECUProperties
    from gallia.transports.base import BaseTransport, TargetURI

    logging.disable(logging.CRITICAL)
    seams.patch_gallia(db=True)

    OrigRNG = srv.RNG
    counter = {"n": 0}

    class DetRNG(OrigRNG):  # type: ignore[misc,valid-type]
        def __init__(self, *args: Any):
            if not args:
                counter["n"] += 1
                args = ("fresh-seed", G["run_tag"], counter["n"])
            super().__init__(*args)

    srv.RNG = DetRNG  # type: ignore[misc]
    G["rng_counter"] = counter

    class ServerTransport(BaseTransport, scheme="vecu"):  # type: ignore[misc]
        """client transport whose peer is a UDSServerTransport in the same process"""

        def __init__(self, name: str, st: Any, wire: list[Any], late: Any = ()) -> None:
            super().__init__(TargetURI(f"vecu://{name}"))
            self.st = st
            self.wire = wire  # [request, reply the client was handed for it (None: the read timed out)]
            self.queue: list[bytes] = []
            self.held: list[bytes] = []
            self.late = set(late)  # indexes of requests whose reply arrives only after the client's read has timed out
            self.nwrites = 0

        @classmethod
        async def connect(cls, target: Any, timeout: float | None = None) -> Any:
            raise NotImplementedError

        async def close(self) -> None:
            pass

        async def write(self, data: bytes, timeout: float | None = None, tags: Any = None) -> int:
            reply, _ = await self.st.handle_request(data)
            idx, self.nwrites = self.nwrites, self.nwrites + 1
            self.wire.append([data, None])
            if reply is not None:
                (self.held if idx in self.late else self.queue).append(reply)
            return len(data)

        async def read(self, timeout: float | None = None, tags: Any = None) -> bytes:
            await asyncio.sleep(0.005)
            if self.queue:
                r = self.queue.pop(0)
                self.wire[-1][1] = r
                return r
            await asyncio.sleep(timeout if timeout else 10**6)
            self.queue += self.held  # the late reply is there now: the next read gets it
            self.held.clear()
            raise TimeoutError

    @dataclass
    class Props(ECUProperties):  # type: ignore[misc]
        vin: str = ""
        sw: int = 0
        coding: bool = False
        note: str | None = None

    class Cfg:
        def model_dump_json(self) -> str:
            return "{}"

    G.update(srv=srv, DBHandler=DBHandler, ECU=ECU, service=service, UDSException=UDSException, ServerTransport=ServerTransport,
             Props=Props, Cfg=Cfg, TargetURI=TargetURI, run_tag="")
    TMP.mkdir(parents=True, exist_ok=True)


def make_server(seed: int) -> Any:
    srv = G["srv"]
    iso = srv.UDSIsoServices
    params = srv.RandomUDSServer.RandomnessParameters(
        mandatory_sessions=[1, 2],
        optional_sessions=[3, 0x40],
        p_session=0.8,
        mandatory_services=[iso.DiagnosticSessionControl, iso.ReadDataByIdentifier, iso.TesterPresent],
        optional_services=[iso.SecurityAccess, iso.EcuReset, iso.WriteDataByIdentifier, iso.RoutineControl],
        p_service=0.8,
        p_sub_function=0.05,
        p_identifier=0.5,
        p_correct_payload_format=0.9,
    )
    return srv.RandomUDSServer(seed, params)


# letters -> request bytes (some depend on the model / on earlier replies)
LETTERS = ["dsc2", "dsc3", "dsc40", "dsc1", "dscX", "seed", "keyok", "keybad", "reset", "f186", "rd1", "rd2", "wr1", "rt1", "tp", "tpsup", "dsc2sup", "reset4", "reset5"]


def request_for(letter: str, last_seed: tuple[int, bytes] | None, sa_sub: int | None) -> bytes:
    if letter.startswith("dsc"):
        t = {"dsc1": 1, "dsc2": 2, "dsc3": 3, "dsc40": 0x40, "dscX": 0x55, "dsc2sup": 0x82}[letter]
        return bytes([0x10, t])
    if letter == "seed":
        return bytes([0x27, sa_sub or 1])
    if letter == "keyok":
        sub, seed = last_seed if last_seed else ((sa_sub or 1), b"\x00")
        return bytes([0x27, sub + 1]) + (seed or b"\x00")
    if letter == "keybad":
        sub = last_seed[0] if last_seed else (sa_sub or 1)
        return bytes([0x27, sub + 1, 0xBA, 0xD0, 0xBA, 0xD1])
    return {
        "reset": b"\x11\x01", "reset4": b"\x11\x04", "reset5": b"\x11\x05", "f186": b"\x22\xf1\x86", "rd1": b"\x22\x00\x01", "rd2": b"\x22\x00\x04", "wr1": b"\x2e\x00\x01\xaa",
        "rt1": b"\x31\x01\x00\x01", "tp": b"\x3e\x00", "tpsup": b"\x3e\x80",
    }[letter]


async def record(path: Path, seed: int, letters: list[str], target: str, props: Any, box: dict[str, Any], tag: str, late: Any = ()) -> list[tuple[bytes, bytes | None]]:
    srv = G["srv"]
    server = make_server(seed)
    await server.setup()
    # where the model offers ECUReset it also offers the rapid power shutdown sub-functions (reply carries a powerDownTime)
    for svcs in server.services.values():
        subs = svcs.get(srv.UDSIsoServices.EcuReset)
        if subs is not None:
            svcs[srv.UDSIsoServices.EcuReset] = sorted(set(subs) | {4, 5})
    st = srv.UDSServerTransport(server, G["TargetURI"]("tcp-lines://127.0.0.1:1"))
    wire: list[tuple[bytes, bytes | None]] = []
    dbh = G["DBHandler"](path)
    await dbh.connect()
    await dbh.insert_run_meta("vf.c12", G["Cfg"](), datetime.fromtimestamp(BASE_T, UTC), None)
    await dbh.insert_scan_run(target)
    if props is not None:
        await dbh.insert_scan_run_properties_pre(props)
    ecu = G["ECU"](G["ServerTransport"](tag, st, wire, late), timeout=1.0, max_retry=0)
    ecu.db_handler = dbh
    sa_sub = None
    for sess in sorted(server.services):
        subs = server.services[sess].get(srv.UDSIsoServices.SecurityAccess)
        if subs:
            sa_sub = subs[0]
            break
    last_seed: tuple[int, bytes] | None = None
    states = []
    for li, letter in enumerate(letters):
        if box.get("clock_step") and tag == "A" and li == box["clock_step"][0]:
            seams.OFFSET[0] += box["clock_step"][1]  # the recorder's wall clock is corrected (steps back) in the middle of the recording
        req = request_for(letter, last_seed, sa_sub)
        states.append((dict(ecu.state.__dict__), dict(session=server.state.session, security_access_level=server.state.security_access_level)))
        try:
            r = await ecu.request(G["service"].UDSRequest.parse_dynamic(req))
            if r.pdu[0] == 0x67 and r.pdu[1] % 2 == 1:
                last_seed = (r.pdu[1], r.pdu[2:])
        except (G["UDSException"], ConnectionError, TimeoutError):
            pass
    await dbh.complete_run_meta(datetime.fromtimestamp(BASE_T + asyncio.get_running_loop().time(), UTC), 0, None)
    await dbh.disconnect()
    box.setdefault("states", {})[tag] = states
    return [(q, r) for q, r in wire]


async def replay_db(path: Path, requests: list[bytes], ecu_name: str | None, props: dict[str, Any] | None) -> list[bytes | None]:
    srv = G["srv"]
    server = srv.DBUDSServer(path, ecu_name, props)
    await server.setup()
    st = srv.UDSServerTransport(server, G["TargetURI"]("tcp-lines://127.0.0.1:1"))
    out: list[Any] = []
    try:
        for req in requests:
            try:
                reply, _ = await st.handle_request(req)
                out.append(reply)
            except Exception as e:  # noqa: BLE001
                out.append("EXC:" + type(e).__name__)
    finally:
        await server.teardown()
    return out


def tag_ecus(path: Path, names: dict[str, str]) -> None:
    con = sqlite3.connect(path)
    try:
        for url, name in names.items():
            con.execute("INSERT INTO ecu(name) VALUES (?)", (name,))
            con.execute("UPDATE address SET ecu = (SELECT id FROM ecu WHERE name = ?) WHERE url = ?", (name, url))
        con.commit()
    finally:
        con.close()


def execute(item: dict[str, Any]) -> dict[str, Any]:
    box: dict[str, Any] = {}
    letters = list(item["letters"])
    shape = item["shape"]
    seed = item["seed"]
    path = TMP / f"c12-{os.getpid()}.sqlite"
    for suffix in ("", "-wal", "-shm"):
        try:
            os.unlink(str(path) + suffix)
        except FileNotFoundError:
            pass

    def scenario(run: Run) -> None:
        seams.patch_gallia(db=True)
        worker = dbshim.DbWorker()
        run.add_actor(worker)
        G["rng_counter"]["n"] = 0
        seams.OFFSET[0] = 0.0
        if item.get("clock_step"):
            box["clock_step"] = item["clock_step"]

        async def main() -> None:
            G["run_tag"] = "A"
            propsA = G["Props"](vin="WVWAAA", sw=1) if shape != "props0" else G["Props"](vin="", sw=0, coding=False, note=None)
            wireA = await record(path, seed, letters, "tcp-lines://ecu-a:1", propsA if shape in ("props", "props0", "name+props") else None, box, "A", item.get("late", ()))
            box["wireA"] = wireA
            name = None
            props = None
            if shape == "twice":
                G["run_tag"] = "A2"
                await record(path, seed, letters, "tcp-lines://ecu-a:1", None, box, "A2")
            elif shape == "name-more":
                # an analyst tags the first run's address with an ECU name; later another ECU and another run of ECU A are logged
                tag_ecus(path, {"tcp-lines://ecu-a:1": "A"})
                G["run_tag"] = "B"
                await record(path, seed + 1000, letters, "tcp-lines://ecu-b:1", None, box, "B")
                G["run_tag"] = "A2"
                await record(path, seed, letters, "tcp-lines://ecu-a:1", None, box, "A2")
                name = "A"
            elif shape == "name+props":
                # two runs of the SAME ECU (same address, same name) with different properties and different answers (the second run is
                # another software version = another seed); ECU name and properties given together select the first one
                G["run_tag"] = "B"
                wireB = await record(path, seed + 1000, letters, "tcp-lines://ecu-a:1", G["Props"](vin="WVWAAA", sw=2), box, "B")
                tag_ecus(path, {"tcp-lines://ecu-a:1": "A"})
                name = "A"
                if item.get("second"):
                    props = {"sw": 2}
                    box["wireA"], box["wireB"] = wireB, wireA  # the selected (second) recording is the reference
                    box["states"]["A"], box["states"]["B"] = box["states"]["B"], box["states"]["A"]
                else:
                    props = {"sw": 1}
                    box["wireB"] = wireB
            elif shape == "name-like":
                # two ECUs whose names differ only in case / in characters that SQL LIKE treats as wildcards; the later one is selected
                G["run_tag"] = "B"
                wireB = await record(path, seed + 1000, letters, "tcp-lines://ecu-b:1", None, box, "B")
                na, nb = item["names"]
                tag_ecus(path, {"tcp-lines://ecu-a:1": na, "tcp-lines://ecu-b:1": nb})
                name = nb
                box["wireA"], box["wireB"] = wireB, wireA  # the selected recording is the reference
                box["states"]["A"], box["states"]["B"] = box["states"]["B"], box["states"]["A"]
            elif shape in ("name", "props", "props0"):
                G["run_tag"] = "B"
                propsB = G["Props"](vin="WVWBBB", sw=1) if shape != "props0" else G["Props"](vin="x", sw=7, coding=True, note="n")
                wireB = await record(path, seed + 1000, letters, "tcp-lines://ecu-b:1", propsB if shape in ("props", "props0") else None, box, "B")
                box["wireB"] = wireB
                if shape == "name":
                    tag_ecus(path, {"tcp-lines://ecu-a:1": "A", "tcp-lines://ecu-b:1": "B"})
                    name = "A"
                elif shape == "props":
                    props = {"vin": "WVWAAA"}
                else:
                    # falsy and null property values select like any other value
                    props = item.get("select") or {"sw": 0, "coding": False, "note": None}
            box["replay"] = await replay_db(path, [q for q, _ in box["wireA"]], name, props)

        task = run.loop.create_task(main(), name="main")
        run.done = task.done

        def fin() -> None:
            box["status"] = run.status
            box["exc"] = repr(task.exception()) if task.done() and not task.cancelled() and task.exception() else None

        run.finish = fin  # type: ignore[attr-defined]

    run_once(scenario, [], POLICY)
    return box


def judge(item: dict[str, Any], box: dict[str, Any], res: Result) -> None:
    rp = {"item": item}
    where = f"[seed={item['seed']} shape={item['shape']} history={item['letters']}{' names=' + str(item['names']) if item.get('names') else ''}{' late-reply-to=' + str(item['late']) if item.get('late') else ''}{' clock-step=' + str(item['clock_step']) if item.get('clock_step') else ''}]"

    def v(sig: str, m: str) -> None:
        res.violate(f"C12|{sig}", m + " " + where, rp)

    if box["status"] != "done" or box.get("exc"):
        v(f"harness-or-code-raised|{(box.get('exc') or box['status']).split('(')[0]}", f"record/replay did not complete: {box.get('exc') or box['status']}")
        return
    wire = box["wireA"]
    rep = box["replay"]
    letters = item["letters"]
    for i, ((req, want), got) in enumerate(zip(wire, rep, strict=True)):
        if got != want:
            cstate, sstate = box["states"]["A"][i]
            # classify the history leading here
            prior_silence = any(w is None for _, w in wire[:i])
            state_split = cstate != sstate
            if isinstance(got, str):
                kind = "replay-raised|" + got[4:]
            elif got is None:
                kind = "silence-instead-of-reply"
            elif want is None:
                kind = "reply-instead-of-silence"
            else:
                kind = "different-reply"
            default = cstate == {"session": 1, "security_access_level": None}
            if prior_silence and not default and not isinstance(got, str):
                sig = f"replay-reset-by-recorded-silence|{kind}"
            else:
                sig = f"{kind}|after-recorded-silence={'yes' if prior_silence else 'no'}|client-state!=server-state={'yes' if state_split else 'no'}|shape={item['shape']}{'|late-reply' if item.get('late') else ''}"
            v(
                sig,
                f"request {i} ({letters[i]}, {req.hex()}): recorded reply {want.hex() if want else None}, replay gave {got.hex() if isinstance(got, bytes) else got}; "
                f"logged client state {cstate}, recording server state {sstate}",
            )
            return


def run_item(item: dict[str, Any]) -> Result:
    res = Result()
    box = execute(item)
    res.count("executions")
    if "wireA" in box:
        res.count("transitions", len(box["wireA"]) * 2)
        res.seen("states", (item["seed"], item["shape"], tuple(box["wireA"]), tuple(box.get("replay", ()))))
        if any(w is not None and w[0] != 0x7F for _, w in box["wireA"]):
            res.count("histories_with_positive_replies")
        for k in item.get("late", ()):
            w = box["wireA"]
            if w[k][1] is None and k + 1 < len(w) and w[k + 1][1] is not None:
                res.count("histories_with_late_reply_logged_for_next_request")
        if item["shape"] in ("name-like", "name+props") and [r for _, r in box["wireA"]] != [r for _, r in box["wireB"]]:
            res.count("colliding_name_cases_with_different_recordings")
        if any(c["session"] != 1 for c, _ in box["states"]["A"]):
            res.count("histories_leaving_default_session")
        if any(c["security_access_level"] is not None for c, _ in box["states"]["A"]):
            res.count("histories_unlocking_security")
    judge(item, box, res)
    if item.get("sample") and "wireA" in box:
        res.sample({"seed": item["seed"], "shape": item["shape"], "history": item["letters"],
                    "recorded": [[q.hex(), w.hex() if w else None] for q, w in box["wireA"]],
                    "replayed": [g.hex() if isinstance(g, bytes) else g for g in box["replay"]]}, cap=3)
    return res


def items(tier: str, seed: int) -> list[Any]:
    quick = tier == "quick"
    seeds = range(0, 4) if quick else range(0, 16)
    out: list[Any] = []
    L = 3 if quick else 4
    for sd in seeds:
        for n in range(1, L + 1):
            alpha = LETTERS if n <= 2 else (LETTERS[:12] if n == 3 else LETTERS[:8])
            if quick and n == 3:
                alpha = ["dsc2", "dsc1", "seed", "keyok", "reset", "f186", "rd1", "tpsup", "dsc2sup"]
            for seq in itertools.product(alpha, repeat=n):
                shapes = ["one"]
                if n <= 2:
                    shapes += ["twice", "name", "props"]
                if n == 1 or (n == 2 and seq[0] == seq[1]):
                    shapes += ["props0", "name-more"]
                for sh in shapes:
                    out.append({"seed": sd, "letters": list(seq), "shape": sh, "sample": sd == 1 and seq in (("dsc2", "seed", "keyok"), ("dsc2", "rd1")) and sh == "one"})
        # deeper states first: prefixes that leave the default session / unlock security, then every short suffix
        prefixes = [["dsc2", "seed", "keyok"], ["seed", "keyok"], ["dsc3", "seed", "keyok"], ["dsc2", "dsc3"], ["dsc2", "seed"]]
        suffix_alpha = ["dsc2", "dsc3", "dsc1", "seed", "keyok", "keybad", "reset", "f186", "rd1", "reset4", "reset5", "wr1", "rt1", "tp"]
        for pre in prefixes:
            for m in (1, 2):
                for suf in itertools.product(suffix_alpha if m == 1 or not quick else suffix_alpha[:11], repeat=m):
                    out.append({"seed": sd, "letters": pre + list(suf), "shape": "one", "sample": False})
        # ECU names that collide under SQL LIKE / case folding; the ECU recorded later is the one selected
        for names in (("gw-1", "gw_1"), ("Body", "BODY"), ("body", "Body"), ("ecu12", "ecu%"), ("x_y", "x_y2")):
            for seq in (["rd1"], ["f186", "rd1"], ["dsc2", "rd1"], ["rd1", "rd2"], ["dsc2", "seed"], ["rt1", "wr1"]):
                out.append({"seed": sd, "letters": seq, "shape": "name-like", "names": list(names), "sample": False})
        # ECU name and properties together: two runs of one ECU that differ in properties and answers
        for seq in (["rd1"], ["f186", "rd1"], ["dsc2", "rd1"], ["rd1", "rd2"], ["dsc2", "seed"], ["rt1", "wr1"], ["dsc3", "rd2"]):
            out.append({"seed": sd, "letters": seq, "shape": "name+props", "sample": False})
            out.append({"seed": sd, "letters": seq, "shape": "name+props", "second": True, "sample": False})
        # the recorder's wall clock steps back (NTP correction, VM resume) before request k; the same request occurs on both sides
        for seq in (["seed", "seed"], ["rd1", "seed", "seed"], ["dsc2", "seed", "dsc2", "seed"], ["seed", "keybad", "seed", "keyok"], ["rd1", "rd1"], ["seed", "tp", "seed"]):
            for k in range(1, len(seq)):
                out.append({"seed": sd, "letters": seq, "shape": "one", "clock_step": [k, -3600.0], "sample": False})
        # recording faults: the reply to request k arrives only after the client's read timed out and is read as the answer to
        # request k+1 (logged with a RequestResponseMismatch); the replay must still reproduce what was logged
        for n in (2, 3) if quick else (2, 3, 4):
            alpha = ["dsc2", "dsc3", "dsc1", "seed", "reset", "f186", "rd1", "tp"] if n <= 3 else ["dsc2", "dsc1", "seed", "rd1"]
            if quick and n == 3:
                alpha = ["dsc2", "dsc1", "seed", "rd1", "reset"]
            for seq in itertools.product(alpha, repeat=n):
                for k in range(n - 1):
                    out.append({"seed": sd, "letters": list(seq), "shape": "one", "late": [k], "sample": False})
    for sd in list(seeds)[:2]:
        for sel in ({"sw": 0}, {"coding": False}, {"note": None}, {"vin": ""}, {"sw": 0, "vin": ""}):
            out.append({"seed": sd, "letters": ["rd1", "dsc2", "rd1"], "shape": "props0", "select": sel, "sample": False})
    return out


def replay(doc: dict[str, Any]) -> Result:
    item = doc["item"]
    res = Result()
    box = execute(item)
    for i, ((q, w), g) in enumerate(zip(box.get("wireA", []), box.get("replay", []), strict=False)):
        print(f"    {i}: {item['letters'][i]:8s} req {q.hex():14s} recorded {w.hex() if w else None}  replay {g.hex() if isinstance(g, bytes) else g}   states(client,server)={box['states']['A'][i]}")
    judge(item, box, res)
    return res


def finish(merged: Result, tier: str) -> dict[str, Any]:
    shutil.rmtree(TMP, ignore_errors=True)
    c = merged.counters
    for k in ("histories_with_positive_replies", "histories_leaving_default_session", "histories_unlocking_security",
              "histories_with_late_reply_logged_for_next_request", "colliding_name_cases_with_different_recordings"):
        if not c.get(k):
            raise Broken(f"vacuous: {k} == 0")
    return {"exhaustive": True}
