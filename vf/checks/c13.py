"""C13 - the virtual ECU answers by the ISO 14229-1 default response rules.

Engine B, explicit-state.  For every model (hand-built + RandomUDSServer over seeds x randomness
parameters) the set of server states reachable from the start state is enumerated: the reference
predicts the states together with one shortest request history each, every history is executed on a
*fresh real* server object (one work item per state, so states of one model are explored in parallel)
and must arrive in the predicted state; in every such state every request of the alphabet is applied
to the real ``UDSServerTransport.handle_request`` and reply + successor state are compared with the
reference decision list (vf/ref/c13_model.py).  The state set is a fixpoint: finish() verifies that
every successor state observed anywhere is itself one of the explored states (closure under the whole
alphabet), i.e. the explored set *is* the reachable set.

Work item kinds
  full     all requests x one state, all behaviour switches on; suppression twin; inactivity boundary;
           re-execution probe that validates the snapshot/restore shortcut
  subsets  one state x reduced alphabet x a slice of the 512 behaviour switch subsets
"""

from __future__ import annotations

import traceback
from typing import Any

from vf.engine.runner import Broken, Result
from vf.ref import c13_model as ref
from vf.ref import vecu_common as vc

ID = "C13"
LEVEL = "model_checking"
RULE = (
    "states = distinct (model, everything the server keeps between requests: session, security level, last "
    "SecurityAccess reply) reached by executing request histories on fresh real server objects; the reachable set "
    "is predicted by the reference, confirmed by execution and closed under the alphabet (fixpoint checked). "
    "transitions = (state, request[, switch subset]) pairs applied to handle_request. Alphabet per state: every "
    "SID 0x00-0xFF x payload length 0..2 (first byte over {00,01,02,03,7F,80,81,FF} + every sub-function the model "
    "knows for that SID with and without suppress bit, second byte over the 8 boundary bytes) + structured ISO "
    "requests of every service + keys for the pending seed; requestSeed with two entropy values (non-empty / empty "
    "seed). Switch subsets: all 512 on one representative request per reference decision class."
)
ASSUMPTIONS = [
    "wall clock of gallia.services.uds.server replaced by a virtual clock (1 s between requests; 10.0 s / 10.5 s "
    "idle gaps probe the documented inactivity reset)",
    "the unseeded RNG() used for SecurityAccess seeds is replaced by a seeded one (two entropy values)",
    "reference tables (sub-function services, request formats) written from ISO 14229-1:2013; formats the table "
    "leaves undecided (reserved sub-functions, edition dependent layouts, services gallia has no codec for) are "
    "listed as uncovered, never judged",
    "pending seed semantics (dropped by every answered request except TesterPresent) are the implementation's, "
    "the property only fixes session / security level changes",
    "states are restored by replacing server.state and transport.last_time_active; validated per state by "
    "re-executing the history on fresh objects for the reduced alphabet, and by checking that the model and the "
    "attribute sets of server/transport are unchanged",
    "behaviour switch subsets are applied for one step in each reachable state of the default configuration",
]
CHUNK = 1

SUBSET_SLICES = 4  # 512 masks in 4 slices of 128


def worker_init() -> None:
    vc.load()


# ---------------------------------------------------------------------------
# items


def _model_of(cfg: dict[str, Any]) -> ref.Model:
    return ref.Model(vc.Ecu(cfg).model_dict())


def items(tier: str, seed: int) -> list[tuple[Any, ...]]:
    vc.load()
    out: list[tuple[Any, ...]] = []
    subs: list[tuple[Any, ...]] = []
    for cfg in vc.configs(tier, "C13"):
        m = _model_of(cfg)
        sts = vc.state_items(cfg, m)
        for st, hist in sts:
            out.append(("full", cfg, _ser(st), hist))
        # switch subsets.  quick: all 512 on the hand-built models (states at history depth <= 2 / one per session),
        # all subsets with at most two switches off plus all-off on one state per session of every random model;
        # thorough: all 512 in every state of the hand-built models and in one state per session of every random
        # model, the at-most-two-off subsets plus all-off in every other state.
        if tier == "thorough":
            for st, hist in sts:
                if cfg["kind"] == "hand" or (st[1] is None and st[2] is None):
                    for k in range(SUBSET_SLICES):
                        subs.append(("subsets", cfg, _ser(st), hist, k))
                else:
                    subs.append(("subsets", cfg, _ser(st), hist, "pairs"))
        elif cfg["kind"] == "hand":
            depth = 2 if cfg["name"] == "three" else 1
            for st, hist in sts:
                if len(hist) <= depth and (cfg["name"] == "three" or st[2] is None):
                    for k in range(SUBSET_SLICES):
                        subs.append(("subsets", cfg, _ser(st), hist, k))
        else:
            for st, hist in sts:
                if st[1] is None and st[2] is None:
                    subs.append(("subsets", cfg, _ser(st), hist, "pairs"))
    return out + subs


_ser, _de = vc.ser, vc.de


# ---------------------------------------------------------------------------
# judge


def _cls(h: bytes | None) -> str:
    if h is None:
        return "none"
    if h[0] == 0x7F:
        return f"neg{h[2]:02x}" if len(h) == 3 else "neg-malformed"
    return "pos"


def _off(mask: int) -> str:
    off = "+".join(n for i, n in enumerate(ref.SWITCHES) if not mask >> i & 1) or "-"
    if len(off) > 60:
        off = f"{bin(mask ^ ref.ALL).count('1')}-switches"
    return off


def _svc(sid: int) -> str:
    """coarse service class for signatures of rule violations (one root cause -> few signatures)."""
    if sid in ref.SUBFUNC:
        return "subfunction-service"
    return "plain-service" if sid in ref.FORMAT_SIDS else "service-without-format-table"


def _sidcat(sid: int) -> str:
    return f"{sid:02x}" if sid in ref.FORMAT_SIDS else "other"


def record_dependent(pdu: bytes) -> bool:
    """Does the request carry a record whose required length only the (simulated) application knows?  Only then
    may a handler answer incorrectMessageLengthOrInvalidFormat to a request that is well formed by the tables."""
    sid, n = pdu[0], len(pdu)
    if sid in (ref.WDBI, ref.IOCBI, ref.RC, ref.TD, ref.WMBA):
        return True
    if sid in (ref.CDTCS, ref.SA):
        return n > 2
    if sid == ref.RTE:
        return n > 1
    return False


class Judge:
    def __init__(self, res: Result, cfg: dict[str, Any], m: ref.Model, hist: list[Any]) -> None:
        self.res = res
        self.cfg = cfg
        self.m = m
        self.hist = hist
        self.handler_seen: dict[Any, tuple[bytes, bool]] = {}
        self.parse_disagree: set[bytes] = set()
        self.tainted: set[bytes] = set()  # requests that already have a violation: no differential noise on top

    def rp(self, q: bytes, mask: int, **kw: Any) -> dict[str, Any]:
        d = {"cfg": self.cfg, "hist": [list(e) for e in self.hist], "request": q.hex(), "mask": mask}
        d.update(kw)
        return d

    def where(self, q: bytes, pre: tuple[Any, ...], mask: int) -> str:
        off = [n for i, n in enumerate(ref.SWITCHES) if not mask >> i & 1]
        return (
            f"model={self.cfg['name']} state=(session {pre[0]:#04x}, level {pre[1]}, pending "
            f"{None if pre[2] is None else (pre[2][0], pre[2][1].hex())}) request={q.hex()}"
            + (f" switches-off={off}" if off else "")
        )

    def judge(
        self,
        q: bytes,
        pre: tuple[Any, ...],
        h: bytes | None,
        sent: bytes | None,
        post: tuple[Any, ...],
        mask: int,
        rp_extra: dict[str, Any] | None = None,
        res: Result | None = None,
        label: Any = None,
    ) -> bool:
        """h = answer before suppression, sent = what went on the wire.  Returns True if everything agreed.
        Signatures get `|off=<smallest set of switched-off behaviours that shows the same failure>`."""
        res = res or self.res
        m = self.m
        sid = q[0]
        d = ref.decide(m, pre[0], q, mask)
        ok = True
        def bad(sig: str, msg: str, with_off: bool = True) -> None:
            nonlocal ok
            ok = False
            self.tainted.add(q)
            if with_off:
                sig += "|off=" + ("-" if mask == ref.ALL else (label(sig) if label else _off(mask)))
            res.violate(sig, msg + " :: " + self.where(q, pre, mask), self.rp(q, mask, **(rp_extra or {})))

        # (with the format rule off as well, the RoutineControl / ReadDTCInformation handlers may say 0x12 themselves)
        if sid in ref.SUBFUNC and len(q) < 2 and not mask & ref.MSF and mask & ref.SFNS and h is not None and (mask & ref.IFMT or sid not in (ref.RC, ref.RDTC)):
            if h[0] == 0x7F and len(h) == 3 and h[2] in (ref.NRC_SFNS, ref.NRC_SFNSIAS) and (not mask & ref.SNS or sid in m.services.get(pre[0], {})):
                # rule 3 fired on a request that has no sub-function byte (rule 2 being disabled)
                bad(
                    f"C13|sub_function_not_supported|applied-without-sub-function-byte|got={_cls(h)}",
                    f"request without sub-function byte answered {h.hex()} by the unknown-sub-function rule",
                )
                want_post = ref.after(pre, q, h)
                if post != want_post:
                    bad(f"C13|state|after-rule3-without-sub-function|sid={_sidcat(sid)}", f"state {post} expected {want_post}")
                return ok

        # shape of any answer
        if h is not None:
            if h[0] == 0x7F:
                if len(h) != 3 or h[1] != sid:
                    bad(f"C13|reply-shape|negative|sid={_sidcat(sid)}", f"negative reply {h.hex()} does not name the request")
            elif h[0] != (sid + 0x40) & 0xFF or sid >= 0xC0:
                bad(f"C13|reply-shape|positive|sid={_sidcat(sid)}", f"positive reply {h.hex()} is not of service {sid:#04x}")
        # suppression: positive replies iff suppress bit (and switch on); negatives never
        if h is not None:
            want_suppressed = bool(mask & ref.SUPP) and h[0] != 0x7F and ref.suppressible(q)
            if want_suppressed and sent is not None:
                bad(f"C13|suppress|positive-not-suppressed|sid={_sidcat(sid)}", f"positive reply {sent.hex()} sent although the suppress bit is set")
            if not want_suppressed and sent is None:
                kind = "negative" if h[0] == 0x7F else "positive"
                bad(f"C13|suppress|{kind}-suppressed|svc={_svc(sid)}", f"{kind} reply {h.hex()} was suppressed")
            if sent is not None and sent != h:
                bad(f"C13|suppress|reply-differs-from-unsuppressed|sid={_sidcat(sid)}", f"sent {sent.hex()} but unsuppressed run gives {h.hex()}")
        elif sent is not None:
            raise RuntimeError("harness: sent without h")

        kind = d[0]
        if kind == "undef":
            res.uncovered.add(d[1])
        elif kind == "neg":
            want = bytes([0x7F, sid, d[1]])
            if h != want:
                bad(f"C13|{d[2]}|svc={_svc(sid)}|want={d[1]:02x}|got={_cls(h)}", f"rule {d[2]}: expected {want.hex()}, got {h.hex() if h else None}")
        elif kind == "pos":
            good = h is not None and (h == d[1] if d[2] else h[: len(d[1])] == d[1])
            if not good:
                bad(f"C13|{d[3]}|sid={_sidcat(sid)}|want=pos|got={_cls(h)}", f"default positive answer {d[3]}: expected {d[1].hex()}{'' if d[2] else '..'}, got {h.hex() if h else None}")
        else:  # handler stage
            wf = d[1]
            if h is None:
                if mask & ref.NONE:
                    bad(f"C13|none|sid={_sidcat(sid)}|no-answer", "no answer at all although default_response_if_none is on")
            elif wf:
                if h[0] == 0x7F and len(h) == 3 and (
                    h[2] in (ref.NRC_SNS, ref.NRC_SNSIAS, ref.NRC_SFNSIAS) or (h[2] == ref.NRC_SFNS and sid not in (ref.RC, ref.RDTC))
                ):
                    rule = "service_not_supported" if h[2] in (ref.NRC_SNS, ref.NRC_SNSIAS) else "sub_function_not_supported"
                    bad(
                        f"C13|{rule}|fired-although-no-rule-applies|svc={_svc(sid)}|got={_cls(h)}",
                        f"service and sub-function are offered in the active session (or the rule is off) but the answer is {h.hex()}",
                    )
                if h[0] == 0x7F and len(h) == 3 and h[2] == ref.NRC_IMLOIF and not record_dependent(q):
                    bad(
                        f"C13|incorrect_format|wellformed-request-answered-13|sid={_sidcat(sid)}|sub={q[1] & 0x7F if sid in (ref.DDDI, ref.RDTC, ref.RC) and len(q) > 1 else '*'}|suppress-bit={int(ref.suppressible(q))}",
                        f"well formed request (ISO 14229-1 layout) answered incorrectMessageLengthOrInvalidFormat {h.hex()} although no default rule applies",
                        with_off=False,
                    )
                    self.parse_disagree.add(q)
                if sid == ref.SA:
                    e = ref.security_access(pre[2], q)
                    assert e is not None
                    if e[0] == "seed":
                        if not (h[:2] == bytes([0x67, e[1]])):
                            bad(f"C13|security|requestSeed|got={_cls(h)}", f"requestSeed expected 67 {e[1]:02x} <seed>, got {h.hex()}")
                    elif e[0] == "pos":
                        if h != e[1]:
                            bad(f"C13|security|sendKey-correct|got={_cls(h)}", f"correct key: expected {e[1].hex()}, got {h.hex()}")
                    elif h != bytes([0x7F, sid, e[1]]):
                        bad(f"C13|security|sendKey|want={e[1]:02x}|got={_cls(h)}", f"sendKey expected 7f27{e[1]:02x}, got {h.hex()}")
            # differential: the handler's answer does not depend on the switches
            norm = h if h is not None else bytes([0x7F, sid, ref.NRC_GR])
            hk = (pre, (rp_extra or {}).get("entropy", 0), q)
            ifmt = bool(mask & ref.IFMT)
            if q in self.parse_disagree or q in self.tainted:
                pass  # already reported for this request; no differential noise on top
            elif hk in self.handler_seen:
                prev, prev_ifmt = self.handler_seen[hk]
                if prev != norm:
                    n13 = bytes([0x7F, sid, ref.NRC_IMLOIF])
                    if wf and prev_ifmt != ifmt and ((prev_ifmt and prev == n13) or (ifmt and norm == n13)):
                        # 0x13 exactly when the format rule is on: the server took q for unparsable
                        bad(
                            f"C13|incorrect_format|wellformed-request-answered-13|sid={_sidcat(sid)}|sub={q[1] & 0x7F if sid in (ref.DDDI, ref.RDTC, ref.RC) and len(q) > 1 else '*'}|suppress-bit={int(ref.suppressible(q))}",
                            f"well formed request answered incorrectMessageLengthOrInvalidFormat only while default_response_if_incorrect_format is on ({prev.hex()} vs {norm.hex()}): the server could not parse it",
                            with_off=False,
                        )
                        self.parse_disagree.add(q)
                    else:
                        bad(f"C13|differential|handler-answer-depends-on-switches|sid={_sidcat(sid)}", f"handler stage answer {norm.hex()} differs from {prev.hex()} seen under another switch set")
            else:
                self.handler_seen[hk] = (norm, ifmt)
        # state
        want_post = ref.after(pre, q, h)
        if post != want_post:
            comp = [n for n, a, b in zip(("session", "level", "pending-seed"), post, want_post) if a != b]
            bad(
                f"C13|state|{'+'.join(comp)}|sid={_sidcat(sid)}|on={_cls(h)}",
                f"state after answer {h.hex() if h else None}: {post} expected {want_post}",
            )
        return ok


# ---------------------------------------------------------------------------
# execution


def _innermost(e: BaseException) -> str:
    tb = traceback.extract_tb(e.__traceback__)
    for fr in reversed(tb):
        if "/gallia/" in fr.filename:
            return fr.name
    return tb[-1].name if tb else "?"


class Explorer:
    def __init__(self, res: Result, cfg: dict[str, Any], st: tuple[Any, ...], hist: list[Any]) -> None:
        self.res = res
        self.cfg = cfg
        self.hist = hist
        self.ecu = vc.Ecu(cfg)
        self.m = ref.Model(self.ecu.model_dict())
        self.j = Judge(res, cfg, self.m, hist)
        self.reached = True
        self.ecu.play(hist)
        self.pre = self.ecu.abstract()
        self.pre_conc = self.ecu.concrete()
        if self.pre != st:
            self.reached = False
            last = hist[-1][0] if hist else "-"
            res.violate(
                f"C13|history|predicted-state-not-reached|last-event={last}",
                f"history {hist} ends in {self.pre}, the reference predicts {st} (model {cfg['name']})",
                {"cfg": cfg, "hist": [list(e) for e in hist], "request": None, "mask": ref.ALL, "want_state": _ser(st)},
            )
        self.snap = self.ecu.snapshot()
        self.explained: dict[Any, list[tuple[int, ...]]] = {}
        self.cur_mask = ref.ALL
        for f in self.ecu.unknown_state_fields():
            res.uncovered.add(f"state-field:{f}")

    def apply(
        self,
        q: bytes,
        mask: int = ref.ALL,
        gap: float = 1.0,
        entropy: int = 0,
        pre: tuple[Any, ...] | None = None,
        res: Result | None = None,
        explain: bool = True,
    ) -> tuple[bool, bytes | None, tuple[Any, ...]] | None:
        """Apply q in the item's state under `mask`; judge; restore.  Returns (agreed, sent, post)."""
        ecu = self.ecu
        res = res or self.res
        pre = self.pre if pre is None else pre
        res.count("transitions")
        res.count("evaluations")
        label = (lambda base: self.label(q, mask, gap, entropy, pre, base)) if explain else None
        if mask != self.cur_mask:
            ecu.set_mask(mask)
            self.cur_mask = mask
        dirty = True
        try:
            try:
                sent = ecu.request(q, gap=gap, entropy=entropy)
            except Exception as e:  # noqa: BLE001 - any exception out of handle_request is a finding
                base = f"C13|raises|{type(e).__name__}|in={_innermost(e)}|len={min(len(q), 4)}"
                off = "-" if mask == ref.ALL else (label(base) if label else _off(mask))
                res.violate(
                    base + "|off=" + off,
                    f"handle_request raised {e!r} :: " + self.j.where(q, pre, mask),
                    self.j.rp(q, mask, gap=gap, entropy=entropy),
                )
                return None
            post = ecu.abstract()
            post_conc = ecu.concrete()
            h = sent
            if sent is None and mask & ref.SUPP and ref.suppressible(q):
                # what would have been sent?  same state, suppress switch off
                ecu.restore(self.snap)
                ecu.set_mask(mask & ~ref.SUPP)
                res.count("transitions")
                try:
                    h = ecu.request(q, gap=gap, entropy=entropy)
                finally:
                    ecu.set_mask(mask)
                post2 = ecu.abstract()
                if post2 != post:
                    base = f"C13|suppress|state-differs-from-unsuppressed|sid={_sidcat(q[0])}"
                    off = "-" if mask == ref.ALL else (label(base) if label else _off(mask))
                    res.violate(
                        base + "|off=" + off,
                        f"state after suppressed run {post} != after unsuppressed run {post2} :: " + self.j.where(q, pre, mask),
                        self.j.rp(q, mask, gap=gap, entropy=entropy),
                    )
            agreed = self.j.judge(q, pre, h, sent, post, mask, {"gap": gap, "entropy": entropy}, res=res, label=label)
            if post_conc != self.pre_conc:
                if agreed and mask == ref.ALL and gap <= 10.0:
                    res.seen("succ", (self.cfg["name"], post_conc))
            elif gap == 1.0 and h is sent:
                dirty = False  # nothing but the clock moved
            return agreed, sent, post
        finally:
            if self.cur_mask != mask:  # a nested explanatory run changed it
                ecu.set_mask(mask)
                self.cur_mask = mask
            if dirty:
                ecu.restore(self.snap)

    def label(self, q: bytes, mask: int, gap: float, entropy: int, pre: tuple[Any, ...], base: str) -> str:
        """Smallest set (size 0..2) of switched-off behaviours, taken from those off in `mask`, under which the
        same failure (same signature up to the off= part) shows; keeps the signatures of one root cause few."""
        offs = [i for i in range(9) if not mask >> i & 1]
        key = (q, base, gap, entropy)
        for e in self.explained.get(key, []):
            if set(e) <= set(offs):
                return "+".join(ref.SWITCHES[i] for i in e) or "-"

        def fails(cand: list[int]) -> bool:
            mk = ref.ALL
            for i in cand:
                mk &= ~(1 << i)
            if mk == mask:
                return True
            tmp = Result()
            self.ecu.restore(self.snap)  # the outer run has already moved the state
            self.apply(q, mk, gap, entropy, pre, res=tmp, explain=False)
            return any(sg.startswith(base + "|off=") for sg in tmp.notes.get("sig_counts", {}))

        # greedy 1-minimal reduction of the set of switched-off behaviours (<= 9 extra runs)
        cur = list(offs)
        for i in list(offs):
            trial = [x for x in cur if x != i]
            if fails(trial):
                cur = trial
        self.explained.setdefault(key, []).append(tuple(cur))
        return "+".join(ref.SWITCHES[i] for i in cur) or "-"

    def alphabet(self) -> list[bytes]:
        return vc.short_alphabet(self.m, vc.wide(self.cfg)) + vc.structured(self.m) + vc.dynamic(self.m, self.pre)

    def reduced(self) -> list[bytes]:
        """one representative request per (service category, reference decisions under all-on and every single
        switch off, suppress bit, length class)."""
        seen: dict[Any, bytes] = {}
        masks = [ref.ALL] + [ref.ALL & ~(1 << i) for i in range(4)] + [0]
        for q in self.alphabet():
            sid = q[0]
            cat = sid if (sid in self.m.anywhere or sid in ref.FORMAT_SIDS) else -1
            if cat == -1 and sid not in (0x00, 0x3F, 0xBA, 0xFF):
                continue  # SIDs nobody knows behave alike; four of them represent the class
            key = (
                cat,
                tuple(_dk(ref.decide(self.m, self.pre[0], q, mk)) for mk in masks),
                ref.suppressible(q),
                min(len(q), 4),
            )
            if key not in seen:
                seen[key] = q
        return list(seen.values())


def _dk(d: tuple[Any, ...]) -> tuple[Any, ...]:
    if d[0] == "neg":
        return ("neg", d[1])
    if d[0] == "pos":
        return ("pos", d[3])
    if d[0] == "undef":
        return ("undef",)
    return d


def run_full(res: Result, cfg: dict[str, Any], st: tuple[Any, ...], hist: list[Any]) -> None:
    ex = Explorer(res, cfg, st, hist)
    res.count("executions")
    res.seen("states", (cfg["name"], ex.pre_conc))
    res.seen("models", ex.m.dump())
    if not ex.reached:
        return
    recorded: dict[bytes, tuple[bytes | None, tuple[Any, ...]]] = {}
    alpha = ex.alphabet()
    for q in alpha:
        r = ex.apply(q)
        if r is not None:
            recorded[q] = (r[1], r[2])
        # both entropy choices for requests that draw a seed
        if q[0] == ref.SA and len(q) >= 2 and (q[1] & 0x7F) % 2 == 1 and 1 in cfg["entropies"]:
            ex.apply(q, entropy=1)
    res.notes.setdefault("alphabet_sizes", {})[f"{cfg['name']}"] = str(len(alpha))
    # inactivity boundary on the reduced alphabet
    red = ex.reduced()
    for q in red:
        ex.apply(q, gap=10.0)
        ex.apply(q, gap=10.5, pre=ref.INITIAL)
    # re-execution probe: the snapshot/restore shortcut must agree with fresh objects
    for n, q in enumerate(red):
        if q not in recorded or (n % 4 and recorded[q][1] == ex.pre):
            continue  # every 4th request of the reduced alphabet and every one that changed the state
        fresh = vc.Ecu(cfg)
        fresh.play(hist)
        res.count("executions")
        try:
            sent = fresh.request(q)
        except Exception:  # noqa: BLE001 - reported by apply() already
            continue
        if (sent, fresh.abstract()) != recorded[q]:
            res.notes.setdefault("restore_unsound", []).append(f"{cfg['name']} {hist} {q.hex()}")
    why = ex.ecu.intact()
    if why:
        res.notes.setdefault("restore_unsound", []).append(f"{cfg['name']}: {why}")
    if not hist and cfg["name"] in ("three", "default/3"):
        res.sample(
            {
                "model": cfg["name"],
                "state": _ser(ex.pre),
                "requests_applied": len(alpha),
                "examples": [
                    {"request": q.hex(), "reply": (recorded[q][0].hex() if recorded[q][0] else None), "reference": list(_dk(ref.decide(ex.m, ex.pre[0], q)))}  # type: ignore[union-attr]
                    for q in (bytes.fromhex(x) for x in ("00", "10", "1002", "1082", "22f186", "3e80", "8501"))
                    if q in recorded
                ],
            }
        )


def run_subsets(res: Result, cfg: dict[str, Any], st: tuple[Any, ...], hist: list[Any], k: int) -> None:
    ex = Explorer(res, cfg, st, hist)
    res.count("executions")
    if not ex.reached:
        return
    red = ex.reduced()
    per = 512 // SUBSET_SLICES
    if k == "pairs":
        masks = [mk for mk in range(512) if bin(mk ^ ref.ALL).count("1") <= 2] + [0]
    else:
        masks = list(range(k * per, (k + 1) * per))
    # the all-on answers first so that the differential has its base line
    for q in red:
        ex.apply(q, ref.ALL & ~ref.SUPP)
    for mask in masks:
        for q in red:
            ex.apply(q, mask)
        if k != "pairs":
            res.seen("switch_subsets", mask)
    res.notes.setdefault("reduced_alphabet_sizes", {})[f"{cfg['name']}|{_ser(ex.pre)}"] = str(len(red))


def run_item(item: tuple[Any, ...]) -> Result:
    res = Result()
    kind, cfg = item[0], item[1]
    st = _de(item[2])
    hist = [tuple(e) for e in item[3]]
    if kind == "full":
        run_full(res, cfg, st, hist)
    else:
        run_subsets(res, cfg, st, hist, item[4])
    return res


def replay(doc: dict[str, Any]) -> Result:
    vc.load()
    res = Result()
    cfg = doc["cfg"]
    hist = [tuple(e) for e in doc["hist"]]
    ecu = vc.Ecu(cfg)
    print("    model:", ref.Model(ecu.model_dict()).dump())
    for q, r in ecu.play(hist):
        print(f"    history: {q.hex()} -> {r.hex() if r else None}")
    print("    state:", ecu.abstract())
    if doc.get("request") is None:
        want = _de(doc["want_state"])
        if ecu.abstract() != want:
            res.violate("C13|history|predicted-state-not-reached|last-event=" + (hist[-1][0] if hist else "-"), f"reached {ecu.abstract()} expected {want}", doc)
        return res
    ex = Explorer(Result(), cfg, ecu.abstract(), hist)
    ex.res = res
    ex.j.res = res
    q = bytes.fromhex(doc["request"])
    gap = doc.get("gap", 1.0)
    pre = ref.INITIAL if gap > 10.0 else None
    mask = doc.get("mask", ref.ALL)
    if mask != ref.ALL:
        # base line for the differential clause
        for base in (ref.ALL & ~ref.SUPP, ref.ALL, mask ^ ref.IFMT):
            ex.apply(q, base, gap=gap, entropy=doc.get("entropy", 0), pre=pre, res=Result(), explain=False)
    r = ex.apply(q, mask, gap=gap, entropy=doc.get("entropy", 0), pre=pre)
    print(f"    request {q.hex()} mask={mask:09b} gap={gap}: reply {None if r is None else (r[1].hex() if r[1] else None)}; reference {ref.decide(ex.m, (pre or ex.pre)[0], q, mask)}")
    return res


def finish(merged: Result, tier: str) -> dict[str, Any]:
    if merged.notes.get("restore_unsound"):
        raise Broken(f"snapshot/restore shortcut disagrees with re-execution on fresh objects: {merged.notes['restore_unsound'][:3]}")
    states = merged.digests.get("states", set())
    succ = merged.digests.get("succ", set())
    if not succ <= states:
        raise Broken(f"state set is not closed: {len(succ - states)} successor states reached by agreeing transitions were never explored")
    c = merged.counters
    if len(states) < 50 or c.get("transitions", 0) < 100000:
        raise Broken("vacuous: too few states / transitions")
    if len(merged.digests.get("switch_subsets", ())) != 512:
        raise Broken("not all 512 behaviour switch subsets were applied")
    return {
        "bound": {
            "models": len(merged.digests.get("models", ())),
            "payload_lengths": [0, 1, 2],
            "switch_subsets": 512,
            "tier": tier,
        },
        "successor_states_checked_for_closure": len(succ),
    }
