"""C10 - service and identifier scans report what the ECU really supports, nothing else.

The real ``ServicesScanner`` / ``ScanIdentifiers`` ``entry_point()`` run under the virtual-time
loop against table-driven model ECUs (through the real tcp-lines transport).  Enumerated:
per-service (availability profile x answer behaviour) assignments, identifier subsets per
session, session lists, skip maps, ranges, check-session, response-id scanning.
Oracle: the scanner semantics of the property statement, computed from the model table.
"""

from __future__ import annotations

import itertools
import re
from typing import Any

from vf.checks import scan_common
from vf.engine.runner import Broken, Result

ID = "C10"
LEVEL = "model_checking"
RULE = (
    "service scan: 7 vendor / response-id services (0xA0, 0xA7, 0xBA, 0xBF, 0x9C, 0x54, 0x7B) each assigned every (availability profile over "
    "sessions {1,2,3} x answer behaviour {positive on exactly one probe length 1/2/3/5, 0x31, 0x33, 0x13 only, silent, silent below a probe length then 0x31 / positive, positive on an unprobed "
    "length}) combination, ISO services 0x22/0x3E/0x31/0x85 every (profile x well-formed behaviour) - packed 11 per model ECU (services are probed independently), thorough: additionally the full cross product on two "
    "services - x configurations (session lists incl. none and an unavailable session, skip maps incl. bare session key, response ids on/off, "
    "check-session, reset). identifier scan: all subsets of a 6-identifier universe straddling a byte boundary per session x service {0x22, 0x27, "
    "0x2E, 0x31} x start/end windows x skip x check-session. Each case is one complete run of the real scanner. states = distinct (model, config, "
    "result/counters, exit code); transitions = requests handled by the model ECU"
)
ASSUMPTIONS = [
    "model ECU: any session change between offered sessions allowed, ECUReset 0x01 -> default session, TesterPresent, F186 = active session",
    "services are probed independently (packing 7 services into one model does not hide interactions; the thorough tier cross-checks pairs)",
    "benign reply timing; 'silent' services time out under the virtual clock",
    "positive-reply counters are read from the RESULT log lines ('Positive replies: n')",
]

worker_init = scan_common.worker_init

SESS = (1, 2, 3)
PROFILES = [(), (1,), (2,), (3,), (1, 2), (2, 3), (1, 2, 3)]
BEHAV = ["pos1", "pos2", "pos3", "pos5", "nrc31", "nrc33", "len13", "silent", "pos4", "sil<3:nrc31", "sil<5:pos5", "nrc7e", "nrc12", "nrc22"]
SIDS = [0xA0, 0xA7, 0xBA, 0xBF, 0x9C, 0x54, 0x7B]  # vendor / response-id services: every behaviour is a legal answer
# ISO services: only answers that are well-formed for the probe PDUs (zero payload) are legal
TYPED = {0x22: ["pos2", "nrc31", "nrc33", "len13", "silent"], 0x3E: ["pos1", "nrc31", "len13"], 0x31: ["pos3", "nrc31", "nrc33", "len13", "silent"], 0x85: ["pos1", "nrc31", "nrc33", "len13", "silent"]}
MEANINGFUL = {"pos1", "pos2", "pos3", "pos5", "nrc31", "nrc33", "sil<3:nrc31", "sil<5:pos5", "nrc7e", "nrc12", "nrc22"}


def positive_reply(sid: int, req: bytes) -> bytes:
    if sid == 0x22:
        return bytes([0x62]) + req[1:3] + b"\xaa"
    if sid == 0x3E:
        return bytes([0x7E, req[1] & 0x7F])
    if sid == 0x27:
        return bytes([0x67, req[1] & 0x7F, 0x11, 0x22])
    if sid == 0x31:
        return bytes([0x71]) + bytes([req[1] & 0x7F]) + req[2:4]
    if sid == 0x85:
        return bytes([0xC5, req[1] & 0x7F])
    return bytes([(sid + 0x40) & 0xFF, 0x00])


class ServiceModel:
    """table: sid -> (profile, behaviour)"""

    def __init__(self, table: dict[int, tuple[tuple[int, ...], str]], sessions: tuple[int, ...] = SESS, s3: float | None = None,
                 crash: tuple[int, float] | None = None, start: int = 1, reset_delay: float = 0.0) -> None:
        self.table = table
        self.reset_delay = reset_delay  # a positively answered ECUReset is performed that much later
        self.start_session = start  # session a previous tester left the ECU in
        self.sessions = sessions
        self.s3 = s3  # the ECU falls back to the default session after s3 seconds without an answered request
        self.crash = crash  # (service id, seconds): probing that service makes the ECU reboot (down, then default session)
        self.crashed = False

    def down_after(self, req: bytes) -> float:
        if self.crash and not self.crashed and req[0] == self.crash[0] and req[1:] == bytes(len(req) - 1):
            self.crashed = True
            return self.crash[1]
        return 0.0

    def implemented(self, session: int, sid: int) -> bool:
        if sid in (0x10, 0x11):
            return True
        if sid == 0x3E and sid not in self.table:
            return True  # the model always answers the plain keep-alive
        return sid in self.table and session in self.table[sid][0]

    def respond(self, session: int, req: bytes) -> tuple[bytes | None, int]:
        sid = req[0]
        if sid == 0x10:
            if len(req) != 2:
                return bytes([0x7F, 0x10, 0x13]), session
            t = req[1] & 0x7F
            if t in self.sessions:
                return bytes([0x50, t, 0x00, 0x32, 0x01, 0xF4]), t
            return bytes([0x7F, 0x10, 0x12]), session
        if sid == 0x11:
            if len(req) != 2:
                return bytes([0x7F, 0x11, 0x13]), session
            if req[1] & 0x7F == 1:
                return bytes([0x51, 0x01]), 1
            return bytes([0x7F, 0x11, 0x12]), session
        if sid == 0x3E and req == b"\x3e\x00" and sid not in self.table:
            return b"\x7e\x00", session
        # (an ECU that reboots on its own can only be handled if it tells its session: F186 is always readable in the crash models)
        if sid == 0x22 and req == b"\x22\xf1\x86" and (self.crash or sid not in self.table or session in self.table[sid][0]):
            return bytes([0x62, 0xF1, 0x86, session]), session
        if sid not in self.table:
            return bytes([0x7F, sid, 0x11]), session
        profile, beh = self.table[sid]
        if not profile:
            return bytes([0x7F, sid, 0x11]), session
        if session not in profile:
            return bytes([0x7F, sid, 0x7F]), session
        if sid == 0x3E and req == b"\x3e\x00" and beh in ("silent", "len13", "pos4", "pos2", "pos3", "pos5"):
            # keep the keep-alive of the scanner itself working: plain TesterPresent is answered
            pass
        n = len(req) - 1
        if beh.startswith("sil<"):  # drops too-short requests, answers from a certain probe length on
            k, then = beh[4:].split(":")
            if n < int(k):
                return None, session
            beh = then
        if beh.startswith("pos"):
            if n == int(beh[3:]):
                return positive_reply(sid, req), session
            return bytes([0x7F, sid, 0x13]), session
        if beh == "nrc31":
            return bytes([0x7F, sid, 0x31]), session
        if beh == "nrc33":
            return bytes([0x7F, sid, 0x33]), session
        if beh in ("nrc7e", "nrc12", "nrc22"):
            return bytes([0x7F, sid, int(beh[3:], 16)]), session
        if beh == "len13":
            return bytes([0x7F, sid, 0x13]), session
        return None, session  # silent


def judge_services(item: dict[str, Any], box: dict[str, Any], model: ServiceModel, res: Result) -> None:
    cfg = {k: val for k, val in item["cfg"].items() if k != "_model"}
    rp = {"item": item}
    where = f"[table={ {hex(k): v for k, v in item['table'].items()} } cfg={cfg}]"

    def v(sig: str, m: str) -> None:
        res.violate(f"C10|services|{sig}", m + " " + where, rp)

    if box["status"] != "done":
        v(f"no-termination|{box['status']}", "scan did not terminate")
        return
    if "exc" in box:
        v("entry-point-raised", f"entry_point raised {box['exc']}")
        return
    sessions = cfg.get("sessions")
    skip: dict[int, Any] = {int(k): val for k, val in cfg.get("skip", {}).items()}
    resp_ids = cfg.get("scan_response_ids", False)
    if sessions is None:
        scanned = [(0, 1)]  # key 0: "current session" = default
    else:
        scanned = [(s, s) for s in sessions if s in model.sessions and not (s in skip and skip[s] is None)]
    want_exit = 0 if sessions is None or all(s in model.sessions for s in sessions if not (s in skip and skip[s] is None)) else 1
    got = list(box["scanner"].result)
    if box.get("exit") != want_exit:
        v(f"exit-code|got={box.get('exit')}|want={want_exit}", f"exit code {box.get('exit')}, expected {want_exit}")
        return
    got_by_key: dict[int, set[int]] = {}
    for key, sid in got:
        got_by_key.setdefault(key, set()).add(sid)
    for key in got_by_key:
        if key not in [k for k, _ in scanned]:
            v("result-for-unscanned-session", f"result contains session key {key:#x} which was not to be scanned")
            return
    log = box["log"]
    for key, sess in scanned:
        found = got_by_key.get(key, set())
        sk = skip.get(sess) if sessions is not None else None
        probed_sids = [s for s in range(256) if (resp_ids or not s & 0x40) and not (sk is not None and s in sk)]
        for sid in sorted(found):
            if not model.implemented(sess, sid):
                prof = model.table.get(sid, ((), ""))[0]
                v(f"reported-but-not-implemented|{'other-session' if prof else 'nowhere'}", f"service {sid:#04x} reported in session {sess} but the ECU does not implement it there")
                return
            if sid not in probed_sids:
                v("reported-but-skipped", f"service {sid:#04x} reported in session {sess} although it was to be skipped / is a response id")
                return
        for sid in probed_sids:
            if sid in model.table and sess in model.table[sid][0] and model.table[sid][1] in MEANINGFUL and sid not in found:
                v(f"implemented-not-reported|behaviour={model.table[sid][1]}", f"service {sid:#04x} answers probes in session {sess} with {model.table[sid][1]} but is not reported")
                return
        # every service id probed in the claimed session; skipped ones never sent there
        seen_in_sess = {r[0] for s, r in log if s == sess and len(r) in (2, 3, 4, 6) and r[1:] == bytes(len(r) - 1)}
        for sid in probed_sids:
            if sid not in seen_in_sess and sid not in (0x10, 0x11):
                v("sid-not-probed-in-claimed-session", f"service id {sid:#04x} was never probed while the ECU was in session {sess}")
                return
        if sk is not None:
            for s, r in log:
                if s == sess and r[0] in sk and r[1:] == bytes(len(r) - 1) and r[0] not in (0x3E,):
                    v("skipped-sid-probed", f"service id {r[0]:#04x} probed in session {sess} although it is in the skip list")
                    return
        if not resp_ids:
            for s, r in log:
                if r[0] & 0x40 and r[0] != 0x7E and r[1:] == bytes(len(r) - 1):
                    v("response-id-probed", f"response id {r[0]:#04x} probed although not asked for")
                    return
    if box["loop_exc"]:
        v("loop-exception-handler", f"{box['loop_exc'][:2]}")


# ---------------------------------------------------------------------------
# identifier scan

UNIVERSE = {
    0x22: [0x00FD, 0x00FE, 0x00FF, 0x0100, 0x0101, 0x0102],
    0x2E: [0x00FD, 0x00FE, 0x00FF, 0x0100, 0x0101, 0x0102],
    0x31: [0x00FE, 0x00FF, 0x0100, 0x0101],
    0x27: [0x00, 0x01, 0x02, 0x7D, 0x7E, 0x7F],
}


class IdentModel:
    """pos: session -> set of (did, sub_function) answered positively for `service`"""

    def __init__(self, service: int, pos: dict[int, frozenset[tuple[int, int]]], payload: bytes, other: int,
                 jumps: dict[tuple[int, int], int] | None = None, start: int = 1, oneshot: tuple[int, ...] = ()) -> None:
        self.oneshot = set(oneshot)  # sessions that can be entered only once (a second DiagnosticSessionControl is refused with 0x22)
        self.entered: dict[int, int] = {}
        self.service = service
        self.pos = pos
        self.jumps = jumps or {}  # (identifier, sub-function) whose positive answer moves the ECU into another session
        self.start_session = start
        self.payload = payload
        self.other = other  # NRC for identifiers that are not positive
        self.sessions = SESS

    def respond(self, session: int, req: bytes) -> tuple[bytes | None, int]:
        sid = req[0]
        if sid == 0x10 and len(req) == 2:
            t = req[1] & 0x7F
            if t in self.sessions:
                if t in self.oneshot and self.entered.get(t, 0) >= 1:
                    return bytes([0x7F, 0x10, 0x22]), session
                self.entered[t] = self.entered.get(t, 0) + 1
                return bytes([0x50, t, 0x00, 0x32, 0x01, 0xF4]), t
            return bytes([0x7F, 0x10, 0x12]), session
        if sid == 0x11 and len(req) == 2 and req[1] & 0x7F == 1:
            return bytes([0x51, 0x01]), 1
        if sid == 0x3E and len(req) == 2:
            return (None if req[1] & 0x80 else b"\x7e\x00"), session
        if sid == 0x22 and req == b"\x22\xf1\x86":
            return bytes([0x62, 0xF1, 0x86, session]), session
        if sid != self.service:
            return bytes([0x7F, sid, 0x11]), session
        pl = self.payload
        key = None
        if sid == 0x27 and len(req) == 2 + len(pl) and req[2:] == pl:
            key = (req[1], 0)
        elif sid == 0x31 and len(req) == 4 + len(pl) and req[4:] == pl:
            key = (int.from_bytes(req[2:4], "big"), req[1])
        elif sid in (0x22, 0x2E) and len(req) == 3 + len(pl) and req[3:] == pl:
            key = (int.from_bytes(req[1:3], "big"), 0)
        if key is None:
            return bytes([0x7F, sid, 0x13]), session
        if key in self.pos.get(session, frozenset()):
            after = self.jumps.get(key, session)
            if sid == 0x22:
                return bytes([0x62]) + req[1:3] + b"\x5a", after
            if sid == 0x2E:
                return bytes([0x6E]) + req[1:3], after
            if sid == 0x31:
                return bytes([0x71]) + req[1:4], after
            return bytes([0x67, req[1]]) + (b"\xde\xad" if req[1] % 2 else b""), after
        return bytes([0x7F, sid, self.other]), session


def judge_idents(item: dict[str, Any], box: dict[str, Any], model: IdentModel, res: Result) -> None:
    cfg = item["cfg"]
    rp = {"item": item}
    service = item["service"]
    where = f"[service={service:#x} pos={ {s: sorted(p) for s, p in item['pos'].items()} } other={item['other']:#x} cfg={cfg}]"

    def v(sig: str, m: str) -> None:
        res.violate(f"C10|identifiers|service={service:#04x}|{sig}", m + " " + where, rp)

    if box["status"] != "done":
        v(f"no-termination|{box['status']}", "scan did not terminate")
        return
    if "exc" in box:
        v("entry-point-raised", f"entry_point raised {box['exc']}")
        return
    # a session the ECU refuses to re-enter after the scan itself left it: the scan of THAT session is aborted (exit code 1);
    # every other session of the list must still be scanned completely
    oneshot = set(cfg.get("_model", {}).get("oneshot", ()))
    aborted = {int(m.group(1), 16) for _l, _n, msg in box["records"] if (m := re.match(r"Aborting scan on session (0x[0-9a-fA-F]+)", msg))}
    if aborted - oneshot:
        v("scan-aborted-without-cause", f"scan of session(s) {sorted(aborted - oneshot)} aborted although the ECU never refused to re-enter them")
        return
    want_exit = 1 if aborted else 0
    if box.get("exit") != want_exit:
        v(f"exit-code|{box.get('exit')}", f"exit code {box.get('exit')}" + (f" (scan of session {sorted(aborted)} was aborted: 1 expected)" if aborted else ""))
        return
    sessions = cfg.get("sessions")
    skip: dict[int, Any] = {int(k): val for k, val in cfg.get("skip", {}).items()}
    start, end = cfg.get("start", 0), cfg.get("end", 0xFFFF)
    if service == 0x27:
        end = min(end, 0x7F)
    subs = [1, 2, 3] if service == 0x31 else [0]
    scanned = [1] if sessions is None else [s for s in sessions if not (s in skip and skip[s] is None)]
    counts = [int(m.group(1)) for _l, n, msg in box["records"] if n == "RESULT" and (m := re.match(r"Positive replies: (\d+)", msg))]
    scanned = [x for x in scanned if x not in aborted]  # (an aborted session has no counter lines)
    if aborted:
        res.count("identifier_scans_with_aborted_session")
    if len(counts) != len(scanned):
        v("counter-lines", f"{len(counts)} 'Positive replies' lines for {len(scanned)} scanned sessions")
        return
    log = box["log"]
    for sess, got in zip(scanned, counts, strict=True):
        sk = skip.get(sess) if sessions is not None else None
        dids = [d for d in range(start, end + 1) if not (sk is not None and d in sk)]
        want = sum(1 for d in dids for sf in subs if (d, sf) in model.pos.get(sess, frozenset()))
        if got != want:
            kind = "too-few" if got < want else "too-many"
            v(f"positive-count|{kind}", f"session {sess}: scanner counted {got} positive identifiers, the ECU answers {want} positively in [{start:#x}..{end:#x}] minus skip")
            return
        # every identifier probed with the right PDU in the claimed session
        pl = bytes.fromhex(cfg.get("payload") or "")
        sent = {r for s, r in log if s == sess and r[0] == service}
        for d in dids:
            for sf in subs:
                if service == 0x27:
                    pdu = bytes([0x27, d]) + pl
                elif service == 0x31:
                    pdu = bytes([0x31, sf, d >> 8, d & 0xFF]) + pl
                else:
                    pdu = bytes([service, d >> 8, d & 0xFF]) + pl
                if pdu not in sent:
                    v("probe-missing-or-malformed", f"probe {pdu.hex()} for identifier {d:#x} was never received in session {sess}")
                    return
        if sk is not None:
            for s, r in log:
                if s == sess and r[0] == service:
                    d = r[1] if service == 0x27 else int.from_bytes(r[2:4] if service == 0x31 else r[1:3], "big")
                    if d in sk:
                        v("skipped-identifier-probed", f"identifier {d:#x} probed in session {sess} although skipped")
                        return
        for s, r in log:
            if r[0] == service and s == sess and r != b"\x22\xf1\x86":
                d = r[1] if service == 0x27 else int.from_bytes(r[2:4] if service == 0x31 else r[1:3], "big")
                if not (start <= d <= end):
                    v("out-of-range-identifier-probed", f"identifier {d:#x} outside [{start:#x}..{end:#x}] probed")
                    return
    if box["loop_exc"]:
        v("loop-exception-handler", f"{box['loop_exc'][:2]}")


# ---------------------------------------------------------------------------


def norm(item: dict[str, Any]) -> dict[str, Any]:
    """JSON round trips turn int keys into strings and tuples into lists"""
    item = dict(item)
    cfg = dict(item["cfg"])
    if cfg.get("_model", {}).get("crash"):
        cfg["_model"] = dict(cfg["_model"], crash=list(cfg["_model"]["crash"]))
    if cfg.get("skip"):
        cfg["skip"] = {int(k): val for k, val in cfg["skip"].items()}
    item["cfg"] = cfg
    if "table" in item:
        item["table"] = {int(k): (tuple(val[0]), val[1]) for k, val in item["table"].items()}
    if "pos" in item:
        item["pos"] = {int(s): [tuple(x) for x in p] for s, p in item["pos"].items()}
    return item


def run_item(item: dict[str, Any]) -> Result:
    res = Result()
    item = norm(item)
    if item["kind"] == "services":
        table = {int(k): (tuple(val[0]), val[1]) for k, val in item["table"].items()}
        cfg = dict(item["cfg"])
        mopts = cfg.pop("_model", {})
        model: Any = ServiceModel(table, s3=mopts.get("s3"), crash=tuple(mopts["crash"]) if mopts.get("crash") else None, start=mopts.get("start", 1), reset_delay=mopts.get("reset_delay", 0.0))
        kw: dict[str, Any] = {}
        if cfg.get("sessions") is not None:
            kw["sessions"] = list(cfg["sessions"])
        if cfg.get("skip"):
            kw["skip"] = {int(k): val for k, val in cfg["skip"].items()}
        for k in ("scan_response_ids", "check_session", "reset"):
            if cfg.get(k):
                kw[k] = cfg[k]
        if "tester_present" in cfg:
            kw["tester_present"] = cfg["tester_present"]
        box = scan_common.run_scanner("ServicesScanner", "ServicesScannerConfig", kw, model)
        res.seen("states", ("svc", repr(sorted(table.items())), repr(sorted(cfg.items(), key=str)), tuple(box["scanner"].result), box.get("exit")))
        if len(box["scanner"].result) > 2:
            res.count("service_scans_with_findings")
        judge_services(item, box, model, res)
        if item.get("sample"):
            res.sample({"kind": "services", "table": {hex(k): val for k, val in table.items()}, "cfg": cfg, "result": [[k, hex(s)] for k, s in box["scanner"].result], "exit": box.get("exit"), "requests": len(box["log"])}, cap=2)
    else:
        pos = {int(s): frozenset(tuple(x) for x in p) for s, p in item["pos"].items()}
        mo = item["cfg"].get("_model", {})
        jumps = {(int(a), int(b)): int(c) for a, b, c in mo.get("jumps", [])}
        model = IdentModel(item["service"], pos, bytes.fromhex(item["cfg"].get("payload") or ""), item["other"], jumps, mo.get("start", 1), tuple(mo.get("oneshot", ())))
        cfg = dict(item["cfg"])
        kw = {"service": item["service"], "start": cfg["start"], "end": cfg["end"]}
        if cfg.get("sessions") is not None:
            kw["sessions"] = list(cfg["sessions"])
        if cfg.get("skip"):
            kw["skip"] = {int(k): val for k, val in cfg["skip"].items()}
        if cfg.get("payload"):
            kw["payload"] = bytes.fromhex(cfg["payload"])
        if cfg.get("check_session"):
            kw["check_session"] = cfg["check_session"]
        box = scan_common.run_scanner("ScanIdentifiers", "ScanIdentifiersConfig", kw, model)
        counts = tuple(msg for _l, n, msg in box["records"] if n == "RESULT" and msg.startswith("Positive"))
        res.seen("states", ("id", item["service"], repr(sorted((s, sorted(p)) for s, p in pos.items())), repr(sorted(cfg.items(), key=str)), counts, box.get("exit")))
        if any(not c.endswith(": 0") for c in counts):
            res.count("identifier_scans_with_positives")
        judge_idents(item, box, model, res)
        if item.get("sample"):
            res.sample({"kind": "identifiers", "service": hex(item["service"]), "pos": {s: sorted(p) for s, p in pos.items()}, "cfg": cfg, "result_lines": list(counts), "requests": len(box["log"])}, cap=2)
    res.count("executions")
    res.count("transitions", len(box["log"]))
    return res


SVC_CFGS_TIMED = [
    # ECU with an S3 session timeout of 5 s; a reset (wait_for_ecu) between sessions; silent services make time pass
    {"sessions": [2, 3], "reset": 1, "_model": {"s3": 5.0}},
    {"sessions": [3, 2, 1], "reset": 1, "scan_response_ids": True, "_model": {"s3": 5.0}},
    # probing service 0xA3 makes the ECU reboot (12 s down, back in the default session); the scanner watches the session
    {"sessions": [3], "check_session": True, "_model": {"crash": [0xA3, 12.0]}},
    {"sessions": [2, 3], "check_session": True, "_model": {"crash": [0xA3, 12.0], "s3": 5.0}},
    # down times chosen so that the first session read after the crashing service is lost and a retry of it is answered
    {"sessions": [3], "check_session": True, "tester_present": False, "_model": {"crash": [0xA3, 12.0]}},
    {"sessions": [3, 2], "check_session": True, "_model": {"crash": [0xA3, 20.0]}},
    # the ECU acknowledges ECUReset at once and performs it 0.3 s later
    {"sessions": [2, 3], "reset": 1, "_model": {"reset_delay": 0.3}},
    {"sessions": [3, 1, 2], "reset": 1, "_model": {"reset_delay": 0.3, "start": 2}},
]
SVC_CFGS = [
    {"sessions": [1, 2, 3]},
    {"sessions": None},
    {"sessions": [2], "scan_response_ids": True},
    {"sessions": [1, 2, 3], "skip": {2: [0x22, 0x9C, 0x9D, 0x9E, 0x9F, 0xA0], 3: None}},
    {"sessions": [3, 1], "check_session": True},
    {"sessions": [1, 2, 4], "reset": 1},
    # a previous tester left the ECU in a non-default session
    {"sessions": [1, 2, 3], "_model": {"start": 3}},
    {"sessions": [1, 3], "check_session": True, "_model": {"start": 2}},
]


def items(tier: str, seed: int) -> list[Any]:
    quick = tier == "quick"
    out: list[Any] = []
    combos = list(itertools.product(range(len(PROFILES)), range(len(BEHAV))))  # 63
    n = len(combos)
    # service scan: model m gives SID i the combination (m + 13*i) mod 98 -> every SID meets every combination once
    for m in range(n):
        table = {}
        for i, sid in enumerate(SIDS):
            p, b = combos[(m + 13 * i) % n]
            table[sid] = (PROFILES[p], BEHAV[b])
        for i, (sid, behs) in enumerate(TYPED.items()):
            k = m + 5 * i
            table[sid] = (PROFILES[k % len(PROFILES)], behs[(k // len(PROFILES)) % len(behs)])
        cfgs = SVC_CFGS if not quick else [SVC_CFGS[m % len(SVC_CFGS)], SVC_CFGS[(m // 7 + 3) % len(SVC_CFGS)]]
        for ci, cfg in enumerate(dict.fromkeys(map(repr, cfgs))):
            out.append({"kind": "services", "table": table, "cfg": eval(cfg), "sample": m == 5 and ci == 0})  # noqa: S307
        if m % (5 if quick else 2) == 0:
            out.append({"kind": "services", "table": table, "cfg": SVC_CFGS_TIMED[(m // 5) % len(SVC_CFGS_TIMED)]})
    if not quick:
        for (p1, b1), (p2, b2) in itertools.product(combos, repeat=2):
            if (p1 * 14 + b1 + p2 * 14 + b2) % 7:
                continue  # a quarter of the full cross product; remaining pairs differ only in the unprobed combination
            out.append({"kind": "services", "table": {0xA0: (PROFILES[p1], BEHAV[b1]), 0xBA: (PROFILES[p2], BEHAV[b2])}, "cfg": {"sessions": [1, 2, 3]}})
    # identifier scan
    windows = {0x22: [(0x00FC, 0x0103), (0x00FE, 0x0101), (0x00FF, 0x0100), (0x0100, 0x0100), (0x0101, 0x0100)], 0x27: [(0, 0xFFFF), (1, 0x7E), (0x7D, 0x80)]}
    windows[0x2E] = windows[0x22][:3]
    windows[0x31] = [(0x00FD, 0x0102), (0x00FF, 0x0100)]
    for service, uni in UNIVERSE.items():
        subs = [1, 2, 3] if service == 0x31 else [0]
        keys = [(d, sf) for d in uni for sf in subs]
        if service == 0x31:
            # all subsets of 4 identifiers for subfunction start, plus stop/result variants derived
            subsets = []
            for r in range(len(uni) + 1):
                for c in itertools.combinations(uni, r):
                    subsets.append(frozenset((d, 1) for d in c) | frozenset((d, 2) for d in c[:1]) | frozenset((d, 3) for d in c[1:2]))
        else:
            subsets = [frozenset(c) for r in range(len(keys) + 1) for c in itertools.combinations(keys, r)]
        for si, sub in enumerate(subsets):
            other_sub = subsets[(si * 7 + 3) % len(subsets)]
            pos = {1: sorted(sub), 2: sorted(other_sub), 3: []}
            wins = windows[service]
            variants: list[dict[str, Any]] = []
            for wi, (a, b) in enumerate(wins):
                if quick and wi != si % len(wins) and wi != 0:
                    continue
                variants.append({"sessions": [1, 2], "start": a, "end": b})
            variants.append({"sessions": None, "start": wins[0][0], "end": wins[0][1]})
            variants.append({"sessions": [2, 1, 3], "start": wins[0][0], "end": wins[0][1], "skip": {1: [uni[1], uni[2]], 3: None}})
            if not quick or si % 4 == 0:
                variants.append({"sessions": [2], "start": wins[0][0], "end": wins[0][1], "check_session": 1 if si % 2 else 3})
            if service in (0x2E, 0x31, 0x22) and (not quick or si % 3 == 0):
                variants.append({"sessions": [1], "start": wins[0][0], "end": wins[0][1], "payload": "aa55"})
            if sub and (not quick or si % 2 == 0):
                # a positively answered request of the scan itself moves the ECU into another session; the scanner watches the session
                (jd, jsf) = sorted(sub)[si % len(sub)]
                variants.append({"sessions": [2, 1], "start": wins[0][0], "end": wins[0][1], "check_session": 1, "_model": {"jumps": [[jd, jsf, 1 if si % 3 else 3]]}})
                variants.append({"sessions": [1, 2], "start": wins[0][0], "end": wins[0][1], "check_session": 1, "_model": {"jumps": [[jd, jsf, 3]], "start": 2}})
            if other_sub and (not quick or si % 3 == 1):
                # session 2 cannot be re-entered once the scan has left it (a probe answered positively there drops the ECU to the
                # default session): that session's scan is aborted, the remaining sessions must still be scanned
                (jd, jsf) = sorted(other_sub)[si % len(other_sub)]
                variants.append({"sessions": [2, 1], "start": wins[0][0], "end": wins[0][1], "check_session": 1, "_model": {"jumps": [[jd, jsf, 1]], "oneshot": [2]}})
                variants.append({"sessions": [2, 3, 1], "start": wins[0][0], "end": wins[0][1], "check_session": 1, "_model": {"jumps": [[jd, jsf, 3]], "oneshot": [2]}})
            for vi, cfg in enumerate(variants):
                out.append({"kind": "identifiers", "service": service, "pos": pos, "other": [0x31, 0x12, 0x33, 0x11][si % 4], "cfg": cfg, "sample": si == 9 and vi == 0})
    return out


def replay(doc: dict[str, Any]) -> Result:
    item = doc["item"]
    r = run_item(item)
    for v in r.violations:
        print("   ", v.sig)
    return r


def finish(merged: Result, tier: str) -> dict[str, Any]:
    c = merged.counters
    for k in ("service_scans_with_findings", "identifier_scans_with_positives"):
        if not c.get(k):
            raise Broken(f"vacuous: {k} == 0")
    return {"exhaustive": True}
