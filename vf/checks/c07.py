"""C07 - HSFZ: frames are demultiplexed correctly under any segmentation and interleaving (see demux.py)."""

from __future__ import annotations

import itertools
from typing import Any

from vf.checks import demux
from vf.engine.runner import Broken, Result

ID = "C07"
LEVEL = "model_checking"
RULE = (
    "gateway release scripts = all sequences of <= n frames over the HSFZ alphabet (matching ack, ack with wrong pair / wrong echo / "
    "4-byte echo, data for this pair, data for foreign pairs, alive checks with/without body, error control words with/without "
    "address header, short data/ack frames) x non-decreasing release triggers (at connect / after the k-th client write) x client "
    "programs {write;read, read, write;write, write;read;write;read} each followed by draining reads x segmentations {coalesced, "
    "frame-aligned, byte-by-byte, every single split point} x ack timeouts; for each scenario every schedule with <= bound deviations "
    "(data injected while tasks runnable, timer before deliverable data, timer and data in one iteration). states = distinct canonical "
    "(client op results with times, wire bytes with times, frame delivery times); transitions = environment actions fired"
)
ASSUMPTIONS = [
    "TCP stream model: in-order bytes, arbitrary segmentation, delivery only through StreamReaderProtocol.data_received",
    "gateway frames are encoded by an independent encoder (HSFZ header: 4-byte length, 2-byte control word, optional 2-byte address pair)",
    "status control words 0x10/0x11/0x13 and undefined control words (0x0000, 0x00fe; with and without address pair): the statement only fixes error "
    "words, so a run is accepted if it is consistent with reading the word as an error word (connection error + close) or with ignoring it",
    "callbacks run FIFO exactly like asyncio; no early timers (time does not pass while tasks are runnable)",
]

worker_init = demux.worker_init

W1 = "2210f1aabb"
W2 = "3e00"
PROGRAMS = {
    "sr": [("sleep", 0.5), ("read", 1.0)],
    "wr": [("write", W1), ("read", 1.0)],
    "r": [("read", 1.0)],
    "ww": [("write", W1), ("write", W2)],
    "wrwr": [("write", W1), ("read", 1.0), ("write", W2), ("read", 1.0)],
}
ALPHA_FULL = [
    "ack1", "ack2", "data:62f1aa", "data:7f2278", "alive0", "err40", "fdataS:aa", "ack1-echo", "ack1-pair",
    "alive2", "errA43", "errff", "fdataD:bb", "ack1-short", "short-data0", "short-data1", "short-ack1", "ack2-echo", "fdataR:2210f1aabb",
    "undef0000", "undef0010", "undefA0000", "undef00fe",
]
ALPHA_CORE = ["ack1", "ack2", "data:62f1aa", "data:7f2278", "alive0", "err40", "fdataS:aa", "ack1-echo"]


def scripts(alpha: list[str], n: int, nwrites: int) -> Any:
    for names in itertools.product(alpha, repeat=n):
        for trig in itertools.combinations_with_replacement(range(nwrites + 1), n):
            ok = True
            for nm, t in zip(names, trig, strict=True):
                if nm.startswith("ack"):
                    k = int(nm[3])
                    if k > nwrites or t != k:
                        ok = False
                        break
            if ok:
                yield list(zip(names, trig, strict=True))


def stream_len(frames: list[tuple[str, int]], prog: list[tuple[str, Any]]) -> int:
    p = demux.HSFZ()
    writes = [bytes.fromhex(a) for o, a in prog if o == "write"]
    return sum(len(p.frame(n, t, writes).raw) for n, t in frames)


def items(tier: str, seed: int) -> list[Any]:
    quick = tier == "quick"
    out: list[Any] = []
    bound = 1 if quick else 2
    cap = 3000 if quick else 40000

    def add(frames: list[tuple[str, int]], pname: str, seg: Any, ack_ms: int = 1000, b: int = bound) -> None:
        if seg == "bytes":
            b = min(b, 1)  # one choice point per byte: bound 2 would square an already long menu
        out.append(({"proto": "hsfz", "frames": frames, "program": PROGRAMS[pname], "seg": seg, "ack_timeout_ms": ack_ms}, b, cap))

    for pname, nw in (("wr", 1), ("r", 0), ("ww", 2), ("wrwr", 2)):
        for n in range(0, 4):
            if n <= 2:
                alpha = ALPHA_FULL
            else:
                alpha = ALPHA_CORE if (quick or pname in ("ww", "wrwr")) else ALPHA_FULL[:12]
            if quick and n == 3 and pname in ("wrwr", "ww"):
                continue
            for fr in scripts(alpha, n, nw):
                if n == 2 and any(nm.startswith("undef") for nm, _ in fr) and not all(nm.startswith("undef") or nm in ALPHA_CORE for nm, _ in fr):
                    continue  # undefined control words are paired with the core alphabet (and with each other) only
                segs: list[Any] = ["one"] if n == 0 else ["one", "frames"]
                if n and n <= 2 and not (quick and n == 2 and pname in ("ww", "wrwr")):
                    segs.append("bytes")
                for seg in segs:
                    add(fr, pname, seg)
                if n == 1 or (n == 2 and pname in ("wr", "r") and not quick):
                    L = stream_len(fr, PROGRAMS[pname])
                    for k in range(1, L):
                        add(fr, pname, ("at", k), b=0 if quick and n == 2 else bound)
    # gateway traffic spread over time: other frames keep arriving, the ack comes after the ack time / just in time
    for filler in ("fdataS:aa", "ack1-echo", "data:62f1aa", "alive0"):
        for ms in (1000, 250):
            T = ms / 1000
            for times, ack_at in (((0.6,), 1.2), ((0.4, 0.8), 1.3), ((0.6,), 0.9), ((0.5, 0.9), 0.95)):
                fr = [(filler, 1, T * t) for t in times] + [("ack1", 1, T * ack_at), ("data:7f2278", 1, T * ack_at)]
                add(fr, "wr", "frames", ms)
    # the gateway sends frames and closes: what was sent before the close is still delivered, in order
    for pre in ([("data:62f1aa", 0)], [("data:62f1aa", 0), ("data:7f2278", 0)], [("fdataS:aa", 0), ("data:62f1aa", 0)], []):
        for prog in ("sr", "r"):
            for seg in ("one", "frames"):
                add(pre + [("eof", 0)], prog, seg, b=1)
    for pre in ([("ack1", 1), ("data:62f1aa", 1)], [("data:62f1aa", 1), ("ack1", 1)], [("ack1", 1)]):
        for seg in ("one", "frames"):
            add(pre + [("eof", 1)], "wr", seg, b=1)
    # four-step histories on one connection (write, read, write, read) with frames that are skipped during the first ack wait:
    # what was skipped and consumed once must not come back
    for x in ("data:62f1aa", "fdataS:aa", "data:7f2278"):
        for y in (None, "data:62f1aa", "fdataS:aa"):
            for tx in (0, 1):
                fr = [(x, tx), ("ack1", 1), ("ack2", 2)] + ([(y, 2)] if y else [])
                for seg in ("one", "frames"):
                    add(fr, "wrwr", seg, b=1)
    # long histories: many frames pending while the client is idle / between a request and its ack (a bounded or
    # lossy hand-over between the reader task and the consumers only shows beyond its capacity)
    for n in (17, 33, 70, 130) if quick else (9, 17, 33, 65, 70, 129, 130, 300):
        for filler in ("fdataS:aa", "data:62f1aa"):
            add([(filler, 0)] * n + [("alive0", 0)], "sr", "frames", b=0)
            add([(filler, 0)] * n + [("alive0", 0)], "sr", "one", b=1)
            add([(filler, 1)] * n + [("ack1", 1), ("data:7f2278", 1)], "wr", "frames", b=0)
            add([(filler, 1)] * n + [("ack1", 1), ("alive0", 1), ("data:7f2278", 1)], "wr", "one", b=1)
    # ack timeouts
    for ms in (250, 2500):
        for fr in scripts(ALPHA_CORE, 2, 1):
            add(fr, "wr", "one", ms)
    # conformance of the stream model against real loopback sockets / real timers (few: they take real seconds)
    conf = [
        ([("ack1", 1), ("data:62f1aa", 1)], "wr", "one"),
        ([("ack1", 1), ("data:62f1aa", 1)], "wr", "bytes"),
        ([("alive0", 0), ("ack1", 1), ("data:62f1aa", 1)], "wr", "frames"),
        ([("data:62f1aa", 0), ("ack1", 1), ("data:7f2278", 1)], "wr", "one"),
        ([("alive0", 0), ("data:62f1aa", 0)], "r", "frames"),
        ([("err40", 1)], "wr", "one"),
        ([("ack1", 1), ("ack2", 2)], "ww", "frames"),
        ([], "wr", "one"),
    ]
    for fr, pname, seg in conf if not quick else conf[:6]:
        d = {"proto": "hsfz", "frames": fr, "program": PROGRAMS[pname], "seg": seg, "conform": True}
        out.append((d, 0, cap))
    return out


def run_item(work: tuple[Any, ...]) -> Result:
    return demux.run_work(work, ID)


def replay(doc: dict[str, Any]) -> Result:
    return demux.replay_doc(doc, ID)


def finish(merged: Result, tier: str) -> dict[str, Any]:
    c = merged.counters
    for k in ("alive_in_in-write", "alive_in_in-read"):
        if not c.get(k):
            raise Broken(f"vacuous exploration: {k} == 0")
    capped = c.get("capped_items", 0)
    if not c.get("conformance_replays"):
        raise Broken("no conformance replay ran")
    if c.get("conformance_disagreements") and not merged.violations:
        raise Broken(f"stream model disagrees with real sockets: {merged.notes.get('conformance_disagreement_samples', [])[:1]}")
    return {"conformance_replays": c.get("conformance_replays", 0), "exhaustive": capped == 0, "capped_scenarios": capped, "deviation_bound": 1 if tier == "quick" else 2}
