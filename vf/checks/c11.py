"""C11 - every exchange is recorded once, in order and byte-exact, in the scan database.

Engine A.  The real ``ECU`` client with the real ``DBHandler`` (aiosqlite replaced by
vf.engine.dbshim: real sqlite3 file, completion instants owned by the explorer) runs
histories of exchanges on a scripted transport.  Enumerated: (i) every request kind x
its genuine response (codec generators of vf/ref/iso14229.py) x outcome class, (ii) all
sequences up to a length bound over a state-relevant alphabet, x implicit logging on/off
and the ANALYZE tag; the explorer adds database-completion timing deviations and a
cancellation of the run at every iteration boundary, followed by the shutdown path
(complete_run_meta + disconnect).  Rows are read back with plain sqlite3.
"""

from __future__ import annotations

import asyncio
import itertools
import json
import logging
import os
import shutil
import sqlite3
from datetime import UTC, datetime
from pathlib import Path
from typing import Any

from vf.engine import dbshim, seams
from vf.engine.explore import Action, Policy, Run, explore, run_once
from vf.engine.runner import Broken, Result
from vf.ref import iso14229 as T

ID = "C11"
LEVEL = "model_checking"
RULE = (
    "histories: (i) length 1 - every request kind of the ISO table x {its genuine positive reply, negative reply, timeout, mismatching reply, "
    "malformed reply, connection error}; (ii) all sequences of length <= n over {DSC ok/refused, SecurityAccess seed/key, ECUReset, read F186 "
    "(same/other session), plain read, suppressed TesterPresent, timeout, mismatch, malformed, connection error} x implicit logging toggles and "
    "the ANALYZE tag; schedules: database completions delayed / early (<= bound deviations) and one cancellation or failure of the run at every "
    "iteration boundary, then complete_run_meta + disconnect. states = distinct canonical (rows read back, wire log, outcome); transitions = "
    "environment actions fired"
)
ASSUMPTIONS = [
    "aiosqlite is replaced by a FIFO completion shim over a real sqlite3 connection (vf/engine/dbshim.py); datetime.now in gallia.services.uds.ecu follows the virtual clock",
    "scripted transport: one reply / fault per exchange, max_retry 0 (one transmission per exchange) unless stated",
    "an exchange that was in flight when the run was cancelled has its row too (request bytes pinned down, reply / exception / times not); every exchange completed before has a fully checked one",
    "reference client state: positive DSC sets the session and clears security, positive even SecurityAccess sets level type-1, positive ECUReset resets, positive read of F186 sets the session",
]

POLICY = Policy(io_while_ready=True, early_timers=False, timer_before_io=True, timer_with_io=False, max_iterations=50000, max_vtime=5000.0)
G: dict[str, Any] = {}
TMP = Path(f"/dev/shm/vf-c11-{os.getpid()}")
BASE_T = seams.BASE_T


class WarnCapture(logging.Handler):
    def __init__(self) -> None:
        super().__init__(level=logging.WARNING)
        self.msgs: list[str] = []

    def emit(self, record: logging.LogRecord) -> None:
        self.msgs.append(record.getMessage())


WARN = WarnCapture()


def worker_init() -> None:
    import gallia.command  # noqa: F401
    from gallia.db.handler import DBHandler
    from gallia.services.uds.core import service
    from gallia.services.uds.core.client import UDSRequestConfig
    from gallia.services.uds.core.exception import UDSException
    from gallia.services.uds.ecu import ECU
    from gallia.transports.base import BaseTransport, TargetURI

    logging.disable(logging.NOTSET)
    root = logging.getLogger("gallia")
    root.handlers.clear()
    root.propagate = False
    root.setLevel(logging.WARNING)
    root.addHandler(WARN)
    seams.patch_gallia(db=True)

    class ScriptTransport(BaseTransport, scheme="script"):  # type: ignore[misc]
        def __init__(self, st: dict[str, Any]) -> None:
            super().__init__(TargetURI("script://ecu"))
            self.st = st

        @classmethod
        async def connect(cls, target: Any, timeout: float | None = None) -> Any:
            raise NotImplementedError

        async def close(self) -> None:
            pass

        async def reconnect(self, timeout: float | None = None) -> Any:
            return self

        async def write(self, data: bytes, timeout: float | None = None, tags: Any = None) -> int:
            st = self.st
            st["wire"].append((asyncio.get_running_loop().time(), data))
            return len(data)

        async def read(self, timeout: float | None = None, tags: Any = None) -> bytes:
            st = self.st
            i = len(st["wire"]) - 1
            outcome = st["outcomes"][i] if i < len(st["outcomes"]) else ("timeout",)
            await asyncio.sleep(0.01)  # replies take time: send time < receive time
            if outcome[0] == "reply":
                hook = st.get("on_reply")
                if hook is not None:
                    hook(i)
                return outcome[1]
            if outcome[0] == "pending-forever":
                st["pending_polls"] = st.get("pending_polls", 0) + 1
                return bytes([0x7F, st["wire"][i][1][0], 0x78])
            if outcome[0] == "connerr":
                raise ConnectionResetError(104, "reset")
            if outcome[0] == "oserror":  # an error that is neither a timeout nor a ConnectionError
                raise OSError(113, "No route to host")
            await asyncio.sleep(timeout if timeout else 10**6)
            raise TimeoutError

    class Cfg:
        def model_dump_json(self) -> str:
            return "{}"

    G.update(ECU=ECU, DBHandler=DBHandler, service=service, UDSRequestConfig=UDSRequestConfig, UDSException=UDSException,
             ScriptTransport=ScriptTransport, Cfg=Cfg)
    TMP.mkdir(parents=True, exist_ok=True)


# ---------------------------------------------------------------------------
# steps: ("req", request_hex, outcome, tag)   outcome = ("reply", hex) | ("timeout",) | ("connerr",)
#        ("implicit", bool)


def ref_state_update(state: dict[str, Any], req: bytes, reply: bytes | None, accepted: bool) -> None:
    if reply is None or not accepted or reply[0] == 0x7F:
        return
    if reply[0] == 0x50 and len(reply) >= 2:
        state["session"] = reply[1]
        state["security_access_level"] = None
    elif reply[0] == 0x62 and reply[1:3] == b"\xf1\x86" and len(reply) > 3:
        ns = int.from_bytes(reply[3:], "big")
        if ns != state["session"]:
            state["session"] = ns
            state["security_access_level"] = None
    elif reply[0] == 0x67 and len(reply) >= 2 and reply[1] % 2 == 0:
        state["security_access_level"] = reply[1] - 1
    elif reply[0] == 0x51:
        state["session"] = 1
        state["security_access_level"] = None


class Canceller:
    def __init__(self, box: dict[str, Any]) -> None:
        self.box = box

    def actions(self) -> list[Action]:
        b = self.box
        t = b.get("hist_task")
        if b.get("cancelled") or t is None or t.done():
            return []
        if len(b["st"]["wire"]) < b.get("cancel_not_before", 0):
            return []  # (long histories: the cancellation is only placed in the part of interest)

        def mark() -> None:
            b["cancelled"] = len(b["st"]["wire"])  # number of requests on the wire at the time of the cancel
            b["cancel_completed"] = b["completed"]

        return [Action("cancel-run", [t.cancel], pre=mark)]


def build(item: dict[str, Any], box: dict[str, Any]) -> Any:
    steps = item["steps"]

    def scenario(run: Run) -> None:
        WARN.msgs = []
        seams.patch_gallia(db=True)
        worker = dbshim.DbWorker()
        run.add_actor(worker)
        path = TMP / f"db-{os.getpid()}.sqlite"
        for suffix in ("", "-wal", "-shm"):
            try:
                os.unlink(str(path) + suffix)
            except FileNotFoundError:
                pass
        st: dict[str, Any] = {"wire": [], "outcomes": [s[2] for s in steps if s[0] == "req"]}
        st["outcomes"] = [(o[0], bytes.fromhex(o[1])) if o[0] == "reply" else tuple(o) for o in st["outcomes"]]
        box.update(st=st, path=path, completed=0, results=[], worker=worker)
        if item.get("db_fault") is not None:
            # a transient 'database is locked' (e.g. another process reading the file) for the k-th scan_result INSERT
            ks = item["db_fault"] if isinstance(item["db_fault"], list) else [item["db_fault"]]
            for kf in sorted(ks):  # (counted over all INSERT attempts incl. repeats; ascending so that each entry is reached)
                worker.fail_matching.append(("execute:INSERT:scan_result", kf, dbshim.OperationalError("database is locked")))
        for kf in sorted(item.get("commit_fault", ())):
            # 'database is locked' at COMMIT: sqlite keeps the transaction (with the INSERT) open, the commit can be repeated
            worker.fail_matching.append(("commit:execute:INSERT:scan_result", kf, dbshim.OperationalError("database is locked")))
        if item.get("cancel_after_reply") is not None:
            # scripted cancel: requested a few loop iterations after reply number k was handed to the client, i.e. while the client is
            # still busy recording that exchange (or has just gone on to the next one)
            def on_reply(i: int) -> None:
                kc, depth = item["cancel_after_reply"]
                if i != kc or box.get("cancelled") is not None:
                    return

                def fire(d: int) -> None:
                    t = box.get("hist_task")
                    if d > 0:
                        run.loop.call_soon(fire, d - 1)
                    elif t is not None and not t.done():
                        box["cancelled"] = len(st["wire"])
                        box["cancel_completed"] = box["completed"]
                        t.cancel()

                run.loop.call_soon(fire, depth)

            st["on_reply"] = on_reply
        if item.get("stall"):
            worker.stall_on, worker.stall_iterations = "execute:INSERT:scan_result", int(item["stall"])
        box["cancel_not_before"] = item.get("cancel_not_before", 0)
        loop = run.loop
        dbh = G["DBHandler"](path)
        ecu = G["ECU"](G["ScriptTransport"](st), timeout=1.0, max_retry=item.get("max_retry", 0))

        async def history() -> None:
            for s in steps:
                if s[0] == "implicit":
                    ecu.implicit_logging = s[1]
                    continue
                if s[0] == "fail":
                    raise RuntimeError("scanner bug")
                req = G["service"].UDSRequest.parse_dynamic(bytes.fromhex(s[1]))
                cfg = G["UDSRequestConfig"](tags=["ANALYZE"]) if s[3] else None
                try:
                    r = await ecu.request(req, cfg)
                    box["results"].append(("ok", r.pdu))
                except Exception as e:  # noqa: BLE001  (whatever the request ends with must be recorded)
                    box["results"].append(("exc", type(e).__name__))
                box["completed"] += 1

        async def main() -> None:
            await dbh.connect()
            await dbh.insert_run_meta("vf.c11", G["Cfg"](), datetime.fromtimestamp(BASE_T, UTC), None)
            await dbh.insert_scan_run("script://ecu")
            ecu.db_handler = dbh
            box["hist_task"] = loop.create_task(history(), name="history")
            try:
                await box["hist_task"]
            except asyncio.CancelledError:
                box["ended"] = "cancelled"
            except RuntimeError:
                box["ended"] = "failed"
            else:
                box["ended"] = "ok"
            finally:
                # the shutdown path of BaseCommand._db_finish_run_meta
                await dbh.complete_run_meta(datetime.fromtimestamp(BASE_T + loop.time(), UTC), 0, None)
                await dbh.disconnect()

        task = loop.create_task(main(), name="main")
        run.done = task.done
        if item.get("cancel"):
            run.add_actor(Canceller(box))

        def fin() -> None:
            box["status"] = run.status
            box["warnings"] = list(WARN.msgs)
            box["loop_exc"] = [str(c.get("message")) + ":" + repr(c.get("exception")) for c in loop.drain_exc_contexts()]
            box["main_exc"] = repr(task.exception()) if task.done() and not task.cancelled() and task.exception() else None
            rows = []
            if path.exists():
                con = sqlite3.connect(path)
                try:
                    rows = con.execute(
                        "select request_pdu, response_pdu, exception, request_time, response_time, state, log_mode from scan_result order by id"
                    ).fetchall()
                    box["run_meta"] = con.execute("select end_time, exit_code from run_meta").fetchall()
                finally:
                    con.close()
            box["rows"] = rows

        run.finish = fin  # type: ignore[attr-defined]

    return scenario


def accepted_by_client(req: bytes, reply: bytes, result: tuple[str, Any] | None) -> bool:
    """Whether the client accepted the reply as the answer: taken from the observed result class
    (matching itself is the subject of C03); the oracle here is about recording."""
    return result is not None and result[0] == "ok"


def judge(item: dict[str, Any], box: dict[str, Any], choices: list[int], res: Result) -> None:
    steps = item["steps"]
    rp = {"item": item, "choices": choices}

    def short(x: Any) -> str:
        t = str(x)
        return t if len(t) <= 400 else t[:200] + f"...({len(t)} chars)..." + t[-60:]

    def v(sig: str, m: str) -> None:
        res.violate(f"C11|{sig}", short(m) + f" [steps={short(steps)} cancel={item.get('cancel', False)} db_fault={item.get('db_fault')}{' commit_fault=' + str(item['commit_fault']) if item.get('commit_fault') else ''}]", rp)

    if box["status"] != "done":
        v(f"shutdown-hangs|{box['status']}", f"run/shutdown did not finish ({box['status']}); pending db ops: {[p[0] for p in box['worker'].pending]}")
        return
    if box.get("main_exc") and item.get("commit_fault") and "OperationalError" in box["main_exc"]:
        # the connection is shared: under this schedule the injected COMMIT fault hit the harness' own complete_run_meta() call
        res.count("commit_fault_hit_the_shutdown_path")
        return
    if box.get("main_exc"):
        v("shutdown-raised|" + box["main_exc"].split("(")[0], f"shutdown path raised {box['main_exc']}")
        return
    wire = box["st"]["wire"]
    results = box["results"]
    rows = box["rows"]
    # reference rows
    state = {"session": 1, "security_access_level": None}
    implicit = True
    exp: list[dict[str, Any]] = []
    k = 0  # exchange index
    for s in steps:
        if s[0] == "implicit":
            implicit = s[1]
            continue
        if s[0] == "fail":
            break
        if k >= len(wire):
            break
        out = s[2]
        reply = bytes.fromhex(out[1]) if out[0] == "reply" else None
        anyreply = out[0] == "pending-forever"  # the request fails after many responsePending replies: reply column not pinned down
        result = results[k] if k < len(results) else None
        inflight = result is None
        if implicit:
            exp.append(
                {
                    "request": wire[k][1].hex(),
                    "response": reply.hex() if reply is not None else None,
                    "exception": result is not None and result[0] == "exc",
                    "exc_name": result[1] if result is not None and result[0] == "exc" else None,
                    "state": dict(state),
                    "mode": "emphasized" if s[3] else "implicit",
                    "send_t": BASE_T + wire[k][0],
                    "inflight": inflight,
                    "anyreply": anyreply,
                    "kind": T.find("req", wire[k][1]).name if T.find("req", wire[k][1]) else "raw",
                    "outcome": out[0],
                }
            )
        if result is not None and reply is not None:
            ref_state_update(state, wire[k][1], reply, accepted_by_client(wire[k][1], reply, result))
        k += 1
    must = [e for e in exp if not e["inflight"]]
    may = [e for e in exp if e["inflight"]]
    if len(rows) >= len(must) and len(rows) != len(exp):
        # "every request the client puts on the wire - whatever its outcome": also the one in flight when the run was cancelled
        v("row-count|" + ("exchange-in-flight-at-cancel|" if box.get("cancelled") is not None else "") + ("missing" if len(rows) < len(exp) else "extra-rows") + ("|after-commit-fault" if item.get("commit_fault") else ""),
          f"{len(rows)} scan_result rows for {len(exp)} requests on the wire (logging on); the run was cancelled with request #{box.get('cancelled')} in flight, {box.get('cancel_completed')} exchanges were complete")
        return
    if len(rows) < len(must) or len(rows) > len(must) + len(may):
        first_missing = must[len(rows)] if len(rows) < len(must) else None
        what = f"kind={first_missing['kind']}|outcome={first_missing['outcome']}" if first_missing else "extra-rows"
        phase = "after-cancel" if box.get("cancelled") is not None else box.get("ended", "?")
        v(f"row-count|{what}|run={phase}", f"{len(rows)} scan_result rows, expected {len(must)}" + (f"..{len(must) + len(may)}" if may else "") + f"; warnings: {box['warnings'][:2]}")
        return
    for i, (row, e) in enumerate(zip(rows, exp, strict=False)):
        req_pdu, rsp_pdu, exc, t_req, t_rsp, st_json, mode = row
        if e["inflight"]:
            # cancelled exchange: only the request bytes are pinned down
            if req_pdu != e["request"]:
                v("row|request-bytes|inflight", f"row {i}: request_pdu {req_pdu} != wire {e['request']}")
            continue
        tag = f"kind={e['kind']}|outcome={e['outcome']}"
        if req_pdu != e["request"]:
            v(f"row|request-bytes|{tag}", f"row {i}: request_pdu {req_pdu} != wire bytes {e['request']}")
            return
        if rsp_pdu != e["response"] and not e["anyreply"]:
            v(f"row|response-bytes|{tag}", f"row {i}: response_pdu {rsp_pdu} != reply bytes {e['response']}")
            return
        if (exc is not None) != e["exception"]:
            v(f"row|exception-column|{tag}", f"row {i}: exception column {exc!r}, request ended with {'an exception' if e['exception'] else 'a reply'}")
            return
        if exc is not None and e["exc_name"] and e["exc_name"] not in exc:
            v(f"row|exception-class|{tag}", f"row {i}: exception column {exc!r} does not name {e['exc_name']}")
            return
        prev_t = rows[i - 1][3] if i else BASE_T
        if t_req > e["send_t"] + 1e-6 or t_req < prev_t - 1e-6:
            v(f"row|send-time|{tag}", f"row {i}: request_time {t_req} is after the transmission ({e['send_t']}) or before the previous exchange ({prev_t})")
            return
        if rsp_pdu is not None and t_rsp is None:
            v(f"row|receive-time-missing|outcome={e['outcome']}|exception={'yes' if e['exception'] else 'no'}", f"row {i}: reply bytes stored but response_time is NULL ({tag})")
            return
        if t_rsp is not None and t_rsp < t_req:
            v(f"row|send-after-receive|{tag}", f"row {i}: request_time {t_req} > response_time {t_rsp}")
            return
        try:
            st = json.loads(st_json)
        except Exception:  # noqa: BLE001
            st = None
        if st != e["state"]:
            v(f"row|state|{tag}", f"row {i}: state {st} != client state before the request {e['state']}")
            return
        if mode != e["mode"]:
            v(f"row|log-mode|want={e['mode']}", f"row {i}: log_mode {mode}")
            return
    bad = [w for w in box["warnings"] if "Could not log messages to database" in w]
    if bad:
        v("warning|could-not-log", f"warning: {bad[0][:200]}")
    rm = box.get("run_meta")
    if not rm or rm[0][0] is None:
        v("run-meta-not-completed", f"run_meta row {rm}")
    if box["loop_exc"]:
        v("loop-exception-handler", f"{box['loop_exc'][:2]}")


def canon(box: dict[str, Any]) -> Any:
    return (tuple(box["rows"]), tuple(box["st"]["wire"]), box["status"], box.get("ended"), box.get("cancelled"))


class EchoModel:
    """model ECU for the lifecycle scenarios: answers everything positively"""

    def respond(self, session: int, req: bytes) -> tuple[bytes | None, int]:
        if req[0] == 0x3E:
            return (None if req[1] & 0x80 else b"\x7e\x00"), session
        if req[0] == 0x10:
            return bytes([0x50, req[1] & 0x7F, 0, 0x32, 1, 0xF4]), req[1] & 0x7F
        if req[0] == 0x22:
            return bytes([0x62]) + req[1:3] + b"\xaa", session
        if req[0] == 0x11 and len(req) == 2 and not getattr(self, "refuse_reset", False):
            return bytes([0x51, req[1] & 0x7F]), 1
        return bytes([0x7F, req[0], 0x11]), session


def run_lifecycle(item: dict[str, Any], res: Result) -> None:
    """Full UDSScanner lifecycle (real setup/main/teardown, real DBHandler behind the shim): nothing is recorded while
    implicit logging is switched off - also when it was switched off before setup() - and everything else is."""
    import sqlite3

    from vf.checks import scan_common

    if "ProbeScanner" not in scan_common.G:
        scan_common.worker_init()
        from gallia.command import UDSScanner
        from gallia.command.uds import UDSScannerConfig

        class ProbeScanner(UDSScanner):  # type: ignore[misc]
            CONFIG_TYPE = UDSScannerConfig
            SHORT_HELP = "probe"
            PLAN: dict[str, Any] = {}

            def __init__(self, config: Any) -> None:
                super().__init__(config)
                if not self.PLAN["initial"]:
                    self.implicit_logging = False  # as sa_dump_seeds does

            async def main(self) -> None:
                for step in self.PLAN["main"]:
                    if step[0] == "implicit":
                        self.implicit_logging = step[1]
                    else:
                        await self.ecu.read_data_by_identifier(step[1])

        scan_common.G["ProbeScanner"] = ProbeScanner
        scan_common.G["UDSScannerConfig"] = UDSScannerConfig
    scanner_cls = scan_common.G["ProbeScanner"]
    scanner_cls.PLAN = {"initial": item["initial"], "main": item["main"]}
    kw = {"properties": item["properties"], "ping": item["ping"], "tester_present": False}
    model = EchoModel()
    if item.get("ecu_reset"):
        kw["ecu_reset"] = 1  # the optional initial ECUReset of UDSScanner.setup() (accepted, or refused: then the scanner switches sessions and tries again)
        model.refuse_reset = item["ecu_reset"] == "refused"  # type: ignore[attr-defined]
    box = scan_common.run_scanner("ProbeScanner", "UDSScannerConfig", kw, model, db=True, db_opts=item.get("db_opts"))
    res.count("executions")
    res.count("lifecycle_runs")
    if item.get("db_opts"):
        res.count("lifecycle_runs_with_db_faults")
    rp = {"item": item}
    if box["status"] != "done" or box.get("exit") != 0:
        res.violate("C11|lifecycle|run-failed", f"scanner run ended with status {box['status']} exit {box.get('exit')} exc {box.get('exc')} [{item}]", rp)
        return
    con = sqlite3.connect(box["db_path"])
    try:
        rows = [r[0] for r in con.execute("select request_pdu from scan_result order by id").fetchall()]
    finally:
        con.close()
    # expectation: traffic of main while the flag is on; setup/teardown traffic (ping, ...) iff the flag was on from the start
    wire = [r.hex() for _s, r in box["log"]]
    on = item["initial"]
    main_reqs = []
    for step in item["main"]:
        if step[0] == "implicit":
            on = step[1]
        else:
            main_reqs.append((bytes([0x22, step[1] >> 8, step[1] & 0xFF]).hex(), on))
    n_main = len(main_reqs)
    first_main = wire.index(main_reqs[0][0]) if main_reqs else len(wire)
    pre = wire[:first_main]
    post = wire[first_main + n_main :]
    want = (pre if item["initial"] else []) + [q for q, o in main_reqs if o] + (post if on else [])
    res.count("rows_checked", len(rows))
    res.seen("states", ("lifecycle", repr(item), tuple(rows)))
    if rows != want:
        extra = [r for r in rows if r not in want]
        kind = "recorded-while-off" if extra else "missing-rows"
        phase = "setup" if extra and extra[0] in pre and not item["initial"] else "main"
        res.violate(f"C11|lifecycle|{kind}|phase={phase}", f"scan_result holds {rows}, expected {want} (wire {wire}) [{item}]", rp)


def run_concurrent(item: dict[str, Any], bound: int, cap: int | None, res: Result) -> None:
    """Several tasks use the ECU object at the same time (as the tester-present worker and scanner code do): exchanges are
    serialised by the client, and every row must carry the client's state right before ITS transmission."""

    names = item["tasks"]
    box: dict[str, Any] = {}

    def scenario(run: Run) -> None:
        box.clear()
        WARN.msgs = []
        seams.patch_gallia(db=True)
        worker = dbshim.DbWorker()
        run.add_actor(worker)
        path = TMP / f"db-{os.getpid()}.sqlite"
        for suffix in ("", "-wal", "-shm"):
            try:
                os.unlink(str(path) + suffix)
            except FileNotFoundError:
                pass
        st: dict[str, Any] = {"wire": [], "outcomes": []}
        replies = {bytes.fromhex(ALPHA[n][0]): ALPHA[n][1] for n in names}

        class ByRequest(list):  # outcome looked up by the request that was written, not by position
            def __getitem__(self, i: Any) -> Any:
                o = replies[st["wire"][i][1]]
                return (o[0], bytes.fromhex(o[1])) if o[0] == "reply" else tuple(o)

            def __len__(self) -> int:
                return 10**6

        st["outcomes"] = ByRequest()
        box.update(st=st, path=path, results={}, worker=worker)
        loop = run.loop
        dbh = G["DBHandler"](path)
        ecu = G["ECU"](G["ScriptTransport"](st), timeout=1.0, max_retry=0)

        async def one(name: str) -> None:
            req = G["service"].UDSRequest.parse_dynamic(bytes.fromhex(ALPHA[name][0]))
            try:
                r = await ecu.request(req)
                box["results"][name] = ("ok", r.pdu)
            except (G["UDSException"], ConnectionError, TimeoutError) as e:
                box["results"][name] = ("exc", type(e).__name__)

        async def main() -> None:
            await dbh.connect()
            await dbh.insert_run_meta("vf.c11", G["Cfg"](), datetime.fromtimestamp(BASE_T, UTC), None)
            await dbh.insert_scan_run("script://ecu")
            ecu.db_handler = dbh
            tasks = [loop.create_task(one(n), name=n) for n in names]
            try:
                await asyncio.gather(*tasks)
            finally:
                await dbh.complete_run_meta(datetime.fromtimestamp(BASE_T + loop.time(), UTC), 0, None)
                await dbh.disconnect()

        task = loop.create_task(main(), name="main")
        run.done = task.done

        def fin() -> None:
            box["status"] = run.status
            rows = []
            if path.exists():
                con = sqlite3.connect(path)
                try:
                    rows = con.execute("select request_pdu, response_pdu, state from scan_result order by id").fetchall()
                finally:
                    con.close()
            box["rows"] = rows

        run.finish = fin  # type: ignore[attr-defined]

    for run in explore(scenario, bound, POLICY, max_execs=cap):
        res.count("executions")
        res.count("concurrent_runs")
        res.count("transitions", run.n_actions)
        rp = {"item": item, "choices": run.choices()}
        if box["status"] != "done":
            res.violate("C11|concurrent|hang", f"concurrent run did not finish ({box['status']}) [{names}]", rp)
            continue
        wire = [w for _t, w in box["st"]["wire"]]
        by_req = {bytes.fromhex(ALPHA[n][0]): n for n in names}
        state = {"session": 1, "security_access_level": None}
        want = []
        for w in wire:
            n = by_req[w]
            out = ALPHA[n][1]
            reply = bytes.fromhex(out[1]) if out[0] == "reply" else None
            want.append((w.hex(), reply.hex() if reply else None, dict(state)))
            resu = box["results"].get(n)
            if reply is not None:
                ref_state_update(state, w, reply, resu is not None and resu[0] == "ok")
        got = [(r[0], r[1], json.loads(r[2])) for r in box["rows"]]
        res.count("rows_checked", len(got))
        res.seen("states", ("concurrent", tuple(names), tuple(map(str, got))))
        if [g[:2] for g in got] != [w[:2] for w in want]:
            res.violate("C11|concurrent|rows-order-or-bytes", f"rows {[g[:2] for g in got]} != transmissions {[w[:2] for w in want]} [{names}]", rp)
        elif got != want:
            i = next(k for k in range(len(got)) if got[k] != want[k])
            res.violate(
                "C11|concurrent|state-not-the-one-before-transmission",
                f"row {i} ({got[i][0]}): state {got[i][2]}, the client's state right before this transmission was {want[i][2]} (tasks started in order {names})",
                rp,
            )


def run_item(work: tuple[Any, ...]) -> Result:
    item, bound, cap = work
    res = Result()
    if item.get("tasks"):
        run_concurrent(item, bound, cap, res)
        return res
    if item.get("lifecycle"):
        run_lifecycle(item, res)
        return res
    box: dict[str, Any] = {}

    def scenario(run: Run) -> None:
        box.clear()
        build(item, box)(run)

    first = True
    for run in explore(scenario, bound, POLICY, max_execs=cap):
        res.count("executions")
        res.count("transitions", run.n_actions)
        res.count("choice_points", len(run.trace))
        h = res.notes.setdefault("deviation_histogram", {})
        dev = str(getattr(run, "deviations", 0))
        h[dev] = h.get(dev, 0) + 1
        res.seen("states", canon(box))
        res.count("rows_checked", len(box["rows"]))
        if box.get("cancelled") is not None:
            res.count("execs_with_cancel")
            if box["cancelled"] > box.get("cancel_completed", 0):
                res.count("execs_cancelled_mid_exchange")
        if getattr(run, "capped", False):
            res.count("capped_items")
        judge(item, box, run.choices(), res)
        if first:
            first = False
            if len(item["steps"]) == 3 and not item.get("cancel"):
                res.sample({"steps": item["steps"], "rows": [list(r) for r in box["rows"]]}, cap=2)
    return res


# ---------------------------------------------------------------------------
# generators


def kind_pairs(tier: str) -> list[tuple[str, str, str]]:
    """(kind name, request hex, genuine response hex): a few request value sets per kind, each with the first,
    a middle and the last response value set of the table's generator (empty and populated records/groups)"""
    out = []
    seen = set()
    for kind in T.KINDS:
        n = 0
        rsets = list(itertools.islice(T.value_sets(kind, "rsp", "small"), 400))
        picks = [rsets[i] for i in sorted({0, len(rsets) // 3, len(rsets) // 2, len(rsets) - 1})] if rsets else []
        for qv in T.value_sets(kind, "req", "small"):
            try:
                q = T.encode(kind, "req", qv)
            except Exception:  # noqa: BLE001
                continue
            got = False
            for rv in picks:
                try:
                    full = T.genuine_response(kind, qv, rv)
                    r = T.encode(kind, "rsp", full)
                except Exception:  # noqa: BLE001
                    continue
                if (q, r) not in seen:
                    seen.add((q, r))
                    out.append((kind.name, q.hex(), r.hex()))
                got = True
                if tier == "quick" and n:
                    break
            if got:
                n += 1
            if n >= (2 if tier == "quick" else 6):
                break
    return out


ALPHA = {
    "dsc2": ("1002", ("reply", "5002003201f4")),
    "dsc3no": ("1003", ("reply", "7f1022")),
    "seed": ("2701", ("reply", "6701aabb")),
    "key": ("2702cc", ("reply", "6702")),
    "reset": ("1101", ("reply", "5101")),
    "f186=2": ("22f186", ("reply", "62f18602")),
    "f186=1": ("22f186", ("reply", "62f18601")),
    "read": ("221234", ("reply", "621234aa")),
    "tp-sup": ("3e80", ("timeout",)),
    "timeout": ("221234", ("timeout",)),
    "mismatch": ("221234", ("reply", "624321aa")),
    "malformed": ("221234", ("reply", "6212")),
    "connerr": ("221234", ("connerr",)),
    "oserror": ("221234", ("oserror",)),
    "nrc": ("2e1234aa", ("reply", "7f2e31")),
}


def items(tier: str, seed: int) -> list[Any]:
    quick = tier == "quick"
    out: list[Any] = []
    bound = 1 if quick else 2
    cap = 3000 if quick else 30000
    # (i) every kind x outcome class
    for name, q, r in kind_pairs(tier):
        sid = int(q[:2], 16)
        outcomes = [("reply", r), ("reply", f"7f{sid:02x}31"), ("timeout",), ("connerr",)]
        # a reply of another service / a truncated reply
        other = "5001003201f4" if sid != 0x10 else "7e00"
        outcomes += [("reply", other), ("reply", r[:2])]
        for oc in outcomes:
            out.append(({"steps": [("req", q, oc, False)]}, 0, cap))
        out.append(({"steps": [("req", q, ("reply", r), True), ("req", q, ("reply", r), False)], "cancel": True}, 1, cap))
    # long messages (beyond 4095 bytes: DoIP / HSFZ / TCP deliver them)
    for n in (4095, 4096, 5000):
        big = "aa" * n
        out.append(({"steps": [("req", "221234", ("reply", "621234" + big), False)]}, 0, cap))
        out.append(({"steps": [("req", "3601" + big, ("reply", "7601"), True), ("req", "221234", ("reply", "621234" + big), False)]}, 0, cap))
    # (ii) sequences
    names = list(ALPHA)
    L = 3 if quick else 4
    for n in range(1, L + 1):
        alpha = names if n <= 2 else (names[:9] if quick else names)
        for seq in itertools.product(alpha, repeat=n):
            steps = [("req", ALPHA[a][0], ALPHA[a][1], i % 2 == 1) for i, a in enumerate(seq)]
            out.append(({"steps": steps}, 1 if n <= 2 else 0, cap))
            if n <= 2 or (not quick and n == 3):
                out.append(({"steps": steps, "cancel": True}, bound, cap))
    # requests that end with an uncommon exception: OSError that is no ConnectionError, RuntimeError after 120 responsePending
    out.append(({"steps": [("req", "221234", ("oserror",), False), ("req", "221234", ("reply", "621234aa"), True)]}, 0, cap))
    out.append(({"steps": [("req", "221234", ("pending-forever",), False), ("req", "1002", ("reply", "5002003201f4"), False)]}, 0, cap))
    # a transient OperationalError ('database is locked') while the k-th row is written
    for seq in (("read", "dsc2", "read"), ("dsc2", "key", "read"), ("read", "nrc", "timeout", "read")):
        steps = [("req", ALPHA[a][0], ALPHA[a][1], False) for a in seq]
        for k in range(len(seq)):
            out.append(({"steps": steps, "db_fault": k}, bound, cap))
            out.append(({"steps": steps, "db_fault": k, "cancel": True}, 1, cap))
    # a transient error at COMMIT (the INSERT of that row has already been executed)
    for seq in (("read", "dsc2", "read"), ("read", "nrc", "timeout", "read")):
        steps = [("req", ALPHA[a][0], ALPHA[a][1], False) for a in seq]
        for kc in range(len(seq)):
            out.append(({"steps": steps, "commit_fault": [kc]}, 1, cap))
        out.append(({"steps": steps, "commit_fault": [0, 1, 3]}, 0, cap))
    # slow disk: more than a thousand rows wait in the writer queue (nothing may be lost, reordered or block the scan), also
    # when the run is cancelled right after exchange number k (scripted cancel; these long runs are executed on the benign schedule)
    many = [("req", "22%04x" % (0x1000 + i), ("reply", "62%04xaa" % (0x1000 + i)), False) for i in range(1045)]
    out.append(({"steps": many, "stall": 12000}, 0, cap))
    # rows with and without the ANALYZE tag while the writer is behind: the order of the rows is still the order on the wire
    tagged = [("req", "22%04x" % (0x2000 + i), ("reply", "62%04xbb" % (0x2000 + i)), i >= 10 and i % 3 == 1) for i in range(24)]  # (the first ten rows are ordinary ones: they pile up behind the stalled writer)
    out.append(({"steps": tagged, "stall": 400}, 1, cap))
    out.append(({"steps": tagged, "stall": 400, "cancel": True, "cancel_not_before": 20}, 1, cap))
    for kc in (999, 1000, 1001, 1002, 1015, 1024, 1025, 1026, 1027, 1040):
        for depth in (1, 2, 3, 5):
            out.append(({"steps": many, "stall": 12000, "cancel_after_reply": [kc, depth]}, 0, cap))
    # many transient errors over one run: every row's first attempt fails / one row fails many times in a row / both
    long_seq = ("read", "dsc2", "read", "nrc", "key", "read", "timeout", "read", "dsc2", "read")
    steps = [("req", ALPHA[a][0], ALPHA[a][1], False) for a in long_seq]
    for ks in ([2 * i for i in range(len(long_seq))], list(range(12)), [0, 1, 2, 5, 6, 7, 8, 9, 12, 15, 18], [3 * i for i in range(9)]):
        out.append(({"steps": steps, "db_fault": ks}, 1, cap))
        out.append(({"steps": steps, "db_fault": ks, "cancel": True}, 0 if quick else 1, cap))
    # concurrent users of the ECU object (distinct requests so that rows can be attributed)
    conc = ["dsc2", "key", "reset", "read", "f186=2", "nrc"]
    for trio in itertools.permutations(conc, 3):
        if len({ALPHA[n][0] for n in trio}) == 3:
            out.append(({"tasks": list(trio), "steps": []}, 1, cap))
    # full scanner lifecycle with the flag set before setup()
    for initial, props, ping in itertools.product((True, False), repeat=3):
        for main in (
            [("req", 0x1234)],
            [("req", 0x1234), ("implicit", True), ("req", 0x1235)],
            [("implicit", True), ("req", 0x1234), ("implicit", False), ("req", 0x1235)],
            [("implicit", False), ("req", 0x1234), ("req", 0x1235), ("implicit", True), ("req", 0x1236)],
        ):
            out.append(({"lifecycle": True, "initial": initial, "properties": props, "ping": ping, "main": main, "steps": []}, 0, cap))
            for er in ("accepted", "refused"):
                out.append(({"lifecycle": True, "initial": initial, "properties": props, "ping": ping, "main": main, "steps": [], "ecu_reset": er}, 0, cap))
            if initial and ping:
                # slow disk (rows pile up in the writer queue during main) and a transient error in the final run_meta update / in the
                # writes of teardown: entry_point() must still leave a database that holds every row
                for fail in ([["execute:UPDATE", 0]], [["commit:execute:UPDATE", 0]], [["execute:UPDATE", 0], ["execute:UPDATE", 1]], []):
                    out.append(({"lifecycle": True, "initial": initial, "properties": props, "ping": ping, "main": main, "steps": [],
                                 "db_opts": {"stall_on": "execute:INSERT:scan_result", "stall_iterations": 300, "fail": fail}}, 0, cap))
    # implicit logging toggles, failing run
    for seq in itertools.product(["dsc2", "read", "timeout", "mismatch"], repeat=2):
        a, b = seq
        sa = ("req", ALPHA[a][0], ALPHA[a][1], False)
        sb = ("req", ALPHA[b][0], ALPHA[b][1], True)
        out.append(({"steps": [("implicit", False), sa, ("implicit", True), sb]}, 1, cap))
        out.append(({"steps": [sa, ("implicit", False), sb, ("implicit", True), sa]}, 0, cap))
        out.append(({"steps": [sa, sb, ("fail",), sa]}, 1, cap))
    return out


def replay(doc: dict[str, Any]) -> Result:
    item = doc["item"]
    if item.get("tasks"):
        res = Result()
        run_concurrent(item, 0, None, res)
        return res
    if item.get("lifecycle"):
        item["main"] = [tuple(x) for x in item["main"]]
        res = Result()
        run_lifecycle(item, res)
        return res
    item["steps"] = [tuple(tuple(x) if isinstance(x, list) else x for x in s) for s in item["steps"]]
    res = Result()
    box: dict[str, Any] = {}
    run = run_once(build(item, box), list(doc["choices"]), POLICY)
    for c in run.trace:
        if c.chosen:
            print(f"    t={c.t}: deviation {c.labels[c.chosen]} (menu {c.labels})")
    print("    wire:", [(t, d.hex()) for t, d in box["st"]["wire"]])
    print("    results:", box["results"], "ended:", box.get("ended"), "status:", box["status"])
    for r in box["rows"]:
        print("    row:", r)
    print("    warnings:", box["warnings"])
    judge(item, box, run.choices(), res)
    return res


def finish(merged: Result, tier: str) -> dict[str, Any]:
    c = merged.counters
    shutil.rmtree(TMP, ignore_errors=True)
    shutil.rmtree(f"/dev/shm/vf-scan-{os.getpid()}", ignore_errors=True)
    for k in ("execs_with_cancel", "execs_cancelled_mid_exchange", "rows_checked", "lifecycle_runs"):
        if not c.get(k):
            raise Broken(f"vacuous: {k} == 0")
    capped = c.get("capped_items", 0)
    return {"exhaustive": capped == 0, "capped_scenarios": capped, "deviation_bound": 1 if tier == "quick" else 2}
