"""Shared harness for C06 (DoIP) and C07 (HSFZ): demultiplexing under any segmentation and interleaving.

The real transport (``DoIPTransport`` / ``HSFZTransport``) is connected through
the patched ``asyncio.open_connection`` to a fake stream.  The gateway is a
*release script*: a sequence of frames (independently encoded here, not with
gallia's pack functions), each released into the TCP stream after the client
has written its k-th diagnostic message (k = 0: right after connect /
activation).  The explorer owns when released bytes reach the client relative
to the client's progress and timers; the segmentation of each release group is
a scenario parameter.

Oracle: an ideal in-order demultiplexer that walks the observed client
operations and, using the virtual times at which each gateway frame was
completely delivered, decides which outcomes are admissible for each operation.
"""

from __future__ import annotations

import asyncio
import copy
import dataclasses
import struct
from dataclasses import dataclass, field
from typing import Any

from vf.engine.explore import Policy, Run, explore, run_once
from vf.engine.netsim import Net, Peer
from vf.engine.runner import Result

T_ACT = 2.0  # routing activation response time

POLICY = Policy(io_while_ready=True, early_timers=False, timer_before_io=True, timer_with_io=True, max_iterations=6000, max_vtime=600.0)

G: dict[str, Any] = {}


def worker_init() -> None:
    import logging

    import gallia.command  # noqa: F401
    from gallia.transports.doip import DoIPTransport
    from gallia.transports.hsfz import HSFZTransport

    logging.disable(logging.CRITICAL)
    G.update(doip=DoIPTransport, hsfz=HSFZTransport)


# ---------------------------------------------------------------------------
# frames


@dataclass
class Frame:
    kind: str  # ack / nack / data / alive / err / drop / keep / actresp
    raw: bytes
    trigger: int  # released after the client's k-th diagnostic write (0 = at connect)
    mine: bool = False  # data: addressed ecu -> tester; ack/nack: matches write `for_write`
    for_write: int = 0
    payload: bytes = b""
    code: int = 0
    t_done: float | None = None  # filled in from the run
    name: str = ""
    echo: bytes = b""  # ack/nack: echoed previous message data
    delay: float = 0.0  # released this many (virtual) seconds after its trigger


class HSFZ:
    """Independent HSFZ encoder / wire parser (layout from the property statement and BMW HSFZ docs)."""

    name = "hsfz"
    TESTER = 0xF4
    ECU = 0x10
    OTHER = 0x22
    ALIVE_LIMIT = 0.0

    def __init__(self, ack_timeout_ms: int = 1000) -> None:
        self.ack_timeout = ack_timeout_ms / 1000
        self.uri = f"hsfz://192.0.2.1:6801?src_addr={self.TESTER:#x}&dst_addr={self.ECU:#x}&ack_timeout={ack_timeout_ms}"

    @staticmethod
    def hdr(length: int, cword: int) -> bytes:
        return struct.pack("!IH", length, cword)

    def frame(self, name: str, trigger: int, writes: list[bytes]) -> Frame:
        T, E, O = self.TESTER, self.ECU, self.OTHER
        if name.startswith("ack"):
            k = int(name[3])
            d = writes[k - 1][:5] if 0 < k <= len(writes) else b"\x00"
            variant = name[4:]
            if variant == "":
                return Frame("ack", self.hdr(2 + len(d), 2) + bytes([T, E]) + d, trigger, True, k, name=name, echo=d)
            if variant == "-pair":  # address pair the wrong way round
                return Frame("keep", self.hdr(2 + len(d), 2) + bytes([E, T]) + d, trigger, name=name)
            if variant == "-echo":  # echo differs in the last echoed byte
                dd = d[:-1] + bytes([d[-1] ^ 0xFF])
                return Frame("keep", self.hdr(2 + len(dd), 2) + bytes([T, E]) + dd, trigger, name=name)
            if variant == "-short":  # echoes only 4 bytes of a >=5 byte request
                dd = d[:4]
                kind = "keep" if len(writes[k - 1]) >= 5 else "ack"
                return Frame(kind, self.hdr(2 + len(dd), 2) + bytes([T, E]) + dd, trigger, kind == "ack", k, name=name, echo=dd)
        if name.startswith("data"):
            pl = bytes.fromhex(name.split(":")[1])
            return Frame("data", self.hdr(2 + len(pl), 1) + bytes([E, T]) + pl, trigger, True, payload=pl, name=name)
        if name.startswith("fdata"):  # foreign pair
            pl = bytes.fromhex(name.split(":")[1])
            who = name.split(":")[0]
            pair = bytes([O, T]) if who == "fdataS" else bytes([T, E]) if who == "fdataR" else bytes([E, O])
            return Frame("keep", self.hdr(2 + len(pl), 1) + pair + pl, trigger, payload=pl, name=name)
        if name == "alive0":
            return Frame("alive", self.hdr(0, 0x12), trigger, name=name)
        if name == "alive2":
            return Frame("alive", self.hdr(2, 0x12) + bytes([0x00, E]), trigger, name=name)
        if name == "eof":  # the gateway closes the connection (everything sent before it is still part of the stream)
            return Frame("eof", b"", trigger, name=name)
        if name.startswith("undefA"):  # a control word that is neither data/ack/alive nor a listed error word, with address pair
            cw = int(name[6:], 16)
            return Frame("undef", self.hdr(2, cw) + bytes([E, T]), trigger, code=cw, name=name)
        if name.startswith("undef"):
            cw = int(name[5:], 16)
            return Frame("undef", self.hdr(0, cw), trigger, code=cw, name=name)
        if name.startswith("errA"):
            cw = int(name[4:], 16)
            return Frame("err", self.hdr(2, cw) + bytes([E, T]), trigger, code=cw, name=name)
        if name.startswith("err"):
            cw = int(name[3:], 16)
            return Frame("err", self.hdr(0, cw), trigger, code=cw, name=name)
        if name == "short-data0":
            return Frame("drop", self.hdr(0, 1), trigger, name=name)
        if name == "short-data1":
            return Frame("drop", self.hdr(1, 1) + b"\x55", trigger, name=name)
        if name == "short-ack1":
            return Frame("drop", self.hdr(1, 2) + b"\x55", trigger, name=name)
        raise KeyError(name)

    def parse_wire(self, wire: bytes) -> list[tuple[str, Any]]:
        out: list[tuple[str, Any]] = []
        i = 0
        while i < len(wire):
            if len(wire) - i < 6:
                out.append(("garbage", wire[i:]))
                break
            ln, cw = struct.unpack("!IH", wire[i : i + 6])
            body = wire[i + 6 : i + 6 + ln]
            i += 6 + ln
            if cw == 1 and ln >= 2 and body[0] == self.TESTER and body[1] == self.ECU:
                out.append(("diag", body[2:]))
            elif cw == 0x12:
                out.append(("alive", body))
            else:
                out.append(("other", (cw, body)))
        return out

    def alive_ok(self, body: bytes) -> bool:
        return body == bytes([0x00, self.TESTER])

    @staticmethod
    def echo_matches(data: bytes, echo: bytes) -> bool:
        return echo == data[:5]

    def connect_frames(self) -> list[Frame]:
        return []

    def check_connect_wire(self, items: list[tuple[str, Any]]) -> tuple[list[tuple[str, Any]], str | None]:
        return items, None


class DoIP:
    name = "doip"
    TESTER = 0x0E00
    ECU = 0x1D
    OTHER = 0x2222
    ALIVE_LIMIT = 0.5
    ack_timeout = 2.0

    def __init__(self, version: int = 3, act_type: int = 0, act_code: int = 0x10) -> None:
        self.version = version
        self.act_type = act_type
        self.act_code = act_code
        self.uri = (
            f"doip://192.0.2.1:13400?src_addr={self.TESTER:#x}&target_addr={self.ECU:#x}"
            f"&activation_type={act_type:#x}&protocol_version={version}"
        )

    def hdr(self, ptype: int, length: int, version: int | None = None) -> bytes:
        v = self.version if version is None else version
        return struct.pack("!BBHL", v, v ^ 0xFF, ptype, length)

    def frame(self, name: str, trigger: int, writes: list[bytes]) -> Frame:
        T, E, O = self.TESTER, self.ECU, self.OTHER
        if name.startswith("ack") or name.startswith("nack"):
            neg = name.startswith("nack")
            rest = name[4:] if neg else name[3:]
            k = int(rest[0])
            variant = rest[1:]
            d = writes[k - 1] if 0 < k <= len(writes) else b"\x00"
            ptype = 0x8003 if neg else 0x8002
            code = 0
            if neg:
                code = int(variant.split(":")[1], 16) if ":" in variant else 0x03
                variant = variant.split(":")[0]
            if variant == "":
                body = struct.pack("!HHB", E, T, code) + d
                return Frame("nack" if neg else "ack", self.hdr(ptype, len(body)) + body, trigger, True, k, code=code, name=name, echo=d)
            if variant == "-noecho":  # previous-message data is optional
                body = struct.pack("!HHB", E, T, code)
                return Frame("nack" if neg else "ack", self.hdr(ptype, len(body)) + body, trigger, True, k, code=code, name=name)
            if variant == "-prefix":  # echoes only the first byte
                body = struct.pack("!HHB", E, T, code) + d[:1]
                return Frame("nack" if neg else "ack", self.hdr(ptype, len(body)) + body, trigger, True, k, code=code, name=name, echo=d[:1])
            if variant == "-addr":  # wrong address pair
                body = struct.pack("!HHB", T, E, code) + d
                return Frame("keep", self.hdr(ptype, len(body)) + body, trigger, name=name)
            if variant == "-other":  # ack of another ecu
                body = struct.pack("!HHB", O, T, code) + d
                return Frame("keep", self.hdr(ptype, len(body)) + body, trigger, name=name)
            if variant == "-echo":  # other previous data
                dd = bytes([d[0] ^ 0xFF]) + d[1:]
                body = struct.pack("!HHB", E, T, code) + dd
                return Frame("keep", self.hdr(ptype, len(body)) + body, trigger, name=name)
        if name.startswith("data"):
            pl = bytes.fromhex(name.split(":")[1])
            body = struct.pack("!HH", E, T) + pl
            return Frame("data", self.hdr(0x8001, len(body)) + body, trigger, True, payload=pl, name=name)
        if name.startswith("fdata"):
            pl = bytes.fromhex(name.split(":")[1])
            who = name.split(":")[0]
            pair = struct.pack("!HH", O, T) if who == "fdataS" else struct.pack("!HH", T, E) if who == "fdataR" else struct.pack("!HH", E, O)
            body = pair + pl
            return Frame("keep", self.hdr(0x8001, len(body)) + body, trigger, payload=pl, name=name)
        if name == "eof":
            return Frame("eof", b"", trigger, name=name)
        if name == "alive":
            return Frame("alive", self.hdr(0x0007, 0), trigger, name=name)
        if name == "unknown":
            return Frame("drop", self.hdr(0x4002, 3) + b"\x00\x01\x01", trigger, name=name)
        if name == "hdrnack":
            return Frame("keep", self.hdr(0x0000, 1) + b"\x01", trigger, name=name)
        if name == "actresp":
            body = struct.pack("!HHBI", T, E, 0x10, 0)
            return Frame("keep", self.hdr(0x0006, len(body)) + body, trigger, name=name)
        raise KeyError(name)

    def parse_wire(self, wire: bytes) -> list[tuple[str, Any]]:
        out: list[tuple[str, Any]] = []
        i = 0
        while i < len(wire):
            if len(wire) - i < 8:
                out.append(("garbage", wire[i:]))
                break
            v, iv, pt, ln = struct.unpack("!BBHL", wire[i : i + 8])
            body = wire[i + 8 : i + 8 + ln]
            raw = wire[i : i + 8 + ln]
            i += 8 + ln
            if v != self.version or iv != (v ^ 0xFF):
                out.append(("badversion", raw))
            elif pt == 0x8001 and body[:4] == struct.pack("!HH", self.TESTER, self.ECU):
                out.append(("diag", body[4:]))
            elif pt == 0x0008:
                out.append(("alive", body))
            elif pt == 0x0005:
                out.append(("activation", raw))
            else:
                out.append(("other", raw))
        return out

    def alive_ok(self, body: bytes) -> bool:
        return body == struct.pack("!H", self.TESTER)

    @staticmethod
    def echo_matches(data: bytes, echo: bytes) -> bool:
        return data.startswith(echo)

    def connect_frames(self) -> list[Frame]:
        body = struct.pack("!HHBI", self.TESTER, self.ECU, self.act_code, 0)
        return [Frame("actresp", self.hdr(0x0006, len(body)) + body, 0, name="activation-response")]

    def expected_activation(self) -> bytes:
        return self.hdr(0x0005, 7) + struct.pack("!HBI", self.TESTER, self.act_type, 0)

    def check_connect_wire(self, items: list[tuple[str, Any]]) -> tuple[list[tuple[str, Any]], str | None]:
        if not items or items[0][0] != "activation":
            return items, "first frame on the wire is not a routing activation request"
        if items[0][1] != self.expected_activation():
            return items[1:], f"activation request {items[0][1].hex()} != {self.expected_activation().hex()}"
        return items[1:], None


# ---------------------------------------------------------------------------
# gateway peer


class Gateway(Peer):
    def __init__(self, proto: Any, frames: list[Frame], seg: Any, n_connect_frames: int) -> None:
        self.proto = proto
        self.frames = frames
        self.seg = seg
        self.rx = bytearray()
        self.n_diag = 0
        self.released = -1
        self.pos = 0  # stream offset of bytes handed to conn.out so far
        self.n_connect_frames = n_connect_frames
        self.activated = n_connect_frames == 0

    def on_connect(self) -> None:
        if self.activated:
            self.release(0)

    def _emit(self, group: list[Frame]) -> None:
        if any(f.kind == "eof" for f in group):
            k = next(i for i, f in enumerate(group) if f.kind == "eof")
            if group[:k]:
                self._emit(group[:k])
            self.send_eof()  # frames listed after the eof are never sent
            return
        blob = b"".join(f.raw for f in group)
        cuts = seg_cuts(self.seg, group, self.pos)
        self.send(blob, cuts)
        off = self.pos
        for f in group:
            f.start = off  # type: ignore[attr-defined]
            off += len(f.raw)
            f.end = off  # type: ignore[attr-defined]
        self.pos = off

    def release(self, k: int) -> None:
        if k <= self.released:
            return
        for kk in range(self.released + 1, k + 1):
            group = [f for f in self.frames if f.trigger == kk]
            now = [f for f in group if f.delay <= 0]
            if now:
                self._emit(now)
            # frames with a delay follow later (stream order = time order); the explorer still owns their delivery
            for d in sorted({f.delay for f in group if f.delay > 0}):
                late = [f for f in group if f.delay == d]
                self.conn.loop.call_later(d, self._emit, late)
        self.released = k

    def on_data(self, data: bytes) -> None:
        self.rx += data
        items = self.proto.parse_wire(bytes(self.rx))
        if not self.activated:
            if any(i[0] == "activation" for i in items):
                self.activated = True
                self.release(0)
        n = sum(1 for i in items if i[0] == "diag")
        if n > self.n_diag:
            self.n_diag = n
            self.release(n)


def seg_cuts(seg: Any, group: list[Frame], base: int) -> list[int]:
    """cut offsets relative to the group's blob"""
    total = sum(len(f.raw) for f in group)
    if seg == "one":
        return []
    if seg == "frames":
        cuts, off = [], 0
        for f in group[:-1]:
            off += len(f.raw)
            cuts.append(off)
        return cuts
    if seg == "bytes":
        return list(range(1, total))
    if isinstance(seg, tuple) and seg[0] == "at":  # absolute stream offsets
        return [c - base for c in seg[1:] if base < c < base + total]
    raise KeyError(seg)


# ---------------------------------------------------------------------------
# scenario


@dataclass
class Obs:
    status: str = ""
    ops: list[tuple[Any, ...]] = field(default_factory=list)  # (op, arg, t_start, t_end, outcome...)
    wire: list[tuple[float, bytes]] = field(default_factory=list)
    frames: list[Frame] = field(default_factory=list)
    connect: tuple[Any, ...] = ()
    client_closed_at: float | None = None
    exc_contexts: int = 0
    leftover: Any = None


def build(item: dict[str, Any], box: dict[str, Any]) -> Any:
    proto = make_proto(item)
    writes = [bytes.fromhex(a) for op, a in item["program"] if op == "write"]
    frames = proto.connect_frames() + [mkframe(proto, spec, writes) for spec in item["frames"]]
    ncf = len(proto.connect_frames())

    def scenario(run: Run) -> None:
        gw = Gateway(proto, frames, item.get("seg", "one"), ncf)
        net = Net(run, lambda n: gw if n == 0 else None)
        net.install()
        box.update(net=net, gw=gw, frames=frames, proto=proto)
        obs = Obs(frames=frames)
        box["obs"] = obs
        loop = run.loop

        async def drv() -> None:
            t0 = loop.time()
            try:
                tr = await G[proto.name].connect(proto.uri)
            except BaseException as e:  # noqa: BLE001
                obs.connect = ("exc", type(e).__name__, isinstance(e, ConnectionError), t0, loop.time())
                return
            obs.connect = ("ok", t0, loop.time())
            box["tr"] = tr
            prog = list(item["program"])
            bgs: list[Any] = []
            consecutive_to = 0
            i = 0
            while True:
                if i < len(prog):
                    op, arg = prog[i]
                else:
                    op, arg = "read", item.get("drain_timeout", 1.0)
                    if consecutive_to >= item.get("drain_n", 3):
                        break
                i += 1
                ts = loop.time()
                try:
                    if op == "bgread":
                        # a second task of the client blocks in read() while the program goes on (recorded as a read when it ends)
                        async def bg(arg: float = arg, ts: float = ts) -> None:
                            try:
                                d = await tr.read(timeout=arg)
                                obs.ops.append(("read", arg, ts, loop.time(), "ok", d))
                            except TimeoutError:
                                obs.ops.append(("read", arg, ts, loop.time(), "timeout"))
                            except OSError as e:
                                obs.ops.append(("read", arg, ts, loop.time(), "connerr" if isinstance(e, ConnectionError) else "oserror", type(e).__name__))
                            except Exception as e:  # noqa: BLE001
                                obs.ops.append(("read", arg, ts, loop.time(), "other", type(e).__name__ + ":" + str(e)[:60]))

                        bgs.append(loop.create_task(bg(), name="bgread"))
                        await asyncio.sleep(0)  # let it reach its read
                        continue
                    if op == "join":
                        for b in bgs:
                            await b
                        continue
                    if op == "sleep":
                        await asyncio.sleep(arg)  # the client is idle: nobody reads, nobody writes
                        obs.ops.append((op, arg, ts, loop.time(), "ok"))
                    elif op == "write":
                        await tr.write(bytes.fromhex(arg))
                        obs.ops.append((op, arg, ts, loop.time(), "ok"))
                    else:
                        d = await tr.read(timeout=arg)
                        obs.ops.append((op, arg, ts, loop.time(), "ok", d))
                        consecutive_to = 0
                except TimeoutError:
                    obs.ops.append((op, arg, ts, loop.time(), "timeout"))
                    if i > len(prog):
                        consecutive_to += 1
                except OSError as e:
                    obs.ops.append((op, arg, ts, loop.time(), "connerr" if isinstance(e, ConnectionError) else "oserror", type(e).__name__))
                    if i > len(prog):
                        break
                except Exception as e:  # noqa: BLE001
                    obs.ops.append((op, arg, ts, loop.time(), "other", type(e).__name__ + ":" + str(e)[:60]))
                    if i > len(prog):
                        break

        task = loop.create_task(drv(), name="driver")
        box["task"] = task
        run.done = task.done

        def fin() -> None:
            obs.status = run.status
            c = net.conns[0] if net.conns else None
            if c is not None:
                obs.wire = list(c.wire)
                obs.client_closed_at = c.client_closed_at
                # completion time of each frame = delivery time of the segment holding its last byte
                off = 0
                marks: list[tuple[int, float]] = []
                for t, seg in c.delivered:
                    if isinstance(seg, bytes):
                        off += len(seg)
                        marks.append((off, t))
                for f in frames:
                    if f.kind == "eof":
                        f.t_done = next((t for t, seg in c.delivered if not isinstance(seg, bytes)), None)
                        continue
                    end = getattr(f, "end", None)
                    if end is None:
                        continue
                    for o, t in marks:
                        if o >= end:
                            f.t_done = t
                            break
            obs.exc_contexts = len(run.loop.drain_exc_contexts())
            net.uninstall()

        run.finish = fin  # type: ignore[attr-defined]

    return scenario


def mkframe(proto: Any, spec: Any, writes: list[bytes]) -> Frame:
    f = proto.frame(spec[0], spec[1], writes)
    if len(spec) > 2:
        f.delay = float(spec[2])
    return f


def make_proto(item: dict[str, Any]) -> Any:
    if item["proto"] == "hsfz":
        return HSFZ(item.get("ack_timeout_ms", 1000))
    return DoIP(item.get("version", 3), item.get("act_type", 0), item.get("act_code", 0x10))


# ---------------------------------------------------------------------------
# oracle


def judge(item: dict[str, Any], obs: Obs, choices: list[int], res: Result, pid: str) -> None:
    """Frames of kind ``undef`` (control words the statement does not classify) may be treated like an error word
    (connection error + close) or be dropped; the run must be consistent with one of the two readings."""
    if not any(f.kind == "undef" for f in obs.frames):
        _judge1(item, obs, choices, res, pid)
        return
    first: Result | None = None
    for reading in ("err", "drop"):
        tmp = Result()
        o2 = copy.copy(obs)
        o2.frames = [dataclasses.replace(f, kind=reading) if f.kind == "undef" else f for f in obs.frames]
        _judge1(item, o2, choices, tmp, pid)
        if not tmp.violations:
            res.count(f"undefined_word_read_as_{reading}")
            return
        first = first or tmp
    assert first is not None
    for viol in first.violations:
        res.violate(viol.sig + "|undefined-control-word", viol.msg + " (neither reading of the undefined control word - error word / ignored - explains the run)", viol.replay)


def _judge1(item: dict[str, Any], obs: Obs, choices: list[int], res: Result, pid: str) -> None:
    proto = make_proto(item)
    rp = {"item": item, "choices": choices}
    P = proto.name

    def v(sig: str, msg: str) -> None:
        res.violate(f"{pid}|{sig}", msg + f" [frames={item['frames']} program={item['program']} seg={item.get('seg')}]", rp)

    if obs.status != "done":
        v(f"hang|{obs.status}", f"driver did not finish: {obs.status}; ops so far {obs.ops}")
        return
    wire_items = proto.parse_wire(b"".join(d for _, d in obs.wire))
    wire_items, err = proto.check_connect_wire(wire_items)
    if err:
        v("activation-request", err)
    # connect: usable iff the gateway answered with the success code within the activation response time
    act = [f for f in obs.frames if f.kind == "actresp"]
    want_ok = item.get("expect_connect", True)
    if act:
        a = act[0]
        t0c = obs.connect[3] if obs.connect and obs.connect[0] == "exc" else (obs.connect[1] if obs.connect else 0.0)
        if a.t_done is None or a.t_done > t0c + T_ACT:
            want: set[bool] = {False}
        elif a.t_done == t0c + T_ACT:
            want = {False, want_ok}
        else:
            want = {want_ok}
    else:
        want = {want_ok}
    got_ok = bool(obs.connect) and obs.connect[0] == "ok"
    if got_ok not in want:
        if got_ok:
            v("connect-succeeded", "connect succeeded although the gateway did not answer with the success code (in time)")
        else:
            v(f"connect-failed|{obs.connect[1] if obs.connect else None}", f"connect raised {obs.connect} although the gateway answered with the success code at t={act[0].t_done if act else None}")
        return
    if not got_ok:
        if obs.connect and not obs.connect[2]:
            v(f"connect-error-type|{obs.connect[1]}", f"refused/unanswered activation surfaced as {obs.connect[1]}, not a ConnectionError")
        if obs.connect and obs.connect[4] > obs.connect[3] + T_ACT + 1e-9:
            v("connect-overdue", f"connect failed only at t={obs.connect[4]}")
        return

    T = proto.ack_timeout
    diag_times: list[float] = []
    for tw, chunk in obs.wire:
        try:
            if any(k == "diag" for k, _ in proto.parse_wire(chunk)):
                diag_times.append(tw)
        except Exception:  # noqa: BLE001  (a chunk that is no whole frame: judged by the wire clauses below)
            pass
    frames = [f for f in obs.frames if f.kind != "actresp"]
    consumed: set[int] = set()
    closed = False
    nwrite = 0
    got_data: list[bytes] = []
    for op in obs.ops:
        kind, arg, ts, te, outcome = op[0], op[1], op[2], op[3], op[4]
        if kind == "sleep":
            continue
        if closed:
            if outcome in ("ok", "timeout"):
                v(f"op-after-close|{kind}|{outcome}", f"{kind} on a connection the client had closed ended with {outcome}")
                return
            continue
        if kind == "write":
            nwrite += 1
            # the acknowledgement time runs from the moment the message is on the wire (a write may first have to wait for another
            # task of the client that is blocked in a read: the connection serialises its users)
            if nwrite <= len(diag_times) and diag_times[nwrite - 1] > ts:
                ts = diag_times[nwrite - 1]
            deadline = ts + T
        else:
            deadline = ts + arg
        decisive = None
        for idx, f in enumerate(frames):
            if idx in consumed:
                continue
            if f.kind in ("err", "eof"):
                decisive = idx
                break
            if kind == "write" and f.kind in ("ack", "nack") and f.mine and proto.echo_matches(bytes.fromhex(arg), f.echo):
                decisive = idx
                break
            if kind == "read" and f.kind == "data" and f.mine:
                decisive = idx
                break
        f = frames[decisive] if decisive is not None else None
        in_time = f is not None and f.t_done is not None and f.t_done < deadline
        boundary = f is not None and f.t_done is not None and f.t_done == deadline
        # outcomes on deadline
        if kind == "write":
            late = {"connerr"}
        else:
            late = {"timeout"}
        if f is None or f.t_done is None or (not in_time and not boundary):
            admissible = late
            expect_t = deadline
        else:
            if f.kind == "eof":
                good = "connerr"  # (what exactly a lost connection ends an operation with is C08's subject)
                late = late | {"timeout"}
            elif f.kind == "err":
                good = "connerr"
            elif f.kind == "ack":
                good = "ok"
            elif f.kind == "nack":
                good = "ok" if f.code == 0x06 else "connerr"
            else:
                good = "ok"
            admissible = {good} | (late if boundary or f.kind == "eof" else set())
            expect_t = max(ts, f.t_done)
        where = f"{kind}#{nwrite if kind == 'write' else len(got_data) + 1}"
        fname = f.name.split(":")[0] if f is not None else "none"
        if outcome not in admissible:
            gone = any(x.kind == "eof" and x.t_done is not None and x.t_done <= te for x in frames)
            v(
                f"{kind}|decisive={fname}|{'in-time' if in_time else ('boundary' if boundary else 'late-or-missing')}|got={outcome}" + ("|gateway-had-closed" if gone and fname != "eof" else ""),
                f"{where} started t={ts} ended t={te} with {op[4:]}; admissible {sorted(admissible)}; decisive frame {f.name if f else None} delivered at {f.t_done if f else None}, deadline {deadline}",
            )
            return
        if te > deadline + 1e-9:
            v(f"{kind}|overdue", f"{where} ended at t={te} after its deadline {deadline}")
            return
        if outcome in ("ok", "connerr") and f is not None and (in_time or (boundary and outcome not in late)) and te > expect_t + 1e-9:
            # the decisive frame was there, the operation finished later than that
            if te - expect_t > 1e-9 and kind == "read":
                v(f"{kind}|slow", f"{where}: frame {f.name} delivered at {f.t_done} but the operation returned at {te}")
                return
        # state update following the observed outcome
        if outcome == "ok" and kind == "read":
            data = op[5]
            if f is None or f.kind != "data" or data != f.payload:
                v(f"read|wrong-data|decisive={fname}", f"{where} returned {data.hex()} but the next diagnostic message in the stream is {f.payload.hex() if f else None}")
                return
            got_data.append(data)
            consumed.add(decisive)  # type: ignore[arg-type]
        elif outcome == "ok" and kind == "write":
            if f is not None and f.kind in ("ack", "nack"):
                consumed.add(decisive)  # type: ignore[arg-type]
        elif outcome == "connerr":
            if f is not None and f.kind == "eof" and (in_time or boundary):
                consumed.add(decisive)  # type: ignore[arg-type]
                closed = True
            elif f is not None and f.kind == "err" and (in_time or boundary):
                consumed.add(decisive)  # type: ignore[arg-type]
                closed = True
                if in_time and P == "hsfz" and (obs.client_closed_at is None or obs.client_closed_at > te + 1e-9):
                    v(f"{kind}|decisive={fname}|connection-not-closed", f"{where}: error control word {f.name} surfaced as a connection error at t={te} but the client did not close the connection (closed at {obs.client_closed_at})")
                    return
            elif f is not None and f.kind == "nack" and in_time:
                consumed.add(decisive)  # type: ignore[arg-type]
            elif f is not None and f.kind == "nack" and boundary and not (obs.client_closed_at is not None and obs.client_closed_at <= te):
                consumed.add(decisive)  # type: ignore[arg-type]
            elif kind == "write":
                closed = True  # ack timeout closes the connection
    # the wire: diag messages exactly the program's writes, alive responses, nothing else
    diag = [d for k, d in wire_items if k == "diag"]
    wrote = [bytes.fromhex(a) for o, a in item["program"] if o == "write"]
    if diag != wrote[: len(diag)] or len(diag) < sum(1 for o in obs.ops if o[0] == "write" and o[4] == "ok"):
        v("wire|diag-mismatch", f"diagnostic messages on the wire {[d.hex() for d in diag]} != written {[d.hex() for d in wrote]}")
    other = [x for x in wire_items if x[0] not in ("diag", "alive")]
    if other:
        v(f"wire|unexpected-frame|{other[0][0]}", f"unexpected client frame on the wire: {other[0]}")
    # alive checks
    alive_req = [f for f in frames if f.kind == "alive" and f.t_done is not None]
    alive_rsp: list[tuple[float, bytes]] = []
    # timestamps of alive responses: walk the wire log
    buf = b""
    tstamps: list[tuple[int, float]] = []
    for t, d in obs.wire:
        buf += d
        tstamps.append((len(buf), t))
    off = 0
    allitems = proto.parse_wire(buf)
    # recompute offsets by re-parsing lengths
    pos = 0
    for k, body in allitems:
        if P == "hsfz":
            ln = struct.unpack("!I", buf[pos : pos + 4])[0] + 6
        else:
            ln = struct.unpack("!L", buf[pos + 4 : pos + 8])[0] + 8
        pos += ln
        if k == "alive":
            t = next(tt for o, tt in tstamps if o >= pos)
            alive_rsp.append((t, body))
    _ = off
    for _t, body in alive_rsp:
        if not proto.alive_ok(body):
            v("alive|wrong-response-bytes", f"alive check response body {body.hex()}")
            break
    end_t = obs.ops[-1][3] if obs.ops else 0.0
    ri = 0
    for f in alive_req:
        ta = f.t_done
        assert ta is not None
        cc = obs.client_closed_at
        if cc is not None and cc <= ta + proto.ALIVE_LIMIT:
            continue  # connection was (legitimately or not - judged above) closed by the client in the meantime
        if ri < len(alive_rsp):
            tr_, _b = alive_rsp[ri]
            ri += 1
            if tr_ > ta + proto.ALIVE_LIMIT + 1e-9:
                phase = client_phase(obs, ta)
                v(f"alive|late|phase={phase}", f"alive check delivered at t={ta} answered at t={tr_} (limit {proto.ALIVE_LIMIT}s), client was {phase}")
                break
        else:
            if end_t >= ta + proto.ALIVE_LIMIT:
                phase = client_phase(obs, ta)
                v(f"alive|unanswered|phase={phase}", f"alive check delivered at t={ta} never answered (run ended t={end_t}), client was {phase}")
                break
    if ri < len(alive_rsp) and len(alive_rsp) > len(alive_req):
        v("alive|spurious-response", f"{len(alive_rsp)} alive responses for {len(alive_req)} requests")
    if obs.exc_contexts:
        v("loop-exception-handler", f"{obs.exc_contexts} exceptions reached the loop exception handler (task died / never retrieved)")


def client_phase(obs: Obs, t: float) -> str:
    for op in obs.ops:
        if op[2] <= t <= op[3]:
            return "in-" + op[0]
    return "idle"


def canon(obs: Obs) -> Any:
    return (
        tuple(obs.ops),
        tuple(obs.wire),
        tuple((f.name, f.t_done) for f in obs.frames),
        obs.status,
        obs.connect[:2],
    )


def run_work(work: tuple[Any, ...], pid: str) -> Result:
    item, bound, cap = work
    res = Result()
    if item.get("conform"):
        conform(item, res)
        return res
    box: dict[str, Any] = {}

    def scenario(run: Run) -> None:
        box.clear()
        build(item, box)(run)

    first = True
    for run in explore(scenario, bound, POLICY, max_execs=cap):
        obs: Obs = box["obs"]
        res.count("executions")
        res.count("transitions", run.n_actions)
        res.count("choice_points", len(run.trace))
        dev = str(getattr(run, "deviations", 0))
        h = res.notes.setdefault("deviation_histogram", {})
        h[dev] = h.get(dev, 0) + 1
        res.seen("states", canon(obs))
        for f in obs.frames:
            if f.kind == "alive" and f.t_done is not None:
                k = "alive_in_" + client_phase(obs, f.t_done)
                res.count(k)
        if getattr(run, "capped", False):
            res.count("capped_items")
        judge(item, obs, run.choices(), res, pid)
        if first:
            first = False
            res.sample(
                {
                    "scenario": item,
                    "choices": run.choices(),
                    "ops": [list(o[:5]) + ([o[5].hex()] if len(o) > 5 and isinstance(o[5], bytes) else list(o[5:])) for o in obs.ops],
                    "wire": [[t, d.hex()] for t, d in obs.wire],
                    "frames_delivered_at": [[f.name, f.t_done] for f in obs.frames],
                },
                cap=2,
            )
    return res


def conform(item: dict[str, Any], res: Result) -> None:
    """Environment-model conformance: the scenario under the benign virtual schedule and on a real loopback TCP
    connection (real event loop, real timeouts) must give the same operation outcomes and wire frames."""
    from vf.engine.realnet import run_real

    box: dict[str, Any] = {}
    run_once(build(item, box), [], POLICY)
    vobs: Obs = box["obs"]
    virt: list[Any] = [(o[0], o[4], o[5] if len(o) > 5 and isinstance(o[5], bytes) else None) for o in vobs.ops]
    if vobs.connect and vobs.connect[0] != "ok":
        virt = [("connect", "exc:" + vobs.connect[1], None)]
    vwire = make_proto(item).parse_wire(b"".join(d for _, d in vobs.wire))

    proto = make_proto(item)
    writes = [bytes.fromhex(a) for op, a in item["program"] if op == "write"]
    frames = proto.connect_frames() + [mkframe(proto, spec, writes) for spec in item["frames"]]
    gw = Gateway(proto, frames, item.get("seg", "one"), len(proto.connect_frames()))

    async def client(host: str, port: int) -> list[Any]:
        uri = proto.uri.replace("192.0.2.1:6801", f"{host}:{port}").replace("192.0.2.1:13400", f"{host}:{port}")
        ops: list[Any] = []
        try:
            tr = await G[proto.name].connect(uri)
        except BaseException as e:  # noqa: BLE001
            return [("connect", "exc:" + type(e).__name__, None)]
        prog = list(item["program"])
        i = 0
        consecutive = 0
        while True:
            if i < len(prog):
                op, arg = prog[i]
            else:
                op, arg = "read", item.get("drain_timeout", 1.0)
                if consecutive >= item.get("drain_n", 3):
                    break
            i += 1
            try:
                if op == "write":
                    await tr.write(bytes.fromhex(arg))
                    ops.append((op, "ok", None))
                else:
                    d = await tr.read(timeout=arg)
                    ops.append((op, "ok", d))
                    consecutive = 0
            except TimeoutError:
                ops.append((op, "timeout", None))
                if i > len(prog):
                    consecutive += 1
            except OSError as e:
                ops.append((op, "connerr" if isinstance(e, ConnectionError) else "oserror", None))
                if i > len(prog):
                    break
        try:
            await tr.close()
        except Exception:  # noqa: BLE001
            pass
        return ops

    try:
        real, conns = run_real(lambda n: gw if n == 0 else None, client, gap=0.02, timeout=60.0)
    except Exception as e:  # noqa: BLE001  (only a seeded/real defect can get here; finish() decides)
        real, conns = [("harness", "exc:" + type(e).__name__, None)], []
    rwire = proto.parse_wire(bytes(conns[0].wire)) if conns else []
    res.count("conformance_replays")
    res.count("executions")
    if real != virt or rwire != vwire:
        # not a verdict about gallia: reported as BROKEN by finish() unless the exploration itself found violations
        # (a seeded defect may well behave differently on kernel-chosen segment boundaries)
        res.count("conformance_disagreements")
        res.notes.setdefault("conformance_disagreement_samples", []).append(f"{item}: virtual {virt} / {vwire} real {real} / {rwire}"[:600])


def replay_doc(doc: dict[str, Any], pid: str) -> Result:
    item = doc["item"]
    item["frames"] = [tuple(x) for x in item["frames"]]
    item["program"] = [tuple(x) for x in item["program"]]
    if isinstance(item.get("seg"), list):
        item["seg"] = tuple(item["seg"])
    res = Result()
    box: dict[str, Any] = {}
    run = run_once(build(item, box), list(doc["choices"]), POLICY)
    obs: Obs = box["obs"]
    for c in run.trace:
        if c.chosen:
            print(f"    t={c.t}: deviation {c.labels[c.chosen]} (menu {c.labels})")
    print("    connect:", obs.connect)
    for o in obs.ops:
        print("    op:", o)
    for t, d in obs.wire:
        print(f"    wire t={t}: {d.hex()}")
    for f in obs.frames:
        print(f"    gateway frame {f.name} ({f.kind}) trigger={f.trigger} delivered at {f.t_done}: {f.raw.hex()}")
    judge(item, obs, run.choices(), res, pid)
    return res
