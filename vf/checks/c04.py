"""C04 - one client request ends with the outcome its reply/fault sequence implies.

Engine A (vloop).  The transport is a script: every ``read`` consumes the next
event letter, so a complete execution is determined by (script, tail, config);
all scripts up to a length bound are enumerated and each one is run on the real
``UDSClient.request`` under virtual time.  The oracle is a reference retry
machine written from the property statement.
"""

from __future__ import annotations

import asyncio
import itertools
import math
from typing import Any

from vf.engine.explore import Policy, Run, run_once
from vf.engine.runner import Result

ID = "C04"
LEVEL = "model_checking"
RULE = (
    "all event scripts over {T timeout, C conn-error at read, W conn-error at write, E empty read, B busy, "
    "P pending, M mismatch, F malformed, N negative final, R positive final} up to the tier's length, "
    "followed by a tail (silence | endless P | endless PT | endless B | endless R), x max_retry 0..3 x "
    "{client defaults, per-request override} x reconnect ok/failing; plus long pending/timeout runs around "
    "the 120-reply and the silence limits. states = distinct (config, consumed event prefix, outcome) "
    "triples observed; transitions = transport calls (write/read/reconnect) executed by the real client"
)
ASSUMPTIONS = [
    "transport behaviour is fully described by the event script (read returns/raises per letter)",
    "virtual clock: asyncio.sleep/timeouts cost no real time; callbacks run FIFO exactly like asyncio",
    "points the statement leaves open are admitted as sets: busy inside a pending phase (returned as final "
    "reply), exception type of the pending-overflow error, raw ConnectionError when the reconnect itself fails",
]

REQ_PDU = bytes.fromhex("221234")
REPLY = {
    "R": bytes.fromhex("621234aa"),
    "N": bytes.fromhex("7f2231"),
    "B": bytes.fromhex("7f2221"),
    "P": bytes.fromhex("7f2278"),
    "M": bytes.fromhex("624321aa"),
    "F": bytes.fromhex("6212"),
}
LETTERS = "TCWEBPMFNR"
TAILS = {"": "", "P*": "P", "PT*": "PT", "B*": "B", "R*": "R", "PTT*": "PTT"}

MAX_N_PENDING = 120  # documented constant ("currently 120 replies")
POLL = 0.5


def _imports() -> Any:
    import gallia.command  # noqa: F401  (import order: avoids circular import)
    from gallia.services.uds.core import service
    from gallia.services.uds.core.client import UDSClient, UDSRequestConfig
    from gallia.services.uds.core.exception import (
        MalformedResponse,
        MissingResponse,
        RequestResponseMismatch,
    )
    from gallia.transports.base import BaseTransport, TargetURI

    return locals()


G: dict[str, Any] = {}


def worker_init() -> None:
    import logging

    G.update(_imports())
    logging.disable(logging.CRITICAL)

    class ScriptTransport(G["BaseTransport"], scheme="script"):  # type: ignore[misc]
        def __init__(self, st: dict[str, Any]) -> None:
            super().__init__(G["TargetURI"]("script://x"))
            self.st = st
            self.gen = st.setdefault("gen", 0)  # reconnect() returns a new instance; the old one is dead afterwards

        def _alive(self, what: str) -> None:
            if self.gen != self.st["gen"]:
                self.st["log"].append((what + "@stale", asyncio.get_running_loop().time()))
                self.st["stale_ops"] = self.st.get("stale_ops", 0) + 1
                raise BrokenPipeError(32, "transport instance was replaced by reconnect()")

        @classmethod
        async def connect(cls, target: Any, timeout: float | None = None) -> Any:
            raise NotImplementedError

        async def close(self) -> None:
            self.st["log"].append(("close", asyncio.get_running_loop().time()))

        async def reconnect(self, timeout: float | None = None) -> Any:
            st = self.st
            st["log"].append(("reconnect", asyncio.get_running_loop().time()))
            await asyncio.sleep(0)
            if st["reconnect_fails"]:
                raise ConnectionRefusedError(111, "refused")
            st["gen"] += 1
            return ScriptTransport(st)

        def _next(self) -> str:
            st = self.st
            i = st["pos"]
            st["pos"] += 1
            if i < len(st["script"]):
                return st["script"][i]
            tail = st["tail"]
            if not tail:
                return "T"
            return tail[(i - len(st["script"])) % len(tail)]

        async def write(self, data: bytes, timeout: float | None = None, tags: Any = None) -> int:
            self._alive("write")
            st = self.st
            now = asyncio.get_running_loop().time()
            # a W event is consumed by the write that it breaks
            i = st["pos"]
            ev = st["script"][i] if i < len(st["script"]) else None
            if ev == "W":
                st["pos"] += 1
                st["consumed"].append("W")
                st["log"].append(("write!", now, data))
                raise BrokenPipeError(32, "broken pipe")
            st["log"].append(("write", now, data))
            return len(data)

        async def read(self, timeout: float | None = None, tags: Any = None) -> bytes:
            self._alive("read")
            st = self.st
            now = asyncio.get_running_loop().time()
            ev = self._next()
            while ev == "W":  # W only acts on writes; as a read event it is skipped
                ev = self._next()
            st["consumed"].append(ev)
            st["log"].append(("read", now, timeout, ev))
            if ev == "T":
                if timeout is None:
                    await asyncio.sleep(10**9)
                await asyncio.sleep(timeout)
                raise TimeoutError
            if ev == "C":
                raise ConnectionResetError(104, "reset")
            if ev == "E":
                return b""
            return REPLY[ev]

    G["ScriptTransport"] = ScriptTransport


# ---------------------------------------------------------------------------
# reference machine (from the statement)


def reference(script: str, tail: str, max_retry: int, timeout: float, reconnect_fails: bool) -> dict[str, Any]:
    """Returns the admissible outcome set and the expected transport call counts."""
    pos = 0
    silence_limit = max(timeout, 20.0) / POLL

    def nxt(for_write: bool = False) -> str | None:
        nonlocal pos
        if for_write:
            if pos < len(script) and script[pos] == "W":
                pos += 1
                return "W"
            return None
        while True:
            if pos < len(script):
                ev = script[pos]
            elif tail:
                ev = tail[(pos - len(script)) % len(tail)]
            else:
                ev = "T"
            pos += 1
            if ev != "W":
                return ev

    writes = 0
    reconnects = 0
    outcome: set[str] = set()
    last = "none"
    for attempt in range(max_retry + 1):
        lastatt = attempt == max_retry
        writes += 1
        if nxt(for_write=True) == "W":
            ev = "W"
        else:
            ev = nxt()
        if ev in ("C", "E", "W"):
            last = "conn"
            if not lastatt:
                reconnects += 1
                if reconnect_fails:
                    outcome = {"ConnectionError", "MissingResponse+cause"}
                    break
            continue
        if ev == "T":
            last = "timeout"
            continue
        if ev == "B":
            if lastatt:
                outcome = {"reply:B"}
                break
            last = "busy"
            continue
        if ev in ("R", "N"):
            outcome = {"reply:" + ev}
            break
        if ev == "M":
            outcome = {"RequestResponseMismatch"}
            break
        if ev == "F":
            outcome = {"MalformedResponse"}
            break
        assert ev == "P"
        n_pending = 1
        n_silent = 0
        retry = False
        while True:
            ev = nxt()
            if ev == "T":
                n_silent += 1
                if n_silent >= silence_limit:
                    last = "timeout"
                    retry = True
                    break
                continue
            n_silent = 0
            if ev == "P":
                n_pending += 1
                if n_pending >= MAX_N_PENDING:
                    outcome = {"RuntimeError", "MissingResponse", "MissingResponse+cause"}
                    break
                continue
            if ev in ("R", "N"):
                outcome = {"reply:" + ev}
                break
            if ev == "B":
                outcome = {"reply:B"}  # statement silent; final negative reply is what the caller gets
                break
            if ev == "M":
                outcome = {"RequestResponseMismatch"}
                break
            if ev == "F":
                outcome = {"MalformedResponse"}
                break
            if ev in ("C", "E"):
                last = "conn"
                retry = True
                if not lastatt:
                    reconnects += 1
                    if reconnect_fails:
                        outcome = {"ConnectionError", "MissingResponse+cause"}
                break
        if outcome:
            break
        if retry:
            continue
    if not outcome:
        if last == "conn":
            outcome = {"MissingResponse+cause"}
        elif last == "busy":
            outcome = {"reply:B"}
        else:
            outcome = {"MissingResponse"}
    return {"outcome": outcome, "writes": writes, "reconnects": reconnects, "consumed": pos}


# ---------------------------------------------------------------------------


def execute(item: tuple[Any, ...]) -> dict[str, Any]:
    script, tail, max_retry, override, reconnect_fails, timeout = item
    st: dict[str, Any] = {
        "script": script,
        "tail": TAILS.get(tail, tail),
        "pos": 0,
        "log": [],
        "consumed": [],
        "reconnect_fails": reconnect_fails,
    }
    box: dict[str, Any] = {}

    def scenario(run: Run) -> None:
        tr = G["ScriptTransport"](st)
        if override:
            # client defaults are deliberately different; the per-request config must win
            client = G["UDSClient"](tr, timeout=timeout + 7.0, max_retry=(max_retry + 2) % 5)
            cfg = G["UDSRequestConfig"](timeout=timeout, max_retry=max_retry)
        else:
            client = G["UDSClient"](tr, timeout=timeout, max_retry=max_retry)
            cfg = None
        req = G["service"].ReadDataByIdentifierRequest(0x1234)

        async def drv() -> None:
            try:
                box["result"] = await client.request(req, cfg)
            except BaseException as e:  # noqa: BLE001
                box["exc"] = e

        task = run.loop.create_task(drv())
        run.done = task.done
        box["client"] = client

    run = run_once(scenario, [], Policy(max_iterations=200000, max_vtime=10**6))
    out: dict[str, Any] = {"status": run.status, "t": run.loop.time(), "log": st["log"], "consumed": st["consumed"]}
    if "result" in box:
        r = box["result"]
        kind = {v: k for k, v in REPLY.items()}.get(r.pdu, "?" + r.pdu.hex())
        out["outcome"] = "reply:" + kind
    elif "exc" in box:
        e = box["exc"]
        if isinstance(e, G["MissingResponse"]):
            out["outcome"] = "MissingResponse+cause" if isinstance(e.__cause__, ConnectionError) else "MissingResponse"
        elif isinstance(e, G["RequestResponseMismatch"]):
            out["outcome"] = "RequestResponseMismatch"
        elif isinstance(e, G["MalformedResponse"]):
            out["outcome"] = "MalformedResponse"
        elif isinstance(e, ConnectionError):
            out["outcome"] = "ConnectionError"
        else:
            out["outcome"] = type(e).__name__
    else:
        out["outcome"] = "unfinished"
    out["mutex_free"] = not box["client"].mutex.locked()
    return out


def judge(item: tuple[Any, ...], out: dict[str, Any], res: Result) -> None:
    script, tail, max_retry, override, reconnect_fails, timeout = item
    ref = reference(script, TAILS.get(tail, tail), max_retry, timeout, reconnect_fails)
    log = out["log"]
    writes = [e for e in log if e[0] in ("write", "write!")]
    recon = [e for e in log if e[0] == "reconnect"]
    reads = [e for e in log if e[0] == "read"]
    rp = {"item": list(item)}
    where = f"script={script or '-'}{('+' + tail) if tail else ''} max_retry={max_retry} override={override} rcfail={reconnect_fails} timeout={timeout}"

    def shape() -> str:
        # signature class: phase in which the last consumed event arrived + that event
        cons = out["consumed"]
        if not cons:
            return "phase=none|event=-"
        lastev = cons[-1]
        phase = "attempt"
        for e in cons[:-1]:
            if e == "P":
                phase = "pending"
            elif e not in ("T",):
                phase = "attempt"
        if phase == "pending" and lastev == "T":
            # silence: was it the run of silent polls that ended the phase?
            pass
        return f"phase={phase}|event={lastev}"

    if out["status"] != "done":
        res.violate(f"C04|hang|{shape()}|{out['status']}", f"request did not finish ({out['status']}, t={out['t']}) {where}", rp)
        return
    # bounded time: every attempt may take timeout + pending allowance; plus backoff
    allowance = (max_retry + 1) * (timeout + MAX_N_PENDING * (max(timeout, 20.0) + POLL) + POLL) + sum(
        0.2 * 2**i for i in range(max_retry + 1)
    ) + 1.0
    if out["t"] > allowance:
        res.violate(f"C04|time|{shape()}", f"took {out['t']}s > bound {allowance}s {where}", rp)
    if out["outcome"] not in ref["outcome"]:
        res.violate(
            f"C04|outcome|{shape()}|got={out['outcome']}",
            f"outcome {out['outcome']} not in {sorted(ref['outcome'])} {where}",
            rp,
        )
        return
    if len(writes) > max_retry + 1:
        res.violate(f"C04|writes>max|{shape()}", f"{len(writes)} transmissions > max_retry+1 {where}", rp)
    elif len(writes) != ref["writes"]:
        res.violate(
            f"C04|writes|{shape()}|got={len(writes)}|want={ref['writes']}",
            f"{len(writes)} transmissions, reference says {ref['writes']} {where}",
            rp,
        )
    if any(w[2] != REQ_PDU for w in writes):
        res.violate(f"C04|wire-bytes|{shape()}", f"wrong bytes written {where}", rp)
    if len(recon) != ref["reconnects"] and out["outcome"] != "ConnectionError":
        res.violate(
            f"C04|reconnects|{shape()}|got={len(recon)}|want={ref['reconnects']}",
            f"{len(recon)} reconnects, reference says {ref['reconnects']} {where}",
            rp,
        )
    # no transmission inside a pending phase
    in_pending = False
    for e in log:
        if e[0] == "read":
            if e[3] == "P":
                in_pending = True
            elif e[3] != "T":
                in_pending = False
        elif e[0] in ("write", "write!") and in_pending:
            # allowed only if the pending phase ended through silence (a retry-worthy event)
            # find the last read events before this write
            idx = log.index(e)
            prev_reads = [x for x in log[:idx] if x[0] == "read"]
            nsil = 0
            for x in reversed(prev_reads):
                if x[3] == "T":
                    nsil += 1
                else:
                    break
            if nsil < max(timeout, 20.0) / POLL:
                res.violate(f"C04|retransmit-in-pending|{shape()}", f"request retransmitted during pending phase {where}", rp)
            in_pending = False
    # the first read of each attempt carries the effective timeout
    for i, e in enumerate(log):
        if e[0] == "write" and i + 1 < len(log) and log[i + 1][0] == "read":
            if log[i + 1][2] != timeout:
                res.violate(
                    f"C04|timeout-config|override={override}",
                    f"read after write used timeout {log[i + 1][2]} instead of {timeout} {where}",
                    rp,
                )
                break
    stale = [e for e in log if isinstance(e[0], str) and e[0].endswith("@stale")]
    if stale:
        res.violate(f"C04|stale-transport-used|{stale[0][0]}", f"{stale[0][0]}: the client used the transport instance that reconnect() had replaced {where}", rp)
    if not out["mutex_free"]:
        res.violate(f"C04|mutex-held|{shape()}", f"client mutex still held after the request {where}", rp)
    res.count("transitions", len(log))
    _ = reads


def run_item(item: tuple[Any, ...]) -> Result:
    res = Result()
    out = execute(item)
    res.count("executions")
    script, tail, max_retry, override, reconnect_fails, timeout = item
    res.seen("states", (max_retry, override, reconnect_fails, timeout, tuple(out["consumed"]), out["outcome"]))
    res.seen("outcomes", out["outcome"])
    res.notes.setdefault("outcome_histogram", {})
    res.notes["outcome_histogram"][out["outcome"]] = res.notes["outcome_histogram"].get(out["outcome"], 0) + 1
    judge(item, out, res)
    if script in ("PTR", "BCR", "WPPN") and max_retry == 1 and not override and not reconnect_fails and not tail:
        res.sample(
            {
                "script": script,
                "max_retry": max_retry,
                "outcome": out["outcome"],
                "virtual_time": out["t"],
                "transport_calls": [[e[0], e[1]] + ([e[3]] if e[0] == "read" else []) for e in out["log"]],
            }
        )
    return res


def items(tier: str, seed: int) -> list[tuple[Any, ...]]:
    L = 5 if tier == "quick" else 7
    out: list[tuple[Any, ...]] = []
    letters = LETTERS
    for n in range(0, L + 1):
        for tup in itertools.product(letters, repeat=n):
            s = "".join(tup)
            # canonical scripts only: nothing after the first event that always ends the request at any attempt
            # (R, N, M, F end the request wherever they are consumed)
            cut = min([s.find(c) for c in "RNMF" if c in s] or [len(s)])
            if cut < len(s) - 1:
                continue
            for mr in (0, 1, 2, 3):
                if n <= (4 if tier == "quick" else 5):
                    variants = [(False, False), (True, False), (False, True)]
                else:
                    variants = [(False, False)]
                for override, rcfail in variants:
                    if rcfail and not any(c in s for c in "CWE"):
                        continue
                    out.append((s, "", mr, override, rcfail, 2.0))
    # tails (endless streams) behind short prefixes
    for tail in ("P*", "PT*", "PTT*", "B*", "R*"):
        for n in range(0, 3):
            for tup in itertools.product("TCEBPW", repeat=n):
                for mr in (0, 1, 3):
                    out.append(("".join(tup), tail, mr, False, False, 2.0))
    # long runs around the limits
    # (20.3 and 27.75: the silence allowance max(timeout, 20) / 0.5 is not a whole number of polls)
    for timeout in (2.0, 30.0, 20.3, 27.75):
        lim = math.ceil(max(timeout, 20.0) / POLL)
        for mr in (0, 1):
            for k in (MAX_N_PENDING - 2, MAX_N_PENDING - 1, MAX_N_PENDING, MAX_N_PENDING + 1):
                out.append(("P" * k + "R", "", mr, False, False, timeout))
            for k in (lim - 2, lim - 1, lim, lim + 1):
                out.append(("P" + "T" * k + "R", "", mr, False, False, timeout))
                out.append(("P" + "T" * k, "", mr, False, False, timeout))
                out.append(("PP" + "T" * k + "N", "", mr, True, False, timeout))
            # the silence counter counts *consecutive* silent polls only
            for j in (1, lim - 1):
                for n in (2, 3, 5):
                    out.append((("P" + "T" * j) * n + "R", "", mr, False, False, timeout))
                    out.append((("P" + "T" * j) * n + "T" * (lim + 1) + "R", "", mr, False, False, timeout))
    # budgets are per transmission: a retried attempt starts with fresh pending / silence counters
    for timeout in (2.0,):
        lim = int(max(timeout, 20.0) / POLL)
        for mr in (1, 2):
            for sep in ("C", "E", "T" * lim):
                out.append(("P" * 70 + sep + "P" * 70 + "R", "", mr, False, False, timeout))
                out.append(("P" + "T" * (lim - 1) + "P" * 3 + sep + "P" + "T" * (lim - 1) + "N", "", mr, False, False, timeout))
                out.append(("P" + "T" * lim + "PTR" if sep.startswith("T") else "P" + sep + "P" + "T" * (lim - 1) + "R", "", mr, True, False, timeout))
    return out


def replay(doc: dict[str, Any]) -> Result:
    item = tuple(doc["item"])
    res = Result()
    out = execute(item)
    judge(item, out, res)
    for e in out["log"]:
        print("   ", e)
    print("    outcome:", out["outcome"], "t=", out["t"])
    return res


def finish(merged: Result, tier: str) -> dict[str, Any]:
    from vf.engine.runner import Broken

    need = {"reply:R", "reply:N", "reply:B", "MissingResponse", "MissingResponse+cause", "RequestResponseMismatch", "MalformedResponse", "RuntimeError"}
    got = set(merged.notes.get("outcome_histogram", {}))
    if not need <= got:
        raise Broken(f"vacuous: outcomes never observed: {sorted(need - got)}")
    return {"bound": {"script_length": 5 if tier == "quick" else 7, "max_retry": [0, 1, 2, 3]}}
