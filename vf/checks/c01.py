"""C01 - UDS requests serialise to the ISO 14229-1 layout and parse back losslessly.

Engine B.  Every concrete request class found by introspection of
``gallia.services.uds.core.service`` and every service method of ``UDSClient`` is run over
the Cartesian product of the per-field boundary alphabets owned by the independent layout
table ``vf.ref.iso14229``; the reference bytes are the table's generic encoder.
"""

from __future__ import annotations

import inspect
import itertools
from typing import Any

from vf.engine.runner import Broken, Result
from vf.ref import iso14229 as T

ID = "C01"
LEVEL = "exploration"
RULE = (
    "per request kind of the ISO 14229-1 layout table: full Cartesian product of the per-field boundary alphabets "
    "(uint 0,1,mid,max-1,max; sub-function 0x00,1,2,0x40,0x41,0x7D,0x7E,0x7F x both suppress settings; SecurityAccess odd/even; nibbles; "
    "address/size widths {1,2,4,15} quick / 1..15 thorough with 0, smallest-needing-width, max per width, explicit and "
    "computed format identifier; 0..3 (thorough 0..4) repeated groups in 3 homogeneous + 2 heterogeneous value patterns (maxima of different fields in different groups), scalar shorthand; records of "
    "0,1,2,300,4096 (thorough also 5000) bytes) on the request class found by introspection AND on the UDSClient method; plus one-parameter-out-"
    "of-range cases. evaluation = one (class|client method, parameter assignment); non-trivial = distinct "
    "(kind, reference PDU) pairs actually compared with bytes produced by gallia"
)
ASSUMPTIONS = [
    "vf/ref/iso14229.py is the trusted statement of the ISO 14229-1 layouts (cross-checked against 43 worked examples)",
    "user-visible parameters are the constructor parameters / public attributes named like the table's fields",
    "the split between two adjacent variable-length records is not on the wire: compared as concatenation only",
    "classes declared ABC or with a leading underscore are base classes, not user-constructible request kinds",
    "SecurityAccess types 0x00 and 0x7F (ISOSAEReserved) may be refused by a constructor; if accepted they must encode, parse back and dispatch like any other value",
]
CHUNK = 1

G: dict[str, Any] = {}
SHARDS = {"quick": 4, "thorough": 32}
INFRA_METHODS = {"connect", "reconnect", "reconnect_unsafe", "request", "request_unsafe"}


def worker_init() -> None:
    import logging

    import gallia.command  # noqa: F401
    from gallia.services.uds.core import client, service
    from gallia.transports.base import BaseTransport, TargetURI

    logging.disable(logging.CRITICAL)
    G["service"] = service
    G["client"] = client

    class Recorder(BaseTransport, scheme="c01rec"):  # type: ignore[call-arg,misc]
        def __init__(self) -> None:
            super().__init__(TargetURI("c01rec://x"))
            self.wire: list[bytes] = []

        @classmethod
        async def connect(cls, target: Any, timeout: float | None = None) -> Any:
            raise NotImplementedError

        async def close(self) -> None:
            pass

        async def write(self, data: bytes, timeout: float | None = None, tags: Any = None) -> int:
            self.wire.append(bytes(data))
            return len(data)

        async def read(self, timeout: float | None = None, tags: Any = None) -> bytes:
            # a well-formed negative reply naming the request: accepted for every request kind
            return bytes([0x7F, self.wire[-1][0] if self.wire[-1] else 0, 0x11])

    G["Recorder"] = Recorder


def drive(coro: Any) -> Any:
    """run a coroutine that never really suspends (no event loop involved)."""
    try:
        coro.send(None)
    except StopIteration as e:
        return e.value
    coro.close()
    raise Broken("client coroutine suspended on the recording transport")


# -- discovery ---------------------------------------------------------------------


def request_classes() -> tuple[list[Any], list[str]]:
    s = G["service"]
    import abc

    concrete, bases = [], []
    for name, c in vars(s).items():
        if not (inspect.isclass(c) and issubclass(c, s.UDSRequest) and c.__module__ == s.__name__):
            continue
        if inspect.isabstract(c):
            continue
        if abc.ABC in c.__bases__ or name.startswith("_"):
            bases.append(name)
            continue
        concrete.append(c)
    return concrete, bases


def client_methods() -> list[str]:
    c = G["client"].UDSClient
    return [
        n
        for n, f in vars(c).items()
        if inspect.iscoroutinefunction(f) and not n.startswith("_") and n not in INFRA_METHODS
    ]


# -- items ------------------------------------------------------------------------


def items(tier: str, seed: int) -> list[tuple[Any, ...]]:
    if not G:
        worker_init()
    n = SHARDS[tier]
    out: list[tuple[Any, ...]] = [("meta", tier)]
    classes, _ = request_classes()
    for c in classes:
        k = T.BY_REQ_CLS.get(c.__name__)
        if k is None:
            out.append(("class-unknown", c.__name__))
            continue
        big = any(isinstance(f, T.ALFID) for f in k.req)
        for i in range(n if big else 1):
            out.append(("class", k.name, tier, i, n if big else 1))
        out.append(("class-bad", k.name))
    for m in client_methods():
        k = T.BY_CLIENT.get(m)
        if m == "send_raw":
            out.append(("client-raw",))
            continue
        if k is None:
            out.append(("client-unknown", m))
            continue
        big = any(isinstance(f, T.ALFID) for f in k.req)
        for i in range(n if big else 1):
            out.append(("client", k.name, tier, i, n if big else 1))
        out.append(("client-bad", k.name))
    return out


# -- helpers ------------------------------------------------------------------------


def pub(obj: Any) -> dict[str, Any]:
    return {a: v for a, v in vars(obj).items() if not a.startswith("_")}


def call_kwargs(fn: Any, vals: dict[str, Any], res: Result, owner: str) -> list[dict[str, Any]]:
    """map table values to the parameters of a constructor / client method by name.

    Returns several kwargs variants: parameters the table does not know (and that have no default) are
    tried with two plain integers - the serialisation must not depend on them; Sequence parameters of
    length one are also passed in the scalar shorthand gallia documents (``int | Sequence[int]``)."""
    sig = inspect.signature(fn)
    kw: dict[str, Any] = {}
    unknown: list[str] = []
    scalar_ok: list[str] = []
    for name, p in sig.parameters.items():
        if name in ("self", "config"):
            continue
        if name in vals:
            kw[name] = vals[name]
            if isinstance(vals[name], list) and len(vals[name]) == 1 and str(p.annotation).startswith("int |"):
                scalar_ok.append(name)
        elif p.default is inspect.Parameter.empty:
            unknown.append(name)
    missing = [n for n in vals if n not in sig.parameters]
    if missing:
        res.notes.setdefault("table_parameters_without_ctor_parameter", [])
        for mname in missing:
            tag = f"{owner}.{mname}"
            if tag not in res.notes["table_parameters_without_ctor_parameter"]:
                res.notes["table_parameters_without_ctor_parameter"].append(tag)
    variants = [kw]
    if unknown:
        for u in unknown:
            tag = f"{owner}({u})"
            lst = res.notes.setdefault("ctor_parameters_unknown_to_iso", [])
            if tag not in lst:
                lst.append(tag)
        variants = [dict(kw, **{u: fill for u in unknown}) for fill in (0, 0xFF)]
    if scalar_ok:
        variants = variants + [dict(v, **{n: v[n][0] for n in scalar_ok}) for v in variants]
    return variants


def passable(kind: T.Kind, vals: dict[str, Any], fn: Any) -> bool:
    """can this assignment be handed to ``fn`` at all (fixed sub-functions are not parameters)?"""
    params = inspect.signature(fn).parameters
    for f in kind.req:
        if isinstance(f, T.SUBQ) and f.name and f.fixed is not None and f.name not in params:
            if vals.get(f.name, f.fixed) != f.fixed:
                return False
    return True


def strip_fixed(kind: T.Kind, vals: dict[str, Any], fn: Any) -> dict[str, Any]:
    params = inspect.signature(fn).parameters
    return {n: v for n, v in vals.items() if n in params}


def shape(vals: dict[str, Any]) -> str:
    parts = []
    for n in sorted(vals):
        v = vals[n]
        if v is None:
            parts.append(f"{n}=None")
        elif isinstance(v, list) and not v:
            parts.append(f"{n}=[]")
    return ",".join(parts)


def describe(vals: dict[str, Any]) -> str:
    def r(v: Any) -> str:
        if isinstance(v, bytes):
            return v.hex() if len(v) <= 8 else f"<{len(v)} bytes>"
        if isinstance(v, bool) or v is None:
            return repr(v)
        if isinstance(v, int):
            return hex(v)
        if isinstance(v, list | tuple):
            return "[" + ",".join(r(x) for x in v) + "]"
        return repr(v)

    return " ".join(f"{n}={r(v)}" for n, v in vals.items())


def joined_equal(kind: T.Kind, a: dict[str, Any], b: dict[str, Any]) -> bool:
    """public attributes equal, adjacent variable-length records compared as concatenation."""
    a, b = dict(a), dict(b)
    for group in kind.joined + [("control_option_record", "control_enable_mask_record")]:
        if all(g in a and g in b for g in group):
            ja = b"".join(a.pop(g) for g in group)
            jb = b"".join(b.pop(g) for g in group)
            if ja != jb:
                return False
    return a == b


# -- oracle for one request object -----------------------------------------------------


def check_object(res: Result, kind: T.Kind, cls: Any, vals: dict[str, Any], kw: dict[str, Any], ref: bytes) -> None:
    s = G["service"]
    cn = cls.__name__
    rp = {"mode": "class", "kind": kind.name, "vals": freeze(vals), "kw": freeze(kw)}
    sh = shape(vals)
    sfx = f"|{sh}" if sh else ""
    res.count("evaluations")
    first: str | None = None  # how clause (1) failed: exception type name or "bytes"
    obj = None
    pdu = None
    try:
        obj = cls(**kw)
    except Exception as e:  # noqa: BLE001  (gallia refusing a valid parameter set is the observation)
        if any(isinstance(f, T.SUBQ) and f.name and vals.get(f.name) in f.reserved() for f in kind.req):
            res.count("reserved_value_refused")  # ISOSAEReserved sub-function: refusing it is admissible
            return
        res.violate(f"C01|{cn}|construct-raises|{type(e).__name__}{sfx}", f"in-range parameters refused: {describe(kw)}: {e!r}", rp)
        first = type(e).__name__
    if obj is not None:
        try:
            pdu = obj.pdu
        except Exception as e:  # noqa: BLE001
            res.violate(f"C01|{cn}|pdu-raises|{type(e).__name__}{sfx}", f"cannot be serialised: {describe(kw)}: {e!r} (ISO: {ref.hex()[:40]})", rp)
            first = type(e).__name__
    res.seen("nontrivial", (kind.name, ref))
    if pdu is not None and pdu != ref:
        res.violate(f"C01|{cn}|wrong-bytes|{diff_class(kind, vals, pdu, ref)}{sfx}", f"{describe(kw)} -> {pdu.hex()[:60]} but ISO layout is {ref.hex()[:60]}", rp)
        first = "bytes"
    # Clauses (2) and (3) are evaluated on the ISO bytes in any case.  from_pdu() re-serialises the parsed
    # object and asserts equality, so after a failure of clause (1) the *same* failure resurfacing there
    # (same exception type, or AssertionError for wrong bytes) and the resulting raw fallback of the dynamic
    # parser are consequences, counted but not reported as separate violations.
    consequence = False
    # (2) static round trip on the reference bytes
    try:
        back = cls.from_pdu(ref)
    except Exception as e:  # noqa: BLE001
        back = None
        if first is not None and type(e).__name__ in (first, "AssertionError" if first == "bytes" else first):
            consequence = True
            res.count("consequential_failures")
        else:
            res.violate(f"C01|{cn}|from_pdu-raises|{type(e).__name__}{sfx}", f"{cn}.from_pdu({ref.hex()[:60]}) raised {e!r}", rp)
    if back is not None:
        if type(back) is not cls:
            res.violate(f"C01|{cn}|roundtrip-class", f"from_pdu gave {type(back).__name__}", rp)
        else:
            try:
                bpdu = back.pdu
            except Exception as e:  # noqa: BLE001
                bpdu = None
                res.violate(f"C01|{cn}|roundtrip-pdu-raises|{type(e).__name__}{sfx}", f"parsed object cannot be re-serialised: {e!r}", rp)
            if bpdu is not None and bpdu != ref:
                res.violate(f"C01|{cn}|roundtrip-bytes{sfx}", f"from_pdu({ref.hex()[:60]}).pdu == {bpdu.hex()[:60]}", rp)
            if obj is not None and pdu == ref and not joined_equal(kind, pub(back), pub(obj)):
                dif = sorted(a for a in set(pub(back)) | set(pub(obj)) if pub(back).get(a) != pub(obj).get(a))
                res.violate(f"C01|{cn}|roundtrip-fields|{','.join(dif)}{sfx}", f"attributes changed by the round trip of {ref.hex()[:60]}: {dif}: {[(pub(obj).get(a), pub(back).get(a)) for a in dif]}", rp)
            # field values the layout places at the byte positions
            want = T.decode(kind, "req", ref)
            for n, v in want.items():
                if hasattr(back, n) and not any(n in g for g in kind.joined):
                    if canon(getattr(back, n)) != canon(v):
                        res.violate(f"C01|{cn}|parsed-field|{n}{sfx}", f"from_pdu({ref.hex()[:60]}).{n} == {getattr(back, n)!r}, layout says {v!r}", rp)
    # (3) dynamic parser
    dyn = s.UDSRequest.parse_dynamic(ref)
    want_cls = cn if kind.dispatch else T.find("req", ref).req_cls  # type: ignore[union-attr]
    if isinstance(dyn, s.RawRequest) and consequence:
        res.count("consequential_failures")
    elif isinstance(dyn, s.RawRequest):
        res.violate(f"C01|{cn}|dynamic-raw{sfx}", f"parse_dynamic({ref.hex()[:60]}) degraded a well-formed {kind.name} request to RawRequest", rp)
    elif type(dyn).__name__ != want_cls:
        res.violate(f"C01|{cn}|dynamic-class|{type(dyn).__name__}", f"parse_dynamic({ref.hex()[:60]}) gave {type(dyn).__name__}, registry kind is {want_cls}", rp)
    else:
        try:
            dp = dyn.pdu
        except Exception as e:  # noqa: BLE001
            dp = None
            res.violate(f"C01|{cn}|dynamic-pdu-raises|{type(e).__name__}", f"{e!r}", rp)
        if dp is not None and dp != ref:
            res.violate(f"C01|{cn}|dynamic-bytes{sfx}", f"parse_dynamic({ref.hex()[:60]}).pdu == {dp.hex()[:60]}", rp)


def canon(v: Any) -> Any:
    if isinstance(v, dict):
        return [(canon(a), canon(b)) for a, b in v.items()]
    if isinstance(v, list | tuple):
        return [canon(x) for x in v]
    if isinstance(v, bool):
        return v
    if isinstance(v, int):
        return int(v)
    if isinstance(v, bytearray):
        return bytes(v)
    return v


def diff_class(kind: T.Kind, vals: dict[str, Any], got: bytes, ref: bytes) -> str:
    """which parameter's bytes differ (first differing field of the layout)"""
    if len(got) != len(ref):
        tag = "length"
    else:
        tag = "bytes"
    # find the field covering the first differing offset, by re-encoding prefixes
    pos = next((i for i, (a, b) in enumerate(zip(got, ref)) if a != b), min(len(got), len(ref)))
    if pos == 0:
        return f"{tag}@sid"
    ctx: dict[str, Any] = {}
    rv = T.resolve(kind, "req", vals)
    off = 1
    for f in kind.req:
        n = len(f.enc(rv, ctx))
        if pos < off + n or f is kind.req[-1]:
            nm = f.names[0] if f.names else "const"
            if isinstance(f, T.SUBQ):
                nm = "suppress-bit" if (got[pos] ^ ref[pos]) == 0x80 else "sub-function"
            return f"{tag}@{nm}"
        off += n
    return tag


def freeze(v: Any) -> Any:
    if isinstance(v, bytes | bytearray):
        return {"hex": bytes(v).hex()}
    if isinstance(v, dict):
        return {k: freeze(x) for k, x in v.items()}
    if isinstance(v, list | tuple):
        return [freeze(x) for x in v]
    return v


def thaw(v: Any) -> Any:
    if isinstance(v, dict) and set(v) == {"hex"}:
        return bytes.fromhex(v["hex"])
    if isinstance(v, dict):
        return {k: thaw(x) for k, x in v.items()}
    if isinstance(v, list):
        return [thaw(x) for x in v]
    return v


# -- out of range ------------------------------------------------------------------------


def check_bad_object(res: Result, kind: T.Kind, cls: Any, param: str, why: str, vals: dict[str, Any], kw: dict[str, Any]) -> None:
    cn = cls.__name__
    rp = {"mode": "class-bad", "kind": kind.name, "param": param, "why": why, "vals": freeze(vals), "kw": freeze(kw)}
    res.count("evaluations")
    res.count("out_of_range_cases")
    try:
        pdu = cls(**kw).pdu
    except Exception:  # noqa: BLE001  (refusal is the required behaviour)
        res.count("refused")
        return
    res.seen("nontrivial", (kind.name, "bad", param, why))
    res.violate(f"C01|{cn}|out-of-range-encoded|{param}|{why}", f"{describe(kw)} is outside the documented range but yields PDU {pdu.hex()[:60]}", rp)


# -- client --------------------------------------------------------------------------------


def call_client(method: str, kw: dict[str, Any]) -> tuple[list[bytes], Any]:
    tr = G["Recorder"]()
    cl = G["client"].UDSClient(tr, timeout=1.0)
    exc = None
    try:
        drive(getattr(cl, method)(**kw))
    except Broken:
        raise
    except Exception as e:  # noqa: BLE001  (observation)
        exc = e
    return tr.wire, exc


def check_client(res: Result, kind: T.Kind, vals: dict[str, Any], kw: dict[str, Any], ref: bytes) -> None:
    m = kind.client
    assert m
    rp = {"mode": "client", "kind": kind.name, "vals": freeze(vals), "kw": freeze(kw)}
    sh = shape(vals)
    sfx = f"|{sh}" if sh else ""
    res.count("evaluations")
    wire, exc = call_client(m, kw)
    # the wrapper only has to hand over what the request class of the same arguments serialises to; a failure that
    # the class shows identically for these arguments is reported there (check_object), not a second time here
    direct: Any = None
    cls = getattr(G["service"], kind.req_cls) if kind.req_cls else None
    if cls is not None:
        ckw = {n: v for n, v in kw.items() if n in inspect.signature(cls.__init__).parameters}
        ckw.update({n: 0 for n, p in inspect.signature(cls.__init__).parameters.items() if n != "self" and n not in ckw and p.default is inspect.Parameter.empty})
        try:
            direct = cls(**ckw).pdu
        except Exception as e:  # noqa: BLE001
            direct = type(e).__name__
    if (exc is not None and not wire and direct == type(exc).__name__) or (wire and wire[0] != ref and direct == wire[0]):
        res.count("consequential_failures")
        res.seen("nontrivial", ("client", kind.name, ref))
        return
    if exc is not None and not wire:
        res.violate(f"C01|client.{m}|raises|{type(exc).__name__}{sfx}", f"{m}({describe(kw)}) raised {exc!r} and sent nothing (ISO: {ref.hex()[:40]})", rp)
        return
    res.seen("nontrivial", ("client", kind.name, ref))
    if len(wire) != 1:
        res.violate(f"C01|client.{m}|writes={len(wire)}", f"{m}({describe(kw)}) wrote {len(wire)} messages", rp)
        return
    if wire[0] != ref:
        res.violate(f"C01|client.{m}|wrong-bytes|{diff_class(kind, vals, wire[0], ref)}{sfx}", f"{m}({describe(kw)}) sent {wire[0].hex()[:60]} but the arguments denote {ref.hex()[:60]}", rp)


def check_bad_client(res: Result, kind: T.Kind, param: str, why: str, vals: dict[str, Any], kw: dict[str, Any]) -> None:
    m = kind.client
    assert m
    rp = {"mode": "client-bad", "kind": kind.name, "param": param, "why": why, "vals": freeze(vals), "kw": freeze(kw)}
    res.count("evaluations")
    res.count("out_of_range_cases")
    wire, exc = call_client(m, kw)
    if not wire:
        res.count("refused")
        return
    cls = getattr(G["service"], kind.req_cls) if kind.req_cls else None
    if cls is not None:
        ckw = {n: v for n, v in kw.items() if n in inspect.signature(cls.__init__).parameters}
        try:
            if cls(**ckw).pdu == wire[0]:  # reported for the class (check_bad_object)
                res.count("consequential_failures")
                return
        except Exception:  # noqa: BLE001
            pass
    res.violate(f"C01|client.{m}|out-of-range-sent|{param}|{why}", f"{m}({describe(kw)}) is outside the documented range but sent {wire[0].hex()[:60]}", rp)


# -- run -----------------------------------------------------------------------------------


def run_item(item: tuple[Any, ...]) -> Result:
    res = Result()
    s = G["service"]
    what = item[0]
    if what == "meta":
        n = T.selftest()
        res.notes["table_examples_checked"] = n
        classes, bases = request_classes()
        res.notes["request_classes"] = len(classes)
        res.notes["base_classes_skipped"] = sorted(bases)
        res.notes["client_methods"] = len(client_methods())
        # table rows whose gallia names do not exist (renamed / removed): never silently skipped
        for k in T.KINDS:
            if k.req_cls and not hasattr(s, k.req_cls):
                res.uncovered.add(f"table row {k.name}: no class {k.req_cls}")
            if k.client and not hasattr(G["client"].UDSClient, k.client):
                res.uncovered.add(f"table row {k.name}: no client method {k.client}")
        # raw requests: bytes are the parameter
        for raw in (b"\x00", b"\x22", b"\x22\xf1\x90", b"\xba\x01\x02", bytes(range(256)) * 2):
            res.count("evaluations")
            r = s.RawRequest(raw)
            back = s.RawRequest.from_pdu(raw)
            if r.pdu != raw or back.pdu != raw or type(back) is not s.RawRequest:
                res.violate("C01|RawRequest|bytes", f"RawRequest({raw.hex()[:20]}) does not keep its bytes", {"mode": "raw", "raw": raw.hex()})
        return res
    if what == "class-unknown":
        res.uncovered.add(f"request class {item[1]}")
        return res
    if what == "client-unknown":
        res.uncovered.add(f"client method {item[1]}")
        return res
    if what == "client-raw":
        for raw in (b"\x22\xf1\x90", b"\xba\x01\x02", b"\x10"):
            res.count("evaluations")
            wire, exc = call_client("send_raw", {"pdu": raw})
            res.seen("nontrivial", ("client", "raw", raw))
            if wire != [raw]:
                res.violate("C01|client.send_raw|wrong-bytes", f"send_raw({raw.hex()}) wrote {[w.hex() for w in wire]} ({exc!r})", {"mode": "client-raw", "raw": raw.hex()})
        return res
    kind = T.BY_NAME[item[1]]
    if what in ("class", "class-bad"):
        cls = getattr(s, kind.req_cls)  # type: ignore[arg-type]
        fn = cls.__init__
        owner = cls.__name__
    else:
        fn = getattr(G["client"].UDSClient, kind.client)  # type: ignore[arg-type]
        owner = "client." + str(kind.client)
    if what in ("class", "client"):
        _, _, tier, shard, nshards = item
        for idx, vals in enumerate(T.value_sets(kind, "req", tier)):
            if idx % nshards != shard:
                continue
            if not passable(kind, vals, fn):
                continue
            ref = T.encode(kind, "req", vals)
            for kw in call_kwargs(fn, strip_fixed(kind, vals, fn), res, owner):
                if what == "class":
                    check_object(res, kind, cls, vals, kw, ref)
                else:
                    check_client(res, kind, vals, kw, ref)
            if idx == 1 and shard == 0:
                res.sample({"kind": kind.name, "via": owner, "parameters": describe(vals), "iso_pdu": ref.hex()[:64]}, cap=1)
        return res
    # out of range
    for param, why, vals in T.bad_value_sets(kind, "req"):
        if param not in inspect.signature(fn).parameters:
            continue
        for kw in call_kwargs(fn, strip_fixed(kind, vals, fn), res, owner)[:1]:
            if what == "class-bad":
                check_bad_object(res, kind, cls, param, why, vals, kw)
            else:
                check_bad_client(res, kind, param, why, vals, kw)
    return res


def replay(doc: dict[str, Any]) -> Result:
    res = Result()
    s = G["service"]
    mode = doc["mode"]
    if mode in ("raw", "client-raw"):
        return run_item(("meta",) if mode == "raw" else ("client-raw",))
    kind = T.BY_NAME[doc["kind"]]
    vals, kw = thaw(doc["vals"]), thaw(doc["kw"])
    print("   kind:", kind.name, "parameters:", describe(kw))
    if mode == "class":
        ref = T.encode(kind, "req", vals)
        print("   ISO layout:", ref.hex()[:120])
        check_object(res, kind, getattr(s, kind.req_cls), vals, kw, ref)  # type: ignore[arg-type]
    elif mode == "client":
        ref = T.encode(kind, "req", vals)
        print("   ISO layout:", ref.hex()[:120])
        check_client(res, kind, vals, kw, ref)
    elif mode == "class-bad":
        check_bad_object(res, kind, getattr(s, kind.req_cls), doc["param"], doc["why"], vals, kw)  # type: ignore[arg-type]
    elif mode == "client-bad":
        check_bad_client(res, kind, doc["param"], doc["why"], vals, kw)
    return res


def finish(merged: Result, tier: str) -> dict[str, Any]:
    c = merged.counters
    if merged.notes.get("request_classes", 0) < 30 or merged.notes.get("client_methods", 0) < 30:
        raise Broken("vacuous: introspection found too few request classes / client methods")
    if c.get("evaluations", 0) < 10000 or c.get("refused", 0) < 100:
        raise Broken(f"vacuous: evaluations={c.get('evaluations')} refused={c.get('refused')}")
    return {
        "bound": {
            "widths": T.WIDTHS[tier],
            "max_groups": 3 if tier == "quick" else 4,
            "uint_alphabet": 5 if tier == "quick" else 7,
        },
        "kinds_in_table": len(T.KINDS),
    }


_ = itertools
