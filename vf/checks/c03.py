"""C03 - genuine replies are always accepted, foreign or stale replies always refused.

Engine B.  Pairs (request, reply bytes) are pushed through the real
``gallia.services.uds.helpers.parse_pdu``; the verdict (ACCEPT / MISMATCH / MALFORMED) is
compared with a reference classifier that is written from the property statement and works
on bytes only, using the independent layout table for decoding and for the echo relation.
"""

from __future__ import annotations

import inspect
from typing import Any

from vf.engine.runner import Broken, Result
from vf.ref import iso14229 as T

ID = "C03"
LEVEL = "exploration"
RULE = (
    "requests: per request kind of the layout table a spread of parameter assignments (2-3 boundary values per field, "
    "both suppress settings, 1..2 repeated groups, widths {1,3}) as the typed gallia object AND as RawRequest of the "
    "same bytes, plus RawRequests of unknown / known-but-unparsable services; replies per request: its genuine positive "
    "replies (echo via the table), every single-bit-flip of bytes 1..8 of a genuine reply, every proper prefix and two "
    "extensions, a valid positive reply of every other kind and bare SID+0x40 / SID+0x40 00 of every registered "
    "service, the request itself, 7F sid nrc for sid in {same, every other table SID, unknown} x NRC (quick: 64 values "
    "incl. all defined; thorough: all 256), negative replies of length 1,2,4,5; plus direct matches() of every typed "
    "response class and totality of the NRC->exception map. evaluation = one parse_pdu call; non-trivial = distinct "
    "(request bytes, reply bytes, typed|raw request) triples"
)
ASSUMPTIONS = [
    "vf/ref/iso14229.py is the trusted statement of layouts, echo relation and defined NRCs",
    "verdicts the statement leaves open are admitted as sets: secondary echoed parameter differs (ACCEPT|MISMATCH); "
    "undecodable reply whose present echo bytes differ (MALFORMED|MISMATCH); reserved / conditional encodings "
    "(ACCEPT|MALFORMED); requests the table cannot decode (only SID-level rules)",
    "'primary identifier' = sub-function, first data identifier, routine identifier, block sequence counter, "
    "addressAndLengthFormatIdentifier + memoryAddress; memorySize and the DDDI identifier are secondary",
]
CHUNK = 1

G: dict[str, Any] = {}
NRC_QUICK = sorted(set(T.ISO_NRC) | {0x00, 0x01, 0x0F, 0x15, 0x20, 0x23, 0x32, 0x3B, 0x4F, 0x5E, 0x6F, 0x74, 0x77, 0x79, 0x7D, 0x80, 0x8E, 0x95, 0xEF, 0xFF})[:]
UNKNOWN_SIDS = [0x00, 0x3F, 0xBA]


def worker_init() -> None:
    import logging

    import gallia.command  # noqa: F401
    from gallia.services.uds import helpers
    from gallia.services.uds.core import constants, exception, service

    logging.disable(logging.CRITICAL)
    G.update(service=service, helpers=helpers, exception=exception, constants=constants)


# -- reference classifier (from the statement; bytes only) ---------------------------------

ACCEPT, MISMATCH, MALFORMED = "ACCEPT", "MISMATCH", "MALFORMED"


def classify(qb: bytes, rb: bytes) -> tuple[frozenset[str], str]:
    """admissible verdicts for reply ``rb`` to request ``qb`` and the reply class (for signatures)."""
    sid = qb[0]
    if rb[0] == T.NEG_SID:
        if len(rb) < 2:
            return frozenset({MALFORMED, MISMATCH}), "negative|names-nothing"
        if rb[1] != sid:
            return frozenset({MISMATCH}), f"negative|other-sid|len={min(len(rb), 4)}"
        if len(rb) == 3 and rb[2] in T.ISO_NRC:
            return frozenset({ACCEPT}), "negative|same-sid|defined-nrc"
        if len(rb) == 3:
            return frozenset({MALFORMED}), "negative|same-sid|undefined-nrc"
        return frozenset({MALFORMED}), f"negative|same-sid|len={min(len(rb), 4)}"
    if rb[0] != sid + T.RSP_OFFSET:
        return frozenset({MISMATCH}), "positive|other-service"
    kq = T.find("req", qb)
    qvals = None
    if kq is not None:
        try:
            qvals = T.decode(kq, "req", qb)
        except T.Reject:
            qvals = None
    if kq is None or qvals is None:
        # the table cannot say what this request echoes: only "never an internal error" is demanded
        return frozenset({ACCEPT, MISMATCH, MALFORMED}), "positive|right-service|request-unknown-to-table"
    kr = T.find("rsp", rb)
    qsub = qb[1] & 0x7F if kq.sub is not None and len(qb) > 1 else None
    if kr is None:
        out = {MALFORMED}
        if qsub is not None and len(rb) > 1 and rb[1] != qsub:
            out.add(MISMATCH)
        return frozenset(out), "positive|right-service|undecodable|unknown-sub-function"
    if kr is not kq:
        out = {MISMATCH}
        inf: dict[str, Any] = {}
        try:
            if repeats_record_key(T.decode(kr, "rsp", rb, inf)):
                inf["open"] = "repeated-record-key"
        except T.Reject:
            out.add(MALFORMED)
        if inf.get("open"):
            out.add(MALFORMED)  # reserved / conditional encoding: the table takes no position on decodability
        return frozenset(out), "positive|right-service|other-sub-function"
    info: dict[str, Any] = {}
    try:
        rvals = T.decode(kr, "rsp", rb, info)
    except T.Reject:
        out = {MALFORMED}
        part = info.get("partial", {})
        for qn, rn, _ in kq.echo:
            try:
                if T._get(qvals, "req", kq, qn) != T._get(part, "rsp", kq, rn):
                    out.add(MISMATCH)
            except (KeyError, IndexError, TypeError):
                pass
        if qsub is not None and len(rb) > 1 and rb[1] != qsub:
            out.add(MISMATCH)
        return frozenset(out), "positive|right-service|undecodable"
    st = T.echo_status(kq, qvals, rvals)
    # a record list keyed by DTC that names one DTC twice: the statement takes no position on whether such a reply is decodable
    # (gallia refuses it since fix 5f48879 rather than silently dropping a record)
    if repeats_record_key(rvals):
        info["open"] = info.get("open") or "repeated-record-key"
    if st == "equal":
        out = {ACCEPT}
        cls = "genuine"
    elif st == "primary-differs":
        out = {MISMATCH}
        cls = "primary-echo-differs"
    else:
        out = {ACCEPT, MISMATCH}
        cls = st
    if info.get("open"):
        out.add(MALFORMED)
        cls += "|reserved-encoding"
    return frozenset(out), f"positive|right-service|{cls}"


def repeats_record_key(vals: dict[str, Any]) -> bool:
    return any(
        isinstance(val, list) and val and all(isinstance(x, tuple) and len(x) == 2 for x in val) and len({x[0] for x in val}) < len(val)
        for val in vals.values()
    )


# -- observation -----------------------------------------------------------------------------


def observe(req: Any, rb: bytes) -> str:
    ex = G["exception"]
    try:
        r = G["helpers"].parse_pdu(rb, req)
    except ex.RequestResponseMismatch:
        return MISMATCH
    except ex.MalformedResponse:
        return MALFORMED
    except Exception as e:  # noqa: BLE001  (any other exception is itself a violation)
        return f"ERROR:{type(e).__name__}"
    if r.trigger_request is not req:
        return "ERROR:trigger_request-not-set"
    try:
        if r.pdu != rb:  # what the caller (and the scan database) gets as "the reply" must be the bytes that were accepted
            return "ERROR:accepted-reply-re-encodes-differently"
    except Exception as e:  # noqa: BLE001
        return f"ERROR:accepted-reply-pdu-raises-{type(e).__name__}"
    return ACCEPT


def judge(res: Result, req: Any, qb: bytes, mode: str, kname: str, rb: bytes, src: str) -> None:
    res.count("evaluations")
    want, rclass = classify(qb, rb)
    got = observe(req, rb)
    res.seen("nontrivial", (qb, rb, mode))
    h = res.notes.setdefault("verdicts", {})
    h[got if not got.startswith("ERROR") else "ERROR"] = h.get(got if not got.startswith("ERROR") else "ERROR", 0) + 1
    if len(want) > 1:
        res.count("open_cases")
        o = res.notes.setdefault("open_case_outcomes", {})
        key = f"{rclass.split('|', 2)[-1]}:{got}"
        o[key] = o.get(key, 0) + 1
    if got in want:
        return
    owner = "any-request" if rclass.startswith("negative") or rclass == "positive|other-service" else kname
    # one signature per (request kind, reply class, wrong verdict); typed vs raw request is in the message only
    sclass = rclass
    if got == ACCEPT and rclass in ("positive|right-service|other-sub-function", "positive|right-service|undecodable|unknown-sub-function"):
        sclass = "positive|right-service|sub-function-differs"
    sig = f"C03|{owner}|{sclass}|got={got}"
    res.violate(
        sig,
        f"request {qb.hex()[:40]} ({kname}, {mode}), reply {rb.hex()[:40]} [{src}]: parse_pdu says {got}, statement demands {'/'.join(sorted(want))}",
        {"mode": "pair", "req": qb.hex(), "typed": mode == "typed", "kind": kname, "reply": rb.hex(), "src": src},
    )


# -- request / reply generation ------------------------------------------------------------


def build_request(kind: T.Kind, vals: dict[str, Any]) -> Any | None:
    """the typed gallia object for a table assignment, or None if gallia cannot build / serialise it."""
    s = G["service"]
    if not kind.req_cls or not hasattr(s, kind.req_cls):
        return None
    cls = getattr(s, kind.req_cls)
    kw: dict[str, Any] = {}
    for name, p in inspect.signature(cls.__init__).parameters.items():
        if name == "self":
            continue
        if name in vals:
            kw[name] = vals[name]
        elif p.default is inspect.Parameter.empty:
            kw[name] = 0
    try:
        obj = cls(**kw)
        obj.pdu  # noqa: B018
    except Exception:  # noqa: BLE001  (C01 territory; the raw twin still covers these bytes)
        return None
    return obj


def spread(seq: list[Any], n: int) -> list[Any]:
    if len(seq) <= n:
        return seq
    step = len(seq) / n
    return [seq[int(i * step)] for i in range(n)]


def genuine_replies(kind: T.Kind, qvals: dict[str, Any], n: int) -> list[bytes]:
    out: list[bytes] = []
    if kind.genuine_free is not None:
        free = kind.genuine_free(T.resolve(kind, "req", qvals))
        frees = [free] if free is not None else []
    else:
        frees = spread(list(T.value_sets(kind, "rsp", "small")), n)
    for free in frees:
        rv = T.genuine_response(kind, qvals, free)
        try:
            b = T.encode(kind, "rsp", rv)
        except T.OutOfRange:
            continue
        if b not in out:
            out.append(b)
    return out


def foreign_replies() -> list[bytes]:
    if "foreign" in G:
        return G["foreign"]
    s = G["service"]
    out: list[bytes] = []
    for k in T.KINDS:
        if k.dispatch:
            out.append(T.encode(k, "rsp", next(iter(T.value_sets(k, "rsp", "small")))))
    for key in s.UDSService._SERVICES:
        if key is not None and int(key) + 0x40 <= 0xFF:
            out += [bytes([int(key) + 0x40]), bytes([int(key) + 0x40, 0x00])]
    out += [b"\x00", b"\x3f\x00", b"\xff\xff", b"\xc0\x01"]
    G["foreign"] = out
    return out


def replies_for(kind: T.Kind | None, qb: bytes, qvals: dict[str, Any] | None, tier: str, rich: bool) -> list[tuple[str, bytes]]:
    sid = qb[0]
    out: list[tuple[str, bytes]] = []
    if kind is not None and qvals is not None:
        for g in genuine_replies(kind, qvals, 3 if tier == "quick" else 6):
            out.append(("genuine", g))
            for i in range(1, min(9, len(g))):
                for bit in range(8):
                    m = bytearray(g)
                    m[i] ^= 1 << bit
                    out.append((f"flip@{i}", bytes(m)))
            for n in range(1, min(len(g), 16)):
                out.append(("prefix", g[:n]))
            out += [("extended", g + b"\x00"), ("extended", g + b"\xff\xff")]
    if sid + 0x40 <= 0xFF:
        out += [("bare", bytes([sid + 0x40])), ("bare", bytes([sid + 0x40, 0x00])), ("bare", bytes([sid + 0x40, qb[1] & 0x7F if len(qb) > 1 else 0x01]))]
    out.append(("own-request", qb))
    for f in foreign_replies():
        if f[0] != sid + 0x40:
            out.append(("foreign", f))
    nrcs = list(range(256)) if tier == "thorough" else NRC_QUICK
    for nrc in nrcs:
        out.append(("negative", bytes([0x7F, sid, nrc])))
    others = [x for x in T.SIDS + UNKNOWN_SIDS if x != sid]
    for o in others:
        for nrc in nrcs if rich else [0x00, 0x11, 0x31, 0x78, sid, o, 0x8E, 0xFF]:
            out.append(("negative", bytes([0x7F, o, nrc])))
    for o in [sid] + others[:6]:
        out += [("negative-short", bytes([0x7F, o])), ("negative-long", bytes([0x7F, o, 0x31, 0x00])),
                ("negative-long", bytes([0x7F, o, sid, 0x00])), ("negative-long", bytes([0x7F, o, 0x31, 0x00, 0x00]))]
    out.append(("negative-short", b"\x7f"))
    return out


# -- items ------------------------------------------------------------------------------------


def items(tier: str, seed: int) -> list[tuple[Any, ...]]:
    out: list[tuple[Any, ...]] = [("meta",), ("totality",)]
    for k in T.KINDS:
        out.append(("kind", k.name, tier))
        out.append(("matches", k.name))
    out.append(("raw", tier))
    for k in T.KINDS:
        out.append(("reuse", k.name, tier))
    out.append(("reuse-chain", tier))
    return out


def run_kind(res: Result, kind: T.Kind, tier: str) -> None:
    s = G["service"]
    allv = list(T.value_sets(kind, "req", "small"))
    chosen = spread(allv, 12 if tier == "quick" else 40)
    for idx, vals in enumerate(chosen):
        ref = T.encode(kind, "req", vals)
        obj = build_request(kind, vals)
        reqs: list[tuple[Any, str]] = []
        if obj is not None:
            reqs.append((obj, "typed"))
        else:
            res.count("requests_not_constructible")
        raw = s.RawRequest(ref)
        reqs.append((raw, "raw"))
        for req, mode in reqs:
            qb = req.pdu
            # what the bytes on the wire denote (for a typed object with a C01 defect these are not ``ref``)
            kq = T.find("req", qb)
            try:
                qv = T.decode(kq, "req", qb) if kq is not None else None
            except T.Reject:
                qv = None
            for src, rb in replies_for(kq, qb, qv, tier, rich=(idx == 0)):
                judge(res, req, qb, mode, kind.name, rb, src)
            # genuine replies to OTHER requests of the same kind (a stale reply after the parameters changed): judged by the table
            for j, other in enumerate(chosen):
                if j == idx:
                    continue
                for rb in genuine_replies(kind, other, 2):
                    res.count("replies_to_other_requests_of_the_kind")
                    judge(res, req, qb, mode, kind.name, rb, "other-request-of-same-kind")
        if idx == 0:
            g = genuine_replies(kind, vals, 1)
            res.sample({"kind": kind.name, "request": ref.hex()[:40], "genuine_reply": g[0].hex()[:40] if g else None}, cap=1)


def run_raw(res: Result, tier: str) -> None:
    s = G["service"]
    pdus = [b"\x00", b"\x3f\x01", b"\xba\x01\x02", b"\x81\x01",  # unknown services
            b"\x22", b"\x22\x12", b"\x19\x03\xff", b"\x19\x55", b"\x2c\x04\xf2\x00", b"\x31\x04\x12\x34", b"\x23\x00\x00\x00",
            b"\x10", b"\x27", b"\x3e\x01", b"\x84\x01\x02", b"\x86\x05", b"\x24\xf1\x90", b"\x2a\x01\xf2", b"\x38\x01"]  # fmt: skip
    for p in pdus:
        req = s.RawRequest(p)
        for src, rb in replies_for(None, p, None, tier, rich=False):
            judge(res, req, p, "raw", "raw:" + ("unknown-service" if not T.known_service("req", p) else "unparsable"), rb, src)
        # right-service positive replies for requests the table cannot decode: at least never an internal error
        for tail in (b"", b"\x00", p[1:2] or b"\x01", p[1:] + b"\xaa"):
            if p[0] + 0x40 <= 0xFF:
                judge(res, req, p, "raw", "raw", bytes([p[0] + 0x40]) + tail, "right-service")


# -- histories: one request object re-used and modified between probes ------------------------
#
# The verdict is a function of the request's current bytes and the reply.  A request object that
# went through parse_pdu before and was then modified (``RawRequest.pdu`` setter, attribute
# setters of the typed classes) must get the verdict a fresh object with the same bytes gets.


def reuse_step(res: Result, req: Any, hist: list[str], typed: bool, kname: str, replies: list[bytes]) -> None:
    s = G["service"]
    qb = req.pdu
    for rb in replies:
        res.count("evaluations")
        res.count("reuse_evaluations")
        res.seen("nontrivial", ("reuse", tuple(hist), rb))
        fresh = observe(s.RawRequest(qb), rb)
        got = observe(req, rb)
        if got != fresh:
            res.violate(
                f"C03|{kname}|reused-request-object|fresh={fresh}|reused={got}",
                f"request object re-used after {len(hist) - 1} earlier probe(s) ({' -> '.join(h[:24] for h in hist)}), reply {rb.hex()[:40]}: "
                f"parse_pdu says {got}, a fresh object with the same bytes gets {fresh}",
                {"mode": "reuse", "typed": typed, "kind": kname, "states": hist, "reply": rb.hex()},
            )


def mutate_typed(obj: Any, kind: T.Kind, vals: dict[str, Any], want: bytes) -> bool:
    for name, v in vals.items():
        if hasattr(obj, name):
            try:
                setattr(obj, name, v)
            except Exception:  # noqa: BLE001
                return False
    try:
        return bool(obj.pdu == want)
    except Exception:  # noqa: BLE001
        return False


def run_reuse(res: Result, kind: T.Kind, tier: str) -> None:
    s = G["service"]
    chosen = spread(list(T.value_sets(kind, "req", "small")), 5 if tier == "quick" else 9)
    enc = [T.encode(kind, "req", v) for v in chosen]
    gen = [genuine_replies(kind, v, 2) for v in chosen]
    for i, va in enumerate(chosen):
        for j, vb in enumerate(chosen):
            if i == j or enc[i] == enc[j]:
                continue
            replies = gen[j] + gen[i] + [bytes([0x7F, kind.sid, 0x31])]
            raw = s.RawRequest(enc[i])
            for g in gen[i][:1]:
                observe(raw, g)
            raw.pdu = enc[j]
            reuse_step(res, raw, [enc[i].hex(), enc[j].hex()], False, kind.name, replies)
            obj = build_request(kind, va)
            if obj is None or obj.pdu != enc[i]:
                continue
            for g in gen[i][:1]:
                observe(obj, g)
            if not mutate_typed(obj, kind, vb, enc[j]):
                res.count("reuse_typed_not_settable")
                # the object must stay self-consistent: if every field reads back as the new value, its bytes must say so too
                # (a serialisation cached before the change would make every later probe go out with the old bytes)
                try:
                    reads_back = all(getattr(obj, n) == val for n, val in vb.items() if hasattr(obj, n)) and any(hasattr(obj, n) and va.get(n) != val for n, val in vb.items())
                    stale = reads_back and obj.pdu == enc[i]
                except Exception:  # noqa: BLE001
                    stale = False
                if stale:
                    res.violate(
                        f"C03|{kind.name}|reused-request-object|bytes-do-not-follow-fields",
                        f"{type(obj).__name__}: after serialising {enc[i].hex()[:40]} the fields were set to {vb} and read back as set, but .pdu is still {obj.pdu.hex()[:40]} (a fresh object gives {enc[j].hex()[:40]})",
                        {"mode": "reuse", "typed": True, "kind": kind.name, "states": [enc[i].hex(), enc[j].hex()], "reply": (gen[j] or [b"\x7f\x00\x31"])[0].hex()},
                    )
                continue
            res.count("reuse_typed_mutations")
            reuse_step(res, obj, [enc[i].hex(), enc[j].hex()], True, kind.name, replies)


def run_reuse_chain(res: Result, tier: str) -> None:
    """one RawRequest object walked through every request kind, forwards and backwards"""
    s = G["service"]
    states: list[tuple[T.Kind, bytes, list[bytes]]] = []
    for k in T.KINDS:
        vs = list(T.value_sets(k, "req", "small"))
        for v in spread(vs, 2):
            states.append((k, T.encode(k, "req", v), genuine_replies(k, v, 1)))
    for order in (states, states[::-1]):
        raw = s.RawRequest(order[0][1])
        hist: list[str] = []
        prev: list[bytes] = []
        for k, qb, gen in order:
            raw.pdu = qb
            hist.append(qb.hex())
            reuse_step(res, raw, hist[-18:], False, k.name, gen + prev + [bytes([0x7F, qb[0], 0x31])])
            prev = gen


# -- direct matches() --------------------------------------------------------------------------


def run_matches(res: Result, kind: T.Kind) -> None:
    s = G["service"]
    if not kind.rsp_cls or not kind.req_cls or not hasattr(s, kind.rsp_cls) or not hasattr(s, kind.req_cls):
        return
    rcls = getattr(s, kind.rsp_cls)
    for vals in spread(list(T.value_sets(kind, "req", "small")), 8):
        req = build_request(kind, vals)
        if req is None:
            continue
        qv = T.resolve(kind, "req", vals)
        for g in genuine_replies(kind, vals, 2):
            rv = T.decode(kind, "rsp", g)
            if kind.dispatch:
                try:
                    rsp = rcls.from_pdu(g)
                except Exception:  # noqa: BLE001  (C02 territory)
                    continue
            else:
                # convenience classes are not reachable through the parsers: build from field values
                kw = {n: rv[n] for n in inspect.signature(rcls.__init__).parameters if n in rv}
                try:
                    rsp = rcls(**kw)
                except Exception:  # noqa: BLE001
                    continue
            res.count("evaluations")
            res.count("direct_matches")
            res.seen("nontrivial", ("matches", kind.name, req.pdu, g))
            rp = {"mode": "matches", "kind": kind.name, "req": req.pdu.hex(), "reply": g.hex()}
            try:
                ok = rsp.matches(req)
            except Exception as e:  # noqa: BLE001
                res.violate(f"C03|{kind.rsp_cls}|matches-direct|raises|{type(e).__name__}", f"{kind.rsp_cls}.matches raised {e!r}", rp)
                continue
            if T.echo_status(kind, qv, rv) == "equal" and not ok:
                res.violate(f"C03|{kind.rsp_cls}|matches-direct|genuine-refused", f"{kind.rsp_cls}({g.hex()[:40]}).matches({kind.req_cls}({req.pdu.hex()[:40]})) is False for the genuine reply", rp)
            # a request of another service never matches
            other = s.TesterPresentRequest() if kind.sid != 0x3E else s.ECUResetRequest(1)
            try:
                if rsp.matches(other):
                    res.violate(f"C03|{kind.rsp_cls}|matches-direct|foreign-request-accepted", f"{kind.rsp_cls}.matches({type(other).__name__}) is True", rp)
            except Exception as e:  # noqa: BLE001
                res.violate(f"C03|{kind.rsp_cls}|matches-direct|raises|{type(e).__name__}", f"{kind.rsp_cls}.matches(foreign) raised {e!r}", rp)


# -- totality of the NRC -> exception map -----------------------------------------------------


def run_totality(res: Result) -> None:
    s, ex, h = G["service"], G["exception"], G["helpers"]
    codes = list(G["constants"].UDSErrorCodes)
    req = s.ReadDataByIdentifierRequest(0x1234)
    seen_classes: dict[Any, int] = {}
    for code in codes:
        res.count("evaluations")
        res.count("nrc_map_entries")
        res.seen("nontrivial", ("nrc", int(code)))
        rp = {"mode": "nrc", "code": int(code)}
        neg = s.NegativeResponse(0x22, code)
        neg.trigger_request = req
        try:
            e = ex.UnexpectedNegativeResponse.parse_dynamic(req, neg, None)
        except Exception as err:  # noqa: BLE001
            res.violate(f"C03|nrc-map|missing|{int(code):#04x}", f"no exception class for {code.name}: {err!r}", rp)
            continue
        if not isinstance(e, ex.UnexpectedNegativeResponse) or type(e).RESPONSE_CODE != code or e.response is not neg:
            res.violate(f"C03|nrc-map|wrong-class|{int(code):#04x}", f"{code.name} maps to {type(e).__name__} (RESPONSE_CODE {getattr(type(e), 'RESPONSE_CODE', None)!r})", rp)
        if type(e) in seen_classes:
            res.violate(f"C03|nrc-map|shared-class|{int(code):#04x}", f"{code.name} and {seen_classes[type(e)]:#x} share {type(e).__name__}", rp)
        seen_classes[type(e)] = int(code)
        try:
            h.raise_for_error(neg)
            res.violate(f"C03|nrc-map|raise_for_error-silent|{int(code):#04x}", f"raise_for_error did not raise for {code.name}", rp)
        except ex.UnexpectedNegativeResponse as e2:
            if type(e2) is not type(e):
                res.violate(f"C03|nrc-map|raise_for_error-class|{int(code):#04x}", f"{type(e2).__name__}", rp)
        # and the whole chain: bytes -> parse_pdu -> exception
        got = observe(req, bytes([0x7F, 0x22, int(code)]))
        if got != ACCEPT:
            res.violate(f"C03|nrc-map|reply-refused|{int(code):#04x}", f"7F 22 {int(code):02x} -> {got}", rp)
    gal = {int(c) for c in codes}
    res.notes["nrc_defined_by_iso_table_not_in_gallia"] = sorted(f"{x:#04x}" for x in T.ISO_NRC - gal)
    res.notes["nrc_in_gallia_not_in_iso_table"] = sorted(f"{x:#04x}" for x in gal - T.ISO_NRC)


# -- run -------------------------------------------------------------------------------------


def run_item(item: tuple[Any, ...]) -> Result:
    res = Result()
    what = item[0]
    if what == "meta":
        res.notes["table_examples_checked"] = T.selftest()
        return res
    if what == "totality":
        run_totality(res)
        return res
    if what == "raw":
        run_raw(res, item[1])
        return res
    if what == "reuse-chain":
        run_reuse_chain(res, item[1])
        return res
    kind = T.BY_NAME[item[1]]
    if what == "reuse":
        run_reuse(res, kind, item[2])
    elif what == "kind":
        run_kind(res, kind, item[2])
    elif what == "matches":
        run_matches(res, kind)
    else:
        raise Broken(f"unknown item {item!r}")
    return res


def replay(doc: dict[str, Any]) -> Result:
    res = Result()
    s = G["service"]
    if doc["mode"] == "pair":
        qb, rb = bytes.fromhex(doc["req"]), bytes.fromhex(doc["reply"])
        req = s.UDSRequest.parse_dynamic(qb) if doc["typed"] else s.RawRequest(qb)
        if doc["typed"] and isinstance(req, s.RawRequest):
            # typed object whose own bytes do not parse back (C01 defect): rebuild it through the table
            k = T.BY_NAME[doc["kind"]]
            for vals in T.value_sets(k, "req", "small"):
                o = build_request(k, vals)
                if o is not None and o.pdu == qb:
                    req = o
                    break
        want, rclass = classify(qb, rb)
        print(f"   request {qb.hex()} as {type(req).__name__}; reply {rb.hex()}; class {rclass}; admissible {sorted(want)}; observed {observe(req, rb)}")
        judge(res, req, qb, "typed" if doc["typed"] else "raw", doc["kind"], rb, doc.get("src", "replay"))
    elif doc["mode"] == "reuse":
        states = [bytes.fromhex(x) for x in doc["states"]]
        rb = bytes.fromhex(doc["reply"])
        req = s.RawRequest(states[0])
        if doc["typed"]:
            k = T.BY_NAME[doc["kind"]]
            allv = list(T.value_sets(k, "req", "small"))
            va = next(v for v in allv if T.encode(k, "req", v) == states[0])
            vb = next(v for v in allv if T.encode(k, "req", v) == states[-1])
            req = build_request(k, va)
            observe(req, (genuine_replies(k, va, 1) or [b"\x7f\x00\x31"])[0])
            mutate_typed(req, k, vb, states[-1])
        else:
            for st in states:
                req.pdu = st
                observe(req, bytes([(st[0] + 0x40) & 0xFF]) + st[1:])
            req.pdu = states[-1]
        print(f"   request object walked through {[x.hex() for x in states]}; reply {rb.hex()}; fresh object: {observe(s.RawRequest(states[-1]), rb)}; re-used object: {observe(req, rb)}")
        reuse_step(res, req, doc["states"], doc["typed"], doc["kind"], [rb])
    elif doc["mode"] == "matches":
        run_matches(res, T.BY_NAME[doc["kind"]])
    elif doc["mode"] == "nrc":
        run_totality(res)
    return res


def finish(merged: Result, tier: str) -> dict[str, Any]:
    c = merged.counters
    v = merged.notes.get("verdicts", {})
    for key in (ACCEPT, MISMATCH, MALFORMED):
        if v.get(key, 0) < 1000:
            raise Broken(f"vacuous: verdict {key} observed only {v.get(key, 0)} times")
    if c.get("nrc_map_entries", 0) < 50 or c.get("direct_matches", 0) < 100:
        raise Broken("vacuous: NRC map / direct matches() barely exercised")
    return {"bound": {"nrc_values": 256 if tier == "thorough" else len(NRC_QUICK), "requests_per_kind": 12 if tier == "quick" else 40}}
