"""C02 - decoded UDS responses expose the received fields and re-encode to the same bytes.

Engine B.  Byte strings from four sources (table-generated valid responses, the exhaustive
short byte space per response SID, the mutation neighbourhood of valid responses, typed
construction) are run through the real ``UDSResponse.parse_dynamic``; the oracle is the
decoder / acceptance predicate derived from the independent layout table.
"""

from __future__ import annotations

import inspect
import itertools
from datetime import UTC, datetime
from pathlib import Path
from typing import Any

from vf.engine.runner import Broken, Result
from vf.ref import iso14229 as T

ID = "C02"
LEVEL = "exploration"
RULE = (
    "(a) every valid positive response of every kind of the ISO 14229-1 layout table (Cartesian product of the "
    "per-field boundary alphabets, widths 1..15, 0..3|4 records, records of 0,1,2,300,4096 (thorough also 5000) bytes) and 7F x all SIDs of "
    "the table x all 256 NRC bytes; (b) ALL byte strings of length 1..3 whose first byte is SID+0x40 of a service "
    "registered in UDSService._SERVICES or 0x7F (quick: third byte restricted to 16 boundary values); (c) mutation "
    "neighbourhood of (a) on the 2-3-value (quick) or 5-value (thorough) alphabets: every proper prefix, extension by 00/FF, every single-bit flip in "
    "the first 8 bytes; (d) typed construction of every response class from field values followed by .pdu; (e) DB request column for one request per kind and length incl. > 4095 bytes. "
    "evaluation = one byte string parsed (a-c) or one construction (d); non-trivial = distinct byte strings for "
    "which parse_dynamic returned a TYPED response (the oracle's field/re-encode comparison was executed)"
)
ASSUMPTIONS = [
    "vf/ref/iso14229.py is the trusted statement of the ISO 14229-1 layouts; it is lenient where the standard makes "
    "a parameter conditional on off-wire knowledge, so 'table rejects' means every edition rejects",
    "a parser exception or a Raw*Response counts as 'rejected / kept raw' and is always admissible",
    "the DB clause is observed by calling the real DBHandler.insert_scan_result with a capturing queue (no sqlite)",
    "record boundaries that are not on the wire (multi-DID RDBI answers, several ext-data records) are compared as "
    "'first identifier + rest', which is also what gallia documents",
]
CHUNK = 1

G: dict[str, Any] = {}
THIRD_QUICK = [0x00, 0x01, 0x02, 0x03, 0x0F, 0x10, 0x11, 0x21, 0x31, 0x40, 0x78, 0x7F, 0x80, 0x81, 0xFE, 0xFF]


def worker_init() -> None:
    import logging

    import gallia.command  # noqa: F401
    from gallia.db import handler
    from gallia.db.log import LogMode
    from gallia.services.uds.core import service

    logging.disable(logging.CRITICAL)
    G["service"] = service
    G["handler"] = handler
    G["LogMode"] = LogMode

    # A real DBHandler, connected for real (sqlite3 behind vf.engine.dbshim on a virtual loop). Only public API is used;
    # the writer queue is found by type, so private attribute names of DBHandler do not matter.
    import asyncio
    import os

    from vf.engine import dbshim, seams
    from vf.engine.explore import Policy, Run, run_once

    seams.patch_gallia(db=True)
    dbdir = Path(f"/dev/shm/vf-c02-{os.getppid()}")
    dbdir.mkdir(parents=True, exist_ok=True)
    dbpath = dbdir / f"c02-{os.getpid()}.sqlite"
    for suffix in ("", "-wal", "-shm"):
        try:
            os.unlink(str(dbpath) + suffix)
        except FileNotFoundError:
            pass
    db = handler.DBHandler(dbpath)

    class Cfg:
        def model_dump_json(self) -> str:
            return "{}"

    def scenario(run: Run) -> None:
        run.add_actor(dbshim.DbWorker())

        async def main() -> None:
            await db.connect()
            await db.insert_run_meta("vf.c02", Cfg(), datetime(2026, 1, 1, tzinfo=UTC), None)
            await db.insert_scan_run("c02://ecu")

        t = run.loop.create_task(main())
        run.done = t.done

    r = run_once(scenario, [], Policy())
    if r.status != "done":
        raise Broken(f"could not connect the DBHandler: {r.status}")
    queues = [v for v in vars(db).values() if isinstance(v, asyncio.Queue)]
    if len(queues) != 1:
        raise Broken(f"DBHandler has {len(queues)} asyncio.Queue attributes after connect(); expected exactly one writer queue")
    G["queue"] = queues[0]
    G["db"] = db
    G["trigger"] = service.TesterPresentRequest()
    G["when"] = datetime(2026, 1, 1, tzinfo=UTC)


def drive(coro: Any) -> Any:
    try:
        coro.send(None)
    except StopIteration as e:
        return e.value
    coro.close()
    raise Broken("DB coroutine suspended")


def _take_row() -> dict[str, Any]:
    """the INSERT the handler queued for its writer task, as column -> parameter"""
    q = G["queue"]
    items = []
    while not q.empty():
        items.append(q.get_nowait())
    if len(items) != 1:
        raise Broken(f"insert_scan_result queued {len(items)} statements")
    item = items[0]
    query = next((x for x in item if isinstance(x, str)), None)
    params = next((x for x in item if isinstance(x, tuple | list)), None)
    if params is None:
        # parameters handed over lazily (a callable evaluated by the writer task): evaluate them now
        for x in item:
            if callable(x):
                try:
                    val = x()
                except Exception:  # noqa: BLE001
                    continue
                if isinstance(val, tuple | list):
                    params = val
                    break
    if query is None or params is None:
        raise Broken("cannot interpret what insert_scan_result handed to its writer task (statement + parameters expected)")
    cols = [c.strip() for c in query[query.index("(") + 1 : query.index(")")].split(",")]
    if len(cols) != len(params):
        raise Broken("cannot map the queued INSERT to its columns")
    return dict(zip(cols, params, strict=True))


def stored_hex(resp: Any) -> tuple[str | None, str | None]:
    """what the real insert_scan_result would write into scan_result.response_pdu; (value, error)"""
    db = G["db"]
    while not G["queue"].empty():
        G["queue"].get_nowait()
    try:
        drive(db.insert_scan_result({}, G["trigger"], resp, None, G["when"], G["when"], G["LogMode"].implicit))
    except Broken:
        raise
    except Exception as e:  # noqa: BLE001  (observation: the row cannot be built)
        return None, type(e).__name__
    # the row describes the reply as it was when it was logged: a caller that goes on working with the object afterwards
    # (before the writer task gets to the row) must not change what is stored
    undo: list[tuple[str, Any]] = []
    for attr in ("data_record", "pdu"):
        try:
            old = getattr(resp, attr)
            if isinstance(old, bytes) and type(resp).__dict__.get(attr) is not None and getattr(type(resp).__dict__[attr], "fset", None) is not None:
                setattr(resp, attr, old + b"\xee")
                undo.append((attr, old))
                break
        except Exception:  # noqa: BLE001
            continue
    try:
        return _take_row()["response_pdu"], None
    finally:
        for attr, old in undo:
            setattr(resp, attr, old)


def stored_request_hex(req: Any) -> tuple[str | None, str | None]:
    """what the real insert_scan_result would write into scan_result.request_pdu; (value, error)"""
    db = G["db"]
    while not G["queue"].empty():
        G["queue"].get_nowait()
    try:
        drive(db.insert_scan_result({}, req, None, None, G["when"], None, G["LogMode"].implicit))
    except Broken:
        raise
    except Exception as e:  # noqa: BLE001
        return None, type(e).__name__
    return _take_row()["request_pdu"], None


# -- discovery -----------------------------------------------------------------------


def registered_response_sids() -> list[int]:
    s = G["service"]
    return sorted(int(k) + 0x40 for k in s.UDSService._SERVICES if k is not None and int(k) + 0x40 <= 0xFF)


def response_classes() -> list[Any]:
    s = G["service"]
    import abc

    out = []
    for name, c in vars(s).items():
        if not (inspect.isclass(c) and issubclass(c, s.UDSResponse) and c.__module__ == s.__name__):
            continue
        if inspect.isabstract(c) or abc.ABC in c.__bases__ or name.startswith("_"):
            continue
        if issubclass(c, s.RawResponse):
            continue
        out.append(c)
    return out


# -- items --------------------------------------------------------------------------


def items(tier: str, seed: int) -> list[tuple[Any, ...]]:
    if not G:
        worker_init()
    out: list[tuple[Any, ...]] = [("meta",)]
    nsh = 4 if tier == "quick" else 16
    for k in T.KINDS:
        big = any(isinstance(f, T.ALFID | T.LFID) for f in k.rsp)
        for i in range(nsh if big else 1):
            out.append(("valid", k.name, tier, i, nsh if big else 1))
        out.append(("mutate", k.name, tier))
        out.append(("construct", k.name, tier))
    out.append(("negative", tier))
    out.append(("db-request", tier))
    for sid in registered_response_sids() + [0x7F]:
        if tier == "quick":
            out.append(("space", sid, 0, 256, "q"))
        else:
            for lo in range(0, 256, 32):
                out.append(("space", sid, lo, lo + 32, "t"))
    for c in response_classes():
        if c.__name__ not in T.rsp_kinds_by_cls():
            out.append(("class-unknown", c.__name__))
    return out


# -- oracle ---------------------------------------------------------------------------


def canon(v: Any) -> Any:
    if isinstance(v, dict):
        return [[canon(a), canon(b)] for a, b in v.items()]
    if isinstance(v, list | tuple):
        return [canon(x) for x in v]
    if isinstance(v, bool):
        return v
    if isinstance(v, int):
        return int(v)
    if isinstance(v, bytearray):
        return bytes(v)
    return v


def reject_class(reason: str) -> str:
    return reason.split(":")[0]


def judge(res: Result, b: bytes, src: str) -> str:
    """parse one byte string with the real parser and apply the oracle; returns 'typed' | 'raw' | 'rejected'."""
    s = G["service"]
    res.count("evaluations")
    rp = {"mode": "bytes", "hex": b.hex(), "src": src}
    # the static entry point (<ResponseClass>.parse_static, used by the discovery scanners): whatever it accepts re-encodes identically
    k0 = T.find("rsp", b) if b[:1] != b"\x7f" else None
    if k0 is not None and k0.rsp_cls and hasattr(s, k0.rsp_cls) and hasattr(getattr(s, k0.rsp_cls), "parse_static"):
        try:
            o = getattr(s, k0.rsp_cls).parse_static(b)
            p0: bytes | None = o.pdu
        except Exception:  # noqa: BLE001  (rejection is always admissible)
            p0 = None
        if p0 is not None:
            res.count("parse_static_accepted")
            if p0 != b:
                res.violate(f"C02|{k0.rsp_cls}|parse_static|re-encode-differs", f"{k0.rsp_cls}.parse_static({b.hex()[:60]}) accepts and re-encodes as {p0.hex()[:60]}", rp)
    try:
        r = s.UDSResponse.parse_dynamic(b)
    except Exception:  # noqa: BLE001  (rejection is always admissible)
        res.count("rejected")
        return "rejected"
    cn = type(r).__name__
    if isinstance(r, s.RawResponse):
        res.count("kept_raw")
        if r.pdu != b:
            res.violate(f"C02|{cn}|raw-bytes-changed", f"raw response of {b.hex()[:40]} has pdu {r.pdu.hex()[:40]}", rp)
        return "raw"
    res.count("typed")
    res.seen("nontrivial", b)
    kind = T.find("rsp", b)
    if kind is None or kind.rsp_cls != cn:
        # a typed class the table cannot speak about
        res.uncovered.add(f"typed response {cn} for {b[:2].hex()}")
        return "typed"
    try:
        want: dict[str, Any] | None = T.decode(kind, "rsp", b)
        why = ""
    except T.Reject as e:
        want, why = None, str(e.args[0])
    try:
        again: bytes | None = r.pdu
        perr = ""
    except Exception as e:  # noqa: BLE001
        again, perr = None, type(e).__name__
    if want is None:
        how = "re-encodes-differently" if again != b else "re-encodes-identically"
        res.violate(
            f"C02|{cn}|ill-formed-accepted|{reject_class(why)}|{how}",
            f"{b.hex()[:60]} breaks the {kind.name} layout ({why}) but is accepted as {cn}; .pdu -> {again.hex()[:60] if again is not None else perr}",
            rp,
        )
        return "typed"
    # every field the layout defines must be exposed with the value found at its position
    wrong_fields: list[str] = []
    for n, v in list(want.items()) + [(n, f(want)) for n, f in kind.derived.items()]:
        if not hasattr(r, n):
            res.uncovered.add(f"{cn}: no attribute {n}")
            continue
        got = getattr(r, n)
        if canon(got) != canon(v):
            wrong_fields.append(n)
            res.violate(f"C02|{cn}|field|{n}", f"{b.hex()[:60]}: {n} exposed as {got!r}, layout places {v!r} there" + (f"; .pdu -> {again.hex()[:60]}" if again is not None else ""), rp)
    if again is None:
        res.violate(f"C02|{cn}|pdu-raises|{perr}", f"accepted {b.hex()[:60]} cannot be re-serialised ({perr})", rp)
    elif again != b:
        where = first_field(kind, b, again)
        if where in wrong_fields:
            res.count("re_encode_differs_in_misdecoded_field")  # same defect, already reported as field violation
        else:
            res.violate(f"C02|{cn}|re-encode-differs|{where}", f"received {b.hex()[:60]}, .pdu gives {again.hex()[:60]}", rp)
    # every public attribute must be one the layout explains
    known = set(want) | set(kind.derived) | {"trigger_request"}
    for a in vars(r):
        if not a.startswith("_") and a not in known:
            res.uncovered.add(f"{cn}.{a} not described by the table")
    # database: stores the re-serialised form as 'what the ECU sent'
    if again is not None:
        stored, err = stored_hex(r)
        if err is not None:
            res.count("db_row_not_buildable")
            lst = res.notes.setdefault("db_insert_raises", [])
            tag = f"{cn}:{err}"
            if tag not in lst:
                lst.append(tag)
            stored = G["handler"].bytes_repr(again)
        if stored != b.hex():
            if again == b:
                res.violate(f"C02|{cn}|db-stored-differs", f"received {b.hex()[:60]}, DB would store {str(stored)[:60]}", rp)
            else:
                res.count("db_stores_normalised_bytes")
    return "typed"


def first_field(kind: T.Kind, b: bytes, again: bytes) -> str:
    pos = next((i for i, (x, y) in enumerate(zip(b, again)) if x != y), min(len(b), len(again)))
    ctx: dict[str, Any] = {}
    vals: dict[str, Any] = {}
    off = 1
    for f in kind.rsp:
        try:
            nxt = f.dec(b, off, vals, ctx)
        except T.Reject:
            break
        if pos < nxt or f is kind.rsp[-1]:
            return f.names[0] if f.names else "const"
        off = nxt
    return "tail"


# -- typed construction (d) --------------------------------------------------------------


def adapt(p: inspect.Parameter, v: Any) -> Any:
    ann = str(p.annotation)
    if isinstance(v, list) and v and isinstance(v[0], tuple) and "dict[" in ann:
        return dict(v)
    if isinstance(v, list) and "dict[" in ann:
        return dict(v)
    return v


def construct(res: Result, kind: T.Kind, cls: Any, vals: dict[str, Any]) -> None:
    cn = cls.__name__
    sig = inspect.signature(cls.__init__)
    kw: dict[str, Any] = {}
    for name, p in sig.parameters.items():
        if name == "self":
            continue
        if name in vals:
            if isinstance(vals[name], list) and vals[name] and isinstance(vals[name][0], tuple):
                if len({t[0] for t in vals[name]}) != len(vals[name]) and "dict[" in str(p.annotation):
                    return  # a mapping parameter cannot carry the same key twice: not constructible by design
            kw[name] = adapt(p, vals[name])
        elif name in kind.derived:
            kw[name] = kind.derived[name](vals)
        elif p.default is inspect.Parameter.empty:
            res.uncovered.add(f"{cn}({name}) not described by the table")
            return
    res.count("evaluations")
    res.count("constructions")
    rp = {"mode": "construct", "kind": kind.name, "vals": freeze(vals)}
    try:
        ref = T.encode(kind, "rsp", vals)
    except T.OutOfRange:
        raise Broken(f"generator produced an unencodable assignment for {kind.name}") from None
    try:
        obj = cls(**kw)
    except Exception as e:  # noqa: BLE001
        # refusing to construct is 'rejected' - admissible, but counted (gallia stricter than the lenient table)
        res.count("construct_refused")
        _ = e
        return
    try:
        pdu = obj.pdu
    except Exception as e:  # noqa: BLE001
        res.violate(f"C02|{cn}|construct-pdu-raises|{type(e).__name__}", f"{cn}({show(kw)}) cannot be serialised: {e!r} (ISO: {ref.hex()[:60]})", rp)
        return
    res.seen("nontrivial", (cn, ref))
    if pdu != ref:
        res.violate(f"C02|{cn}|construct-wrong-bytes|{first_field(kind, ref, pdu)}", f"{cn}({show(kw)}).pdu == {pdu.hex()[:60]} but ISO layout is {ref.hex()[:60]}", rp)


def show(kw: dict[str, Any]) -> str:
    def r(v: Any) -> str:
        if isinstance(v, bytes):
            return v.hex() if len(v) <= 8 else f"<{len(v)} bytes>"
        if isinstance(v, bool) or v is None:
            return repr(v)
        if isinstance(v, int):
            return hex(v)
        if isinstance(v, dict):
            return "{" + ",".join(f"{r(a)}:{r(b)}" for a, b in v.items()) + "}"
        if isinstance(v, list | tuple):
            return "[" + ",".join(r(x) for x in v) + "]"
        return repr(v)

    return " ".join(f"{n}={r(v)}" for n, v in kw.items())


def freeze(v: Any) -> Any:
    if isinstance(v, bytes | bytearray):
        return {"hex": bytes(v).hex()}
    if isinstance(v, dict):
        return {k: freeze(x) for k, x in v.items()}
    if isinstance(v, tuple):
        return {"tuple": [freeze(x) for x in v]}
    if isinstance(v, list):
        return [freeze(x) for x in v]
    return v


def thaw(v: Any) -> Any:
    if isinstance(v, dict) and set(v) == {"hex"}:
        return bytes.fromhex(v["hex"])
    if isinstance(v, dict) and set(v) == {"tuple"}:
        return tuple(thaw(x) for x in v["tuple"])
    if isinstance(v, dict):
        return {k: thaw(x) for k, x in v.items()}
    if isinstance(v, list):
        return [thaw(x) for x in v]
    return v


# -- mutation neighbourhood ------------------------------------------------------------


def neighbours(b: bytes, deep: bool) -> list[bytes]:
    out: list[bytes] = []
    cuts = range(1, len(b)) if len(b) <= 24 or deep else list(range(1, 13)) + list(range(len(b) - 8, len(b)))
    for n in cuts:
        out.append(b[:n])
    out += [b + b"\x00", b + b"\xff"]
    if deep:
        out += [b + b"\x00\x00", b + b"\xff\xff\xff"]
    for i in range(min(8, len(b))):
        for bit in range(8):
            m = bytearray(b)
            m[i] ^= 1 << bit
            out.append(bytes(m))
    return out


# -- run --------------------------------------------------------------------------------


def run_item(item: tuple[Any, ...]) -> Result:
    res = Result()
    s = G["service"]
    what = item[0]
    hist = res.notes.setdefault("outcomes_by_source", {})

    def tally(src: str, out: str) -> None:
        key = f"{src}:{out}"
        hist[key] = hist.get(key, 0) + 1

    if what == "meta":
        res.notes["table_examples_checked"] = T.selftest()
        res.notes["registered_response_sids"] = [f"{x:02x}" for x in registered_response_sids()]
        res.notes["response_classes"] = len(response_classes())
        for k in T.KINDS:
            if k.rsp_cls and not hasattr(s, k.rsp_cls):
                res.uncovered.add(f"table row {k.name}: no class {k.rsp_cls}")
        # registered services for which the table has no row (their responses stay raw in gallia)
        for sid in registered_response_sids():
            if sid - 0x40 not in T.SIDS:
                res.uncovered.add(f"registered service {sid - 0x40:#04x} not in the table")
        return res
    if what == "class-unknown":
        res.uncovered.add(f"response class {item[1]}")
        return res
    if what == "space":
        _, sid, lo, hi, mode = item
        thirds = THIRD_QUICK if mode == "q" else range(256)
        if lo == 0:
            tally("space", judge(res, bytes([sid]), "space"))
        for b1 in range(lo, hi):
            tally("space", judge(res, bytes([sid, b1]), "space"))
            for b2 in thirds:
                tally("space", judge(res, bytes([sid, b1, b2]), "space"))
        return res
    if what == "db-request":
        # the request column of the same row: the bytes of every request shape with a trailing record (all record
        # lengths of the alphabet, incl. > 4095 bytes), stored through the real insert_scan_result
        tier = item[1]
        for k in T.KINDS:
            if not k.dispatch or not any(isinstance(f, T.B) for f in k.req):
                continue
            done: set[int] = set()
            for vals in T.value_sets(k, "req", tier):
                b = T.encode(k, "req", vals)
                if len(b) in done:
                    continue
                done.add(len(b))
                res.count("evaluations")
                res.count("db_request_rows")
                res.seen("nontrivial", ("db-request", b))
                stored, err = stored_request_hex(s.RawRequest(b))
                if err is not None or stored != b.hex():
                    res.violate(
                        f"C02|db-request-stored-differs|len{'>' if len(b) > 4095 else '<='}4095",
                        f"request of {len(b)} bytes ({k.name}): DB would store {str(stored)[:40]}...({len(stored or '')} chars) {err or ''}",
                        {"mode": "db-request", "hex": b.hex()},
                    )
        return res
    if what == "negative":
        for sid in T.SIDS + [0x00, 0x7F, 0xFF]:
            for nrc in range(256):
                tally("valid-negative", judge(res, bytes([0x7F, sid, nrc]), "negative"))
        return res
    kind = T.BY_NAME[item[1]]
    if what == "valid":
        _, _, tier, shard, nsh = item
        for idx, vals in enumerate(T.value_sets(kind, "rsp", tier)):
            if idx % nsh != shard:
                continue
            b = T.encode(kind, "rsp", vals)
            out = judge(res, b, "valid")
            tally("valid", out)
            if out != "typed" and kind.dispatch:
                lst = res.notes.setdefault("valid_responses_not_typed", {})
                lst[kind.name] = lst.get(kind.name, 0) + 1
            if idx == 2 and shard == 0:
                res.sample({"kind": kind.name, "bytes": b.hex()[:64], "parser": out}, cap=1)
        return res
    if what == "mutate":
        tier = item[2]
        seen: set[bytes] = set()
        for vals in T.value_sets(kind, "rsp", "small" if tier == "quick" else "quick"):
            b = T.encode(kind, "rsp", vals)
            for m in neighbours(b, tier == "thorough"):
                if m in seen:
                    continue
                seen.add(m)
                tally("mutant", judge(res, m, "mutant"))
        return res
    if what == "construct":
        tier = item[2]
        if not kind.rsp_cls or not hasattr(s, kind.rsp_cls):
            return res
        cls = getattr(s, kind.rsp_cls)
        for vals in T.value_sets(kind, "rsp", "small" if tier == "quick" else "quick"):
            construct(res, kind, cls, vals)
        return res
    raise Broken(f"unknown item {item!r}")


def replay(doc: dict[str, Any]) -> Result:
    res = Result()
    s = G["service"]
    if doc["mode"] == "db-request":
        b = bytes.fromhex(doc["hex"])
        stored, err = stored_request_hex(s.RawRequest(b))
        print(f"   request of {len(b)} bytes; stored text has {len(stored or '')} chars, ends with {str(stored)[-12:]!r} {err or ''}")
        if err is not None or stored != b.hex():
            res.violate(f"C02|db-request-stored-differs|len{'>' if len(b) > 4095 else '<='}4095", "stored request differs", doc)
        return res
    if doc["mode"] == "bytes":
        b = bytes.fromhex(doc["hex"])
        print("   input :", b.hex()[:200])
        try:
            r = s.UDSResponse.parse_dynamic(b)
            print("   parsed:", repr(r))
            try:
                print("   .pdu  :", r.pdu.hex())
            except Exception as e:  # noqa: BLE001
                print("   .pdu raises", repr(e))
        except Exception as e:  # noqa: BLE001
            print("   parser raises", repr(e))
        k = T.find("rsp", b)
        if k is not None:
            try:
                print("   table :", k.name, T.decode(k, "rsp", b))
            except T.Reject as e:
                print("   table :", k.name, "REJECTS", e.args[0])
        judge(res, b, doc.get("src", "replay"))
    else:
        kind = T.BY_NAME[doc["kind"]]
        vals = thaw(doc["vals"])
        print("   construct", kind.rsp_cls, show(vals), "ISO:", T.encode(kind, "rsp", vals).hex()[:100])
        construct(res, kind, getattr(s, kind.rsp_cls), vals)  # type: ignore[arg-type]
    return res


def finish(merged: Result, tier: str) -> dict[str, Any]:
    import os
    import shutil

    shutil.rmtree(f"/dev/shm/vf-c02-{os.getpid()}", ignore_errors=True)
    c = merged.counters
    for key, least in (("typed", 5000), ("rejected", 5000), ("kept_raw", 1000), ("constructions", 300)):
        if c.get(key, 0) < least:
            raise Broken(f"vacuous: only {c.get(key, 0)} {key} cases")
    h = merged.notes.get("outcomes_by_source", {})
    for src in ("valid", "space", "mutant", "valid-negative"):
        if not h.get(f"{src}:typed"):
            raise Broken(f"vacuous: no typed response from source {src}")
    return {
        "bound": {
            "short_space": "len 1..3, third byte in 16 values" if tier == "quick" else "len 1..3 exhaustive",
            "widths": T.WIDTHS[tier],
            "mutations": "prefixes, +00/+FF, 64 bit flips" + (", +0000/+FFFFFF" if tier == "thorough" else ""),
        }
    }


_ = itertools
