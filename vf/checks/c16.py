"""C16 - a random virtual ECU is fully determined by its seed and arguments.

Engine B, differential across *separate interpreter processes*.  A child process (this file run with
``--child``; /venv/bin/python, PYTHONPATH=$VERIF_REPO/src:/verif) builds the virtual ECU exactly like
``gallia vecu ... rng`` does (RngVirtualECUConfig -> RngVirtualECU._server() -> setup()) for a batch of
seeds and one parameter set and prints, per seed, the model and digests of its answers to a fixed
request battery in every session plus SecurityAccess / reset histories.  The same batch is produced in
several process environments (PYTHONHASHSEED 0 / 1 / 4242 / random, two import orders, two wall-clock
bases and request spacings, plus the reference environment a second time) - one work item per (batch, environment) - and finish() compares every
environment with the reference environment: models equal, all answer digests equal.  SecurityAccess
seeds (deliberately fresh) are masked.  On a mismatch the two children are re-run with full transcripts
to name the first differing request.

The reference environment's model of every (parameter set, seed) is also checked against the graph
clauses: mandatory sessions and services present, every offered session reachable from session 1 and
able to return to it, no transition into a session that is not offered; and against restart-like situations
inside one process: a second server from the same parameters object, setup() again on the same server and a
server from a fresh parameters object all give the first model, and setup() leaves the parameters object untouched.
"""

from __future__ import annotations

import hashlib
import json
import os
import subprocess
import sys
from pathlib import Path
from typing import Any

ID = "C16"
LEVEL = "exploration"
RULE = (
    "one case = (parameter set, seed, process environment): full transcript (model + answers to the request "
    "battery - every SID x payload length 0..1, payload length 2 for every SID the model or ISO knows, over boundary "
    "bytes and the model's sub-functions with/without suppress bit, structured ISO "
    "requests, requests serialised by gallia's request classes - in each offered session, reached by "
    "DiagnosticSessionControl from session 1 on a fresh server, + SecurityAccess unlock / wrong key / reset "
    "histories + 'requestSeed [; TesterPresent] ; X' and 'unlocked ; X' for a representative request X of every "
    "offered service) compared with the transcript of the reference environment. evaluations = answer lines compared; "
    "distinct_nontrivial = distinct (parameter set, seed) models plus distinct answer-block digests, i.e. cases "
    "whose transcript is not shared with any other case."
)
ASSUMPTIONS = [
    "children run the unmodified gallia code; only gallia.services.uds.server.time is replaced by a deterministic "
    "clock (two different epochs / request spacings below the 10 s inactivity limit)",
    "SecurityAccess seed bytes are masked in requestSeed replies and in the sendKey request that echoes them; a "
    "requestSeed that happens to return an empty seed is repeated, and so is one whose seed equals the key of the "
    "next battery request (the repeat count is not part of the transcript)",
    "PYTHONHASHSEED=random children make the check as strong as their luck; the fixed hash seeds 0/1/4242 decide",
    "quick tier: battery in at most 3 sessions per model (session 1 first), thorough: all sessions",
    "CLI parameter sets go through gallia's own argument parser (create_parser(load_commands()), 'script vecu rng "
    "<target> --seed N ...'), i.e. the lists arrive as strings; model-only, in every environment",
    "parameter sets that share seed and all probabilities are also built one after the other in one process (both "
    "orders) and each model compared with the fresh-process model of its own parameter set",
    "parameter sets with overlapping mandatory / optional lists are model-only cases (model + graph clauses in 3 "
    "environments, no request battery): 32 seeds quick, 256 thorough",
]
CHUNK = 1

ROOT = Path(__file__).resolve().parents[2]
PY = "/venv/bin/python"
TARGET = "tcp://127.0.0.1:20162"

# process environments: (label, PYTHONHASHSEED, import order, clock variant, axis that differs from the reference)
ENVS_QUICK = [
    ("ref", "0", "A", 0, "-"),
    ("hash1", "1", "A", 0, "hashseed"),
    ("hash4242", "4242", "A", 0, "hashseed"),
    ("hashrandom", "random", "A", 0, "hashseed"),
    ("orderB", "0", "B", 0, "import-order"),
    ("clock1", "0", "A", 1, "clock"),
    ("all", "random", "B", 1, "combined"),
    ("repeat", "0", "A", 0, "repeat"),  # the reference environment once more: any difference is plain nondeterminism
]
ENVS_THOROUGH = [("ref", "0", "A", 0, "-"), ("repeat", "0", "A", 0, "repeat")] + [
    (f"h{h}-o{o}-c{c}", h, o, c, "hashseed" if (o, c) == ("A", 0) else ("import-order" if (h, c) == ("0", 0) else ("clock" if (h, o) == ("0", "A") else "combined")))
    for h in ("0", "1", "4242", "random")
    for o in ("A", "B")
    for c in (0, 1)
    if (h, o, c) != ("0", "A", 0)
]

_UDS = [0x10, 0x11, 0x14, 0x19, 0x22, 0x23, 0x27, 0x28, 0x2C, 0x2E, 0x2F, 0x31, 0x34, 0x35, 0x36, 0x37, 0x3D, 0x3E, 0x85]
PARAM_SETS: list[tuple[str, dict[str, Any]]] = [
    ("default", {}),
    ("p=0", {"p_session": 0.0, "p_service": 0.0, "p_sub_function": 0.0, "p_identifier": 0.0, "p_correct_payload_format": 0.0, "p_dtc_status_mask": 0.0}),
    ("p=1", {"p_session": 1.0, "p_service": 1.0, "p_sub_function": 1.0, "p_identifier": 1.0, "p_correct_payload_format": 1.0, "p_dtc_status_mask": 1.0, "optional_sessions": [2, 3, 4]}),
    ("p=0.5", {"p_session": 0.5, "p_service": 0.5, "p_sub_function": 0.5, "p_identifier": 0.5, "p_correct_payload_format": 0.5, "p_dtc_status_mask": 0.5, "optional_sessions": [2, 3, 0x40, 0x41]}),
    ("mandatory-full", {"mandatory_sessions": [1, 2, 3, 0x7E], "optional_sessions": [], "mandatory_services": _UDS, "optional_services": [], "p_sub_function": 0.05}),
    ("mandatory-empty", {"mandatory_sessions": [], "mandatory_services": [], "p_session": 0.05, "p_service": 0.2}),
    ("optional-empty", {"optional_sessions": [], "optional_services": []}),
    ("handlers-p=0.05", {"p_identifier": 0.05, "p_correct_payload_format": 0.5, "p_service": 1.0, "p_session": 0.05}),
]

# Overlapping mandatory / optional lists (a service listed in both must still be guaranteed, not gambled).  These
# sets are about the *model*: children only build models (no request battery), so many seeds are cheap.
_ALL = list(range(0x01, 0x0B)) + [0x10, 0x11, 0x14, 0x19, 0x22, 0x23, 0x24, 0x27, 0x28, 0x29, 0x2A, 0x2C, 0x2E, 0x2F,
                                  0x31, 0x34, 0x35, 0x36, 0x37, 0x38, 0x3D, 0x3E, 0x83, 0x84, 0x85, 0x86, 0x87]  # fmt: skip
_DEFAULT_OPTIONAL = [x for x in _ALL if x != 0x10]
_EXT = [0x10, 0x22, 0x27, 0x3E]
_BOTH = [0x10, 0x11, 0x22, 0x27, 0x31, 0x3E]
OVERLAP_SETS: list[tuple[str, dict[str, Any]]] = []
for _p in (0.2, 0.5):
    OVERLAP_SETS += [
        (f"overlap-full-optional/p={_p}", {"optional_services": _ALL, "p_service": _p}),
        (f"overlap-extended-mandatory/p={_p}", {"mandatory_services": _EXT, "optional_services": _DEFAULT_OPTIONAL + [0x22, 0x27, 0x3E], "p_service": _p}),
        (f"overlap-bats-like/p={_p}", {"mandatory_services": _EXT, "optional_services": _ALL, "mandatory_sessions": [1, 2, 3], "p_service": _p}),
        (f"overlap-mandatory==optional/p={_p}", {"mandatory_services": _BOTH, "optional_services": _BOTH, "p_service": _p, "p_session": 0.1}),
    ]
OVERLAP_ENVS = (("0", "A", 0), ("1", "A", 0), ("random", "B", 1))  # (PYTHONHASHSEED, import order, clock)

# Parameter sets handed over exactly as a user does: the argument vector of `gallia script vecu rng ...` goes through
# gallia's own argument parser (create_parser(load_commands()) -> parse_typed_args -> get_command), so the lists reach
# the configuration model as *strings* (numbers in several spellings, service names, repeated entries).  Model-only,
# in every process environment.  "__oracle__" says what the strings mean (for the mandatory-present clause).
CLI_SETS: list[tuple[str, dict[str, Any]]] = [
    (
        "cli-bats",
        {
            "__argv__": ["--mandatory-sessions", "1", "2", "3", "--mandatory-services", "DiagnosticSessionControl", "EcuReset",
                         "ReadDataByIdentifier", "WriteDataByIdentifier", "RoutineControl", "SecurityAccess", "ReadMemoryByAddress",
                         "WriteMemoryByAddress", "RequestDownload", "RequestUpload", "TesterPresent", "ReadDTCInformation",
                         "ClearDiagnosticInformation", "InputOutputControlByIdentifier"],
            "__oracle__": {"mandatory_sessions": [1, 2, 3], "mandatory_services": [0x10, 0x11, 0x22, 0x2E, 0x31, 0x27, 0x23, 0x3D, 0x34, 0x35, 0x3E, 0x19, 0x14, 0x2F]},
        },
    ),  # fmt: skip
    (
        "cli-repeated-entries",
        {
            "__argv__": ["--mandatory-sessions", "1", "2", "3", "2", "0x40", "1", "--optional-sessions", "4", "5", "0x41", "0x42", "4", "66",
                         "--mandatory-services", "DiagnosticSessionControl", "EcuReset", "ReadDataByIdentifier", "EcuReset", "0x27", "TesterPresent",
                         "--optional-services", "WriteDataByIdentifier", "RoutineControl", "ReadDTCInformation", "RoutineControl", "0x85", "0x28", "0x2f",
                         "--p-service", "0.5", "--p-session", "0.3"],
            "__oracle__": {"mandatory_sessions": [1, 2, 3, 0x40], "mandatory_services": [0x10, 0x11, 0x22, 0x27, 0x3E]},
        },
    ),  # fmt: skip
]


# ---------------------------------------------------------------------------
# child


def _child(spec: dict[str, Any]) -> None:
    order, clockv, seeds, params, full, max_sessions = (
        spec["order"], spec["clock"], spec["seeds"], spec["params"], spec.get("full", False), spec.get("max_sessions"),
    )  # fmt: skip
    model_only = spec.get("model_only", False)
    import logging

    if order == "B":
        import random as _random

        _random.seed(987654321)
        _random.random()
        import gallia.log  # noqa: F401
        import gallia.transports  # noqa: F401
        import gallia.command  # noqa: F401
        import gallia.services.uds.core.client  # noqa: F401
        import gallia.services.uds.ecu  # noqa: F401
        import gallia.db.handler  # noqa: F401
        from gallia.commands.script import vecu
        from gallia.services.uds import server as S
        from gallia.services.uds.core import service
    else:
        import gallia.command  # noqa: F401
        from gallia.services.uds import server as S
        from gallia.services.uds.core import service
        from gallia.commands.script import vecu
    from gallia.transports import TargetURI

    from vf.ref import c13_model as ref
    from vf.ref import vecu_common as vc

    logging.disable(logging.CRITICAL)

    class Clk:
        def __init__(self) -> None:
            self.now = 1_700_000_000.0 if clockv == 0 else 2_051_222_400.371
            self.step = 0.125 if clockv == 0 else 4.875  # two readings per request: 0.25 s / 9.75 s apart

        def __call__(self) -> float:
            self.now += self.step
            return self.now

    from vf.engine import seams

    if seams.bind_clock(S, Clk()) == 0:  # import-style independent (see vf/engine/seams.py)
        raise RuntimeError("seam gone: gallia.services.uds.server does not bind the wall clock under any known name")
    vc.G["service"] = service  # for the codec driven generator only; no harness seams in the child
    target = TargetURI(TARGET)

    cli: dict[str, Any] = {}

    def make_cfg(p: dict[str, Any] | None = None) -> Any:
        p = params if p is None else p
        if "__argv__" not in p:
            return vecu.RngVirtualECUConfig(target=target, seed=seed, **p)
        if not cli:
            from gallia.cli import gallia as cli_mod

            cli.update(parser=cli_mod.create_parser(cli_mod.load_commands()), get_command=cli_mod.get_command)
        _, cfg = cli["parser"].parse_typed_args(["script", "vecu", "rng", TARGET, "--seed", str(seed)] + list(p["__argv__"]))
        return cfg

    def new_server(cfg: Any = None, p: dict[str, Any] | None = None) -> Any:
        if cfg is None:
            cfg = make_cfg(p)
        cmd = cli["get_command"](cfg) if "__argv__" in (params if p is None else p) else vecu.RngVirtualECU(cfg)
        srv = cmd._server()
        vc.drive(srv.setup())
        return srv, S.TCPUDSServerTransport(srv, target)

    def cfg_dump(cfg: Any) -> dict[str, str]:
        return {k: repr(getattr(cfg, k, None)) for k in sorted(type(cfg).model_fields) if k != "init_kwargs"}

    def same_process_variants(model: Any) -> dict[str, Any]:
        """restart-like situations inside one process, all of which must give the model of the first server:
        a second server built from the *same* parameters object, setup() called again on the same server, a server
        from a fresh parameters object; and setup() must leave the parameters object as it was."""
        cfg = make_cfg()
        before = cfg_dump(cfg)
        first, _ = new_server(cfg)
        after_first = cfg_dump(cfg)
        second, _ = new_server(cfg)
        vc.drive(first.setup())
        fresh, _ = new_server()
        after = cfg_dump(cfg)
        return {
            "second_server_same_params": dump(second) == model,
            "setup_twice_same_server": dump(first) == model,
            "fresh_params_object": dump(fresh) == model,
            "params_changed_by_setup": sorted(k for k in before if before[k] != after_first.get(k) or before[k] != after.get(k)),
        }

    def dump(srv: Any) -> dict[str, dict[str, list[int] | None]]:
        return {
            f"{int(s):02x}": {f"{int(k):02x}": (None if v is None else [int(x) for x in v]) for k, v in sorted(d.items(), key=lambda kv: int(kv[0]))}
            for s, d in sorted(srv.supported_services.items())
        }

    def ask(tr: Any, q: bytes, deliberate: bool = False) -> tuple[bytes | None, str]:
        # A battery key that happens to equal the fresh random seed would make the sendKey outcome (and nothing
        # else) depend on the seed: draw another seed first (same masked transcript line, not recorded).
        if q[0] == 0x27 and len(q) > 2 and (q[1] & 0x7F) % 2 == 0 and not deliberate:
            for _ in range(64):
                last = getattr(tr.server.state, "last_sa_response", None)
                if last is None or last.security_access_type + 1 != q[1] & 0x7F or bytes(last.security_seed) != q[2:]:
                    break
                vc.drive(tr.handle_request(bytes([0x27, last.security_access_type])))
        try:
            r, _ = vc.drive(tr.handle_request(q))
        except Exception as e:  # noqa: BLE001 - part of the transcript (C14 judges it)
            return None, f"EXC:{type(e).__name__}"
        if r is None:
            return None, "-"
        if q[0] == 0x27 and len(q) > 1 and (q[1] & 0x7F) % 2 == 1 and r[:1] == b"\x67":
            return r, r[:2].hex() + "<seed>"
        return r, r.hex()

    out = []
    if spec.get("cross"):
        # servers for *different* parameter sets one after the other in this one process
        for seed in seeds:
            for pos, (pname, p) in enumerate(spec["cross"]):
                srv, _ = new_server(p=p)
                out.append({"pname": pname, "seed": seed, "pos": pos, "model_sha": hashlib.sha256(json.dumps(dump(srv), sort_keys=True).encode()).hexdigest()})
        sys.stdout.write(json.dumps(out))
        return
    for seed in seeds:
        srv, tr = new_server()
        model = dump(srv)
        same_process = same_process_variants(model)
        if model_only:
            out.append({"seed": seed, "model": model, "same_process": same_process, "blocks": {}, "n_lines": 0})
            continue
        m = ref.Model({int(s, 16): {int(k, 16): v for k, v in d.items()} for s, d in model.items()})
        gen, _notes = vc.codec_generated()
        battery = list(dict.fromkeys(vc.short_alphabet(m, wide=False, two_for_unknown=False) + vc.structured(m) + gen))
        battery.sort(key=lambda q: (q[0] in (0x10, 0x11), ))  # state changing services last (stable sort)
        blocks: dict[str, str] = {}
        lines_all: dict[str, list[str]] = {}

        def path_to(sess: int) -> list[int] | None:
            prev: dict[int, int | None] = {1: None}
            todo = [1]
            while todo:
                x = todo.pop(0)
                for t in m.dsc_targets(x):
                    if t not in prev and t in m.services:
                        prev[t] = x
                        todo.append(t)
            if sess not in prev:
                return None
            p = []
            cur: int | None = sess
            while cur is not None and cur != 1:
                p.append(cur)
                cur = prev[cur]
            return p[::-1]

        sessions = sorted(m.services, key=lambda s: (s != 1, s))
        if max_sessions:
            sessions = sessions[:max_sessions]
        for sess in sessions:
            srv, tr = new_server()
            lines = []
            p = path_to(sess)
            if p is None:
                lines.append(f"UNREACHABLE {sess:02x}")
            else:
                for t in p:
                    lines.append(f"{bytes([0x10, t]).hex()} {ask(tr, bytes([0x10, t]))[1]}")
                lines.append(f"STATE session={srv.state.session} level={srv.state.security_access_level}")
                for q in battery:
                    lines.append(f"{q.hex()} {ask(tr, q)[1]}")
                lines.append(f"STATE session={srv.state.session} level={srv.state.security_access_level}")
            name = f"battery@{sess:02x}"
            blocks[name] = hashlib.sha256("\n".join(lines).encode()).hexdigest()
            lines_all[name] = lines
            # SecurityAccess histories in this session
            for t in m.sa_pairs(sess)[:2]:
                srv, tr = new_server()
                lines = []
                for x in p or []:
                    ask(tr, bytes([0x10, x]))
                seedb = b""
                for _ in range(64):
                    r, shown = ask(tr, bytes([0x27, t]))
                    if r is not None and r[:1] == b"\x67" and len(r) > 2:
                        seedb = r[2:]
                        break
                lines.append(f"27{t:02x} {shown}")
                r, shown = ask(tr, bytes([0x27, t + 1]) + seedb, deliberate=True)
                lines.append(f"27{t + 1:02x}<seed> {shown}")
                lines.append(f"STATE session={srv.state.session} level={srv.state.security_access_level}")
                for q in (bytes.fromhex("22f186"), bytes.fromhex("3e00"), bytes([0x27, t + 1, 0]), bytes([0x27, t]), bytes([0x27, t + 1]) + b"\xff" * 64, bytes.fromhex("1101"), bytes.fromhex("22f186"), bytes.fromhex("1001"), bytes.fromhex("22f186")):
                    lines.append(f"{q[:4].hex()} {ask(tr, q)[1]}")
                    lines.append(f"STATE session={srv.state.session} level={srv.state.security_access_level}")
                name = f"security@{sess:02x}/{t:02x}"
                blocks[name] = hashlib.sha256("\n".join(lines).encode()).hexdigest()
                lines_all[name] = lines
        # Histories "positive requestSeed, then at once a request the service handlers answer": the fresh seed is
        # masked, everything after it must not depend on it.  Per session that offers SecurityAccess, for every
        # representative request of every offered service: 27 <odd> ; X  and  27 <odd> ; 3E 00 ; X  - and all of
        # them again after a successful unlock.
        sa_sessions = [x for x in sorted(m.services, key=lambda x: (x != 1, x)) if any(t % 2 == 1 for t in (m.services[x].get(0x27) or ()))]
        if max_sessions:
            sa_sessions = sa_sessions[:max_sessions]
        for sess in sa_sessions:
            p = path_to(sess)
            if p is None:
                continue
            offered = m.services[sess]
            reps = [q for q in dict.fromkeys(vc.structured(m) + gen) if q[0] in offered and q[0] not in (0x10, 0x27)]
            reps += [bytes([0x11, sf]) for sf in sorted(set((offered.get(0x11) or ())[:3]) | ({4} & set(offered.get(0x11) or ())))]
            reps += [bytes([sid, sf, 0x12, 0x34]) for sid in (0x31,) if sid in offered for sf in (1, 2, 3)]
            reps = list(dict.fromkeys(reps))
            reps.sort(key=lambda q: q[0] == 0x11)  # resetting requests last
            for t in [x for x in (offered.get(0x27) or ()) if x % 2 == 1][:2]:
                srv, tr = new_server()
                lines = []

                def goto() -> None:
                    if srv.state.session != sess:
                        if srv.state.session != 1:
                            ask(tr, bytes.fromhex("1001"))
                        for x in p:
                            ask(tr, bytes([0x10, x]))

                for tp in (False, True):
                    for q in reps:
                        goto()
                        r, shown = ask(tr, bytes([0x27, t]))
                        line = f"27{t:02x} {shown}"
                        if tp:
                            line += f" ; 3e00 {ask(tr, bytes.fromhex('3e00'))[1]}"
                        lines.append(f"{line} ; {q[:6].hex()} {ask(tr, q)[1]}")
                goto()
                seedb = b""
                for _ in range(64):
                    r, shown = ask(tr, bytes([0x27, t]))
                    if r is not None and r[:1] == b"\x67" and len(r) > 2:
                        seedb = r[2:]
                        break
                lines.append(f"27{t + 1:02x}<seed> {ask(tr, bytes([0x27, t + 1]) + seedb, deliberate=True)[1]}")
                lines.append(f"STATE session={srv.state.session} level={srv.state.security_access_level}")
                for q in reps:
                    lines.append(f"unlocked ; {q[:6].hex()} {ask(tr, q)[1]}")
                name = f"seed-then@{sess:02x}/{t:02x}"
                blocks[name] = hashlib.sha256("\n".join(lines).encode()).hexdigest()
                lines_all[name] = lines
        doc: dict[str, Any] = {
            "seed": seed,
            "model": model,
            "same_process": same_process,
            "blocks": blocks,
            "n_lines": sum(len(v) for v in lines_all.values()),
        }
        if full:
            doc["lines"] = lines_all
        out.append(doc)
    sys.stdout.write(json.dumps(out))


def run_child(
    env: tuple[Any, ...], params: dict[str, Any], seeds: list[int], full: bool = False, max_sessions: int | None = None, model_only: bool = False,
    cross: list[Any] | None = None,
) -> list[dict[str, Any]]:
    _label, hashseed, order, clockv, _axis = env
    repo = os.environ.get("VERIF_REPO", "/repo")
    e = dict(os.environ)
    e.update(PYTHONHASHSEED=hashseed, PYTHONPATH=f"{repo}/src:{ROOT}", PYTHONDONTWRITEBYTECODE="1")
    spec = {"order": order, "clock": clockv, "seeds": seeds, "params": params, "full": full, "max_sessions": max_sessions, "model_only": model_only, "cross": cross}
    p = subprocess.run([PY, str(Path(__file__).resolve()), "--child", json.dumps(spec)], env=e, capture_output=True, timeout=3600, check=False)
    if p.returncode != 0:
        raise RuntimeError(f"child failed ({p.returncode}) env={env} seeds={seeds}: {p.stderr.decode()[-1500:]}")
    return json.loads(p.stdout.decode())


# ---------------------------------------------------------------------------
# parent


def _bounds(tier: str) -> tuple[list[tuple[Any, ...]], int, int, int, int | None]:
    if tier == "quick":
        return ENVS_QUICK, 24, 3, 8, 3
    return ENVS_THOROUGH, 256, 16, 16, None


def items(tier: str, seed: int) -> list[tuple[Any, ...]]:
    envs, n_default, n_other, batch, max_sessions = _bounds(tier)
    out: list[tuple[Any, ...]] = []
    for pname, params in PARAM_SETS:
        n = n_default if pname == "default" else n_other
        for lo in range(0, n, batch):
            seeds = list(range(lo, min(lo + batch, n)))
            for env in envs:
                out.append((pname, params, seeds, list(env), max_sessions, False))
    n_overlap = 32 if tier == "quick" else 256
    for pname, params in OVERLAP_SETS:
        for env in envs:
            if tuple(env[1:4]) in OVERLAP_ENVS:
                out.append((pname, params, list(range(n_overlap)), list(env), max_sessions, True))
    n_cli = 8 if tier == "quick" else 64
    for pname, params in CLI_SETS:
        for env in envs:
            out.append((pname, params, list(range(n_cli)), list(env), max_sessions, True))
    # several parameter sets that agree in seed and in every model probability (their lists differ), built one after
    # the other in one process, in both orders; compared in finish() with each set's own fresh-process model
    for fam, members in enumerate(_families()):
        for order in ("F", "R"):
            sets = members if order == "F" else members[::-1]
            out.append(("__cross__", {"sets": [[n, dict(PARAM_SETS + OVERLAP_SETS)[n]] for n in sets], "order": order, "family": fam},
                        list(range(n_other)), list(envs[0]), max_sessions, True))  # fmt: skip
    return out


# the probabilities the *model* depends on, with their defaults (the reply probabilities do not enter the model)
_PROBS = {"p_session": 0.05, "p_service": 0.2, "p_sub_function": 0.05}


def _families() -> list[list[str]]:
    groups: dict[tuple[Any, ...], list[str]] = {}
    for pname, params in PARAM_SETS + OVERLAP_SETS:
        groups.setdefault(tuple(float(params.get(k, dflt)) for k, dflt in _PROBS.items()), []).append(pname)
    return [g for g in groups.values() if len(g) >= 2]


def _strip(problem: str) -> str:
    return problem.split(":")[0]


def _same_process_problems(sp: dict[str, Any]) -> list[tuple[str, str]]:
    out: list[tuple[str, str]] = []
    if not sp["second_server_same_params"]:
        out.append(("model|second-server-from-same-parameters-object-differs", "a second server built from the same parameters object has another model than the first"))
    if not sp["setup_twice_same_server"]:
        out.append(("model|setup-twice-differs", "setup() called again on the same server changes its model"))
    if not sp["fresh_params_object"]:
        out.append(("model|second-server-from-fresh-parameters-differs", "a later server in the same process (fresh parameters object) has another model than the first"))
    for f in sp["params_changed_by_setup"]:
        out.append((f"parameters-changed-by-setup|field={f}", f"setup() modified the caller's parameters object: field {f}"))
    return out


def _plabel(pname: str) -> str:
    """parameter set as it appears in signatures: the overlapping-list variants are one family."""
    return "overlapping-lists" if pname.startswith("overlap-") else pname


def run_item(item: tuple[Any, ...]) -> Any:
    from vf.engine.runner import Result
    from vf.ref import c13_model as ref

    pname, params, seeds, env, max_sessions, model_only = item
    env = tuple(env)
    res = Result()
    if pname == "__cross__":
        docs = run_child(env, {}, seeds, cross=params["sets"])
        res.count("child_processes")
        for d in docs:
            res.notes.setdefault("cross", {})[f"{params['family']}|{params['order']}|{d['pname']}|{d['seed']}"] = f"{d['pos']}:{d['model_sha']}"
            res.count("cross_parameter_set_models")
            res.count("evaluations")
        return res
    docs = run_child(env, params, seeds, max_sessions=max_sessions, model_only=model_only)
    res.count("child_processes")
    for d in docs:
        key = f"{pname}|{d['seed']}|{env[0]}"
        res.notes.setdefault("transcripts", {})[key] = json.dumps(
            {"model": hashlib.sha256(json.dumps(d["model"], sort_keys=True).encode()).hexdigest(), "blocks": d["blocks"], "n": d["n_lines"]},
            sort_keys=True,
        )
        res.count("transcripts")
        # model-only cases: one evaluation per offered session (model equality / graph clauses)
        res.count("evaluations", d["n_lines"] if not model_only else len(d["model"]))
        if env[0] != "ref":
            continue
        # reference environment: the clauses about the model itself
        res.seen("nontrivial", ("model", pname, d["model"]))
        for b, h in d["blocks"].items():
            res.seen("nontrivial", ("block", h))
        m = ref.Model({int(s, 16): {int(k, 16): v for k, v in dd.items()} for s, dd in d["model"].items()})
        oracle = params.get("__oracle__", params)
        mand_sessions = oracle.get("mandatory_sessions", [1])
        mand_services = oracle.get("mandatory_services", [0x10])
        rp = {"kind": "model", "pname": pname, "params": params, "seed": d["seed"]}
        for prob in ref.session_graph_ok(m, mand_sessions, mand_services):
            res.violate(f"C16|model|{_strip(prob)}|params={_plabel(pname)}", f"seed {d['seed']} params {pname}: {prob}; model {d['model']}", rp)
        for sig, msg in _same_process_problems(d["same_process"]):
            res.violate(f"C16|{sig}", f"seed {d['seed']} params {pname}: {msg}", rp)
        res.count("same_process_variants", 3)
        res.count("models_checked")
        res.notes.setdefault("sessions_histogram", {})[str(len(m.services))] = 1
        if d["seed"] == 3 and pname == "default":
            res.sample({"params": pname, "seed": 3, "model": d["model"], "blocks": d["blocks"], "answer_lines": d["n_lines"]})
    return res


def _first_difference(
    pname: str, params: dict[str, Any], seed: int, env_a: tuple[Any, ...], env_b: tuple[Any, ...], max_sessions: int | None, model_only: bool = False
) -> tuple[str, str]:
    """Re-run both environments with full transcripts; returns (what differs first - a service id or 'model', text)."""
    a = run_child(env_a, params, [seed], full=True, max_sessions=max_sessions, model_only=model_only)[0]
    b = run_child(env_b, params, [seed], full=True, max_sessions=max_sessions, model_only=model_only)[0]
    if a["model"] != b["model"]:
        for s in sorted(set(a["model"]) | set(b["model"])):
            if a["model"].get(s) != b["model"].get(s):
                return "model", f"session {s}: {a['model'].get(s)} vs {b['model'].get(s)}"
        return "model", "models differ"
    for name in sorted(set(a.get("lines", {})) | set(b.get("lines", {}))):
        la, lb = a["lines"].get(name, []), b["lines"].get(name, [])
        for i in range(max(len(la), len(lb))):
            x = la[i] if i < len(la) else None
            y = lb[i] if i < len(lb) else None
            if x != y:
                req = (x or y or "").split(" ")[0]
                return (req[:2] if not req.startswith("STATE") else "state"), f"block {name} line {i}: '{x}' vs '{y}'"
    return "none", "no difference on re-run (flaky?)"


def finish(merged: Any, tier: str) -> dict[str, Any]:
    from vf.engine.runner import Broken

    envs, n_default, n_other, _batch, max_sessions = _bounds(tier)
    tr = {k: json.loads(v) for k, v in merged.notes.pop("transcripts", {}).items()}
    by_env = {e[0]: e for e in envs}
    params_by_name = dict(PARAM_SETS + OVERLAP_SETS + CLI_SETS)
    overlap_names = {n for n, _ in OVERLAP_SETS + CLI_SETS}  # the model-only sets
    compared = 0
    # which environments differ, per (parameter set, seed)
    differing: dict[tuple[str, str], list[str]] = {}
    for key in sorted(tr):
        pname, seed_s, label = key.split("|")
        if label == "ref":
            continue
        refd = tr.get(f"{pname}|{seed_s}|ref")
        if refd is None:
            raise Broken(f"no reference transcript for {pname} seed {seed_s}")
        compared += 1
        if tr[key] != refd:
            differing.setdefault((pname, seed_s), []).append(label)
    located: dict[tuple[str, str], tuple[str, str]] = {}
    for (pname, seed_s), labels in sorted(differing.items(), key=lambda kv: (kv[0][0], int(kv[0][1]))):
        refd = tr[f"{pname}|{seed_s}|ref"]
        axes = {by_env[lb][4] for lb in labels}
        if "repeat" in axes:
            axis = "identical-environment"  # not even two runs of the same environment agree
        elif {"hashseed", "import-order", "clock"} <= axes:
            axis = "any-two-processes"
        else:
            axis = "+".join(sorted(axes - {"combined"})) or "combined"
        # the environment that isolates the axis, if there is one
        label = "repeat" if "repeat" in labels else next((lb for lb in labels if by_env[lb][4] != "combined"), labels[0])
        env = by_env[label]
        kind = "model-differs" if tr[f"{pname}|{seed_s}|{label}"]["model"] != refd["model"] else "answers-differ"
        lk = (kind, axis)
        if lk not in located:
            located[lk] = _first_difference(pname, params_by_name[pname], int(seed_s), by_env["ref"], env, max_sessions, pname in overlap_names)
        what, text = located[lk]
        sig = f"C16|{kind}|axis={axis}" + (f"|first-diff={what}" if kind == "answers-differ" else "")
        merged.violate(
            sig,
            f"params {pname} seed {seed_s}: environments {labels} differ from the reference environment; e.g. {label} (PYTHONHASHSEED={env[1]}, import order {env[2]}, clock {env[3]}): {text}",
            {"kind": "diff", "pname": pname, "params": params_by_name[pname], "seed": int(seed_s), "env": list(env), "axis": axis, "max_sessions": max_sessions, "model_only": pname in overlap_names},
        )
    # parameter sets with equal seed and probabilities built in one process: each model must be its own
    cross = merged.notes.pop("cross", {})
    cross_compared = 0
    fams = _families()
    for key in sorted(cross):
        fam, order, pname, seed_s = key.split("|")
        pos, sha = cross[key].split(":")
        refd = tr.get(f"{pname}|{seed_s}|ref")
        if refd is None:
            raise Broken(f"no reference transcript for {pname} seed {seed_s} (cross-parameter-set case)")
        cross_compared += 1
        if sha != refd["model"]:
            members = fams[int(fam)] if order == "F" else fams[int(fam)][::-1]
            merged.violate(
                f"C16|model|depends-on-parameter-sets-used-earlier-in-the-process|{'first-in-process' if pos == '0' else 'later-in-process'}",
                f"params {pname} seed {seed_s}: built as #{pos} of {members} (same seed, same probabilities, different lists) in one process, "
                f"the model differs from the one a fresh process builds for {pname}",
                {"kind": "cross", "pname": pname, "params": params_by_name[pname], "seed": int(seed_s), "sets": [[n, params_by_name[n]] for n in members]},
            )
    if not cross_compared:
        raise Broken("no cross-parameter-set cases were compared")
    want = sum(len(it[2]) for it in items(tier, 0) if it[3][0] != "ref")
    if compared != want:
        raise Broken(f"compared {compared} transcripts, expected {want}")
    c = merged.counters
    if c.get("models_checked", 0) < 40 or c.get("evaluations", 0) < 100000:
        raise Broken("vacuous: too few models / answers")
    return {
        "bound": {"seeds_default": n_default, "seeds_other_parameter_sets": n_other, "parameter_sets": [p for p, _ in PARAM_SETS], "environments": [e[0] for e in envs], "max_sessions": max_sessions,
                  "model_only_parameter_sets": [p for p, _ in OVERLAP_SETS], "model_only_seeds": 32 if tier == "quick" else 256, "model_only_environments": [list(e) for e in OVERLAP_ENVS]},
        "transcript_pairs_compared": compared,
        "cross_parameter_set_models_compared": cross_compared,
        "cli_parameter_sets": [p for p, _ in CLI_SETS],
    }


def replay(doc: dict[str, Any]) -> Any:
    from vf.engine.runner import Result
    from vf.ref import c13_model as ref

    res = Result()
    pname, params, seed = doc["pname"], doc["params"], doc["seed"]
    if doc["kind"] == "cross":
        own = run_child(ENVS_QUICK[0], params, [seed], model_only=True)[0]
        own_sha = hashlib.sha256(json.dumps(own["model"], sort_keys=True).encode()).hexdigest()
        for d in run_child(ENVS_QUICK[0], {}, [seed], cross=doc["sets"]):
            print(f"    #{d['pos']} {d['pname']}: {d['model_sha'][:16]}" + (f"  (fresh process: {own_sha[:16]})" if d["pname"] == pname else ""))
            if d["pname"] == pname and d["model_sha"] != own_sha:
                res.violate(f"C16|model|depends-on-parameter-sets-used-earlier-in-the-process|{'first-in-process' if d['pos'] == 0 else 'later-in-process'}", "model differs from the fresh-process model", doc)
        return res
    if doc["kind"] == "model":
        d = run_child(ENVS_QUICK[0], params, [seed], max_sessions=1, model_only=True)[0]
        print("    model:", d["model"])
        m = ref.Model({int(s, 16): {int(k, 16): v for k, v in dd.items()} for s, dd in d["model"].items()})
        oracle = params.get("__oracle__", params)
        for prob in ref.session_graph_ok(m, oracle.get("mandatory_sessions", [1]), oracle.get("mandatory_services", [0x10])):
            res.violate(f"C16|model|{_strip(prob)}|params={_plabel(pname)}", prob, doc)
        for sig, msg in _same_process_problems(d["same_process"]):
            res.violate(f"C16|{sig}", msg, doc)
        return res
    env = tuple(doc["env"])
    what, text = _first_difference(pname, params, seed, ENVS_QUICK[0], env, doc.get("max_sessions"), doc.get("model_only", False))
    print("    ", text)
    if what != "none":
        kind = "model-differs" if what == "model" else "answers-differ"
        res.violate(f"C16|{kind}|axis={doc.get('axis', env[4])}" + (f"|first-diff={what}" if kind == "answers-differ" else ""), text, doc)
    return res


if __name__ == "__main__":
    if len(sys.argv) == 3 and sys.argv[1] == "--child":
        _child(json.loads(sys.argv[2]))
    else:
        sys.exit("usage: c16.py --child <json spec>")
