"""C08 - connection loss surfaces as a bounded-time error and the next attempt recovers.

Engine A, crash-point enumeration.  A well-behaved peer (lines echo server,
DoIP gateway, HSFZ gateway; independent encoders from demux.py) answers the
exchange ``connect(+activation); write; (ack); reply``.  Its output stream is
cut at *every byte offset*; at the cut the peer sends EOF, resets the
connection, or just goes silent.  Mode A drives the bare transport, mode B the
real ``UDSClient`` with retries against a listener that accepts again after a
delay, mode C closes twice / after loss.  The explorer adds timing deviations.
"""

from __future__ import annotations

import asyncio
import struct
from typing import Any

from vf.checks import demux
from vf.engine.explore import Policy, Run, explore, run_once
from vf.engine.netsim import Net, Peer
from vf.engine.runner import Broken, Result

ID = "C08"
LEVEL = "model_checking"
RULE = (
    "crash points = every byte offset 0..L of the peer's output stream for the exchange connect(+activation); write; (ack); reply x cut kind "
    "{EOF, RST, silence} x transport {tcp-lines, unix-lines, doip, hsfz} x caller timeout {None, 2 s}; mode A bare transport ops, mode B real "
    "UDSClient.request with max_retry {1,3} and peer restart delays {0, 0.05, 0.35, 2.5, 11 s}, mode C double close / close after loss; each "
    "scenario explored with <= bound timing deviations. states = distinct canonical (op results with virtual times, wire bytes, accept log); "
    "transitions = environment actions fired"
)
ASSUMPTIONS = [
    "TCP stream model: EOF = eof_received, reset = connection_lost(ConnectionResetError), silence = no further delivery; writes after loss are dropped",
    "a read without caller timeout on a peer that merely goes silent may wait forever (no bound is promised without a timeout); with EOF/RST it must end",
    "recovery is only demanded when the listener accepts again at the time of the client's reconnect attempt(s) (tcp/unix/hsfz: one attempt after the backoff; doip: 10 s window)",
]

POLICY = Policy(io_while_ready=True, early_timers=False, timer_before_io=True, timer_with_io=True, max_iterations=20000, max_vtime=500.0)
G: dict[str, Any] = {}
REQ = bytes.fromhex("22f190")
REPLY = bytes.fromhex("62f190aabbcc")
PENDING = bytes.fromhex("7f2278")
NEVER = 1e9  # restart delay of a peer that never accepts again
BACKOFF = 0.2  # UDSClient.retry_wait: the first retry is documented to wait this long before it reconnects
ACK_TIME = {"tcp": 0.0, "unix": 0.0, "doip": 2.0, "hsfz": 1.0}
URI = {
    "tcp": "tcp-lines://192.0.2.1:1234",
    "unix": "unix-lines:///tmp/x.sock",
}


def worker_init() -> None:
    import logging

    import gallia.command  # noqa: F401
    from gallia.services.uds.core import service
    from gallia.services.uds.core.client import UDSClient, UDSRequestConfig
    from gallia.services.uds.core.exception import MissingResponse, UDSException
    from gallia.transports.doip import DoIPTransport
    from gallia.transports.hsfz import HSFZTransport
    from gallia.transports.tcp import TCPLinesTransport
    from gallia.transports.unix import UnixLinesTransport

    logging.disable(logging.CRITICAL)
    G.update(
        tcp=TCPLinesTransport, unix=UnixLinesTransport, doip=DoIPTransport, hsfz=HSFZTransport,
        UDSClient=UDSClient, UDSRequestConfig=UDSRequestConfig, service=service, MissingResponse=MissingResponse, UDSException=UDSException,
    )


class GoodPeer(Peer):
    """answers correctly until its output budget (the cut offset) is used up"""

    def __init__(self, proto: str, cut: int | None, kind: str, st: dict[str, Any], pending: bool = False) -> None:
        self.pending = pending
        self.proto = proto
        self.budget = cut
        self.kind = kind
        self.rx = bytearray()
        self.handled = 0
        self.st = st
        self.d = demux.DoIP() if proto == "doip" else demux.HSFZ() if proto == "hsfz" else None
        self.cut_done = False

    def emit(self, blob: bytes) -> None:
        if self.cut_done:
            return
        if self.budget is None:
            self.send(blob)
            return
        part = blob[: self.budget]
        self.budget -= len(part)
        if part:
            self.send(part)
        self.st.setdefault("sent", bytearray()).extend(part)
        if self.budget == 0:
            self.cut()

    def cut(self) -> None:
        if self.cut_done:
            return
        self.cut_done = True
        self.st["cut_at"] = self.conn.loop.time()
        if self.kind == "eof":
            self.send_eof()
        elif self.kind == "rst":
            self.send_rst()

    def on_connect(self) -> None:
        if self.budget == 0:
            self.cut()

    def on_data(self, data: bytes) -> None:
        self.rx += data
        if self.proto in ("tcp", "unix"):
            while b"\n" in self.rx:
                line, rest = bytes(self.rx).split(b"\n", 1)
                self.rx = bytearray(rest)
                req = bytes.fromhex(line.decode())
                pre = (PENDING.hex().encode() + b"\n") if self.pending and req == REQ else b""
                self.emit(pre + reply_for(req).hex().encode() + b"\n")
            return
        items = self.d.parse_wire(bytes(self.rx))
        for kind, body in items[self.handled :]:
            if kind == "activation":
                self.emit(self.d.connect_frames()[0].raw)
            elif kind == "diag":
                w = [body]
                pre = self.d.frame("data:" + PENDING.hex(), 1, w).raw if self.pending and body == REQ else b""
                self.emit(self.d.frame("ack1", 1, w).raw + pre + self.d.frame("data:" + reply_for(body).hex(), 1, w).raw)
        self.handled = len(items)


def reply_for(req: bytes) -> bytes:
    if req == REQ:
        return REPLY
    if req[0] == 0x3E:
        return bytes([0x7E, req[1] & 0x7F])
    return bytes([0x7F, req[0], 0x11])


def full_stream(proto: str, pending: bool = False) -> bytes:
    """what the peer sends for one complete exchange"""
    if proto in ("tcp", "unix"):
        return ((PENDING.hex().encode() + b"\n") if pending else b"") + REPLY.hex().encode() + b"\n"
    d = demux.DoIP() if proto == "doip" else demux.HSFZ()
    pre = b"".join(f.raw for f in d.connect_frames())
    p = d.frame("data:" + PENDING.hex(), 1, [REQ]).raw if pending else b""
    return pre + d.frame("ack1", 1, [REQ]).raw + p + d.frame("data:" + REPLY.hex(), 1, [REQ]).raw


def uri(proto: str) -> str:
    if proto == "doip":
        return demux.DoIP().uri
    if proto == "hsfz":
        return demux.HSFZ().uri
    return URI[proto]


def classify(e: BaseException) -> tuple[str, str]:
    if isinstance(e, G["MissingResponse"]):
        return ("missing", "cause=" + type(e.__cause__).__name__ if e.__cause__ else "cause=None")
    if isinstance(e, TimeoutError):
        return ("timeout", type(e).__name__)
    if isinstance(e, ConnectionError):
        return ("connerr", type(e).__name__)
    if isinstance(e, G["UDSException"]):
        return ("udsexc", type(e).__name__)
    return ("other", type(e).__name__ + ":" + str(e)[:50])


def build(item: dict[str, Any], box: dict[str, Any]) -> Any:
    proto, cut, kind, mode = item["proto"], item["cut"], item["kind"], item["mode"]
    tmo = item.get("timeout")

    def scenario(run: Run) -> None:
        st: dict[str, Any] = {}
        peers: list[GoodPeer] = []

        def factory(n: int) -> Peer | None:
            nf, fkind = item.get("flaky", (0, "eof"))
            if 1 <= n <= nf:
                # the restarting peer already accepts TCP connections but drops / resets / ignores them before anything is exchanged
                p = GoodPeer(proto, 0, fkind, {}, False)
            else:
                p = GoodPeer(proto, cut if n == 0 else None, kind, st, item.get("pending", False))
            peers.append(p)
            return p

        net = Net(run, factory)
        net.install()
        ops: list[tuple[Any, ...]] = []
        box.update(net=net, st=st, ops=ops, peers=peers)
        loop = run.loop

        async def op(name: str, coro: Any) -> Any:
            ts = loop.time()
            try:
                r = await coro
                ops.append((name, ts, loop.time(), "ok", r))
                return r
            except asyncio.CancelledError:
                raise
            except BaseException as e:  # noqa: BLE001
                ops.append((name, ts, loop.time(), *classify(e)))
                return None

        async def drv_a() -> None:
            tr = await op("connect", G[proto].connect(uri(proto)))
            if tr is None:
                return
            box["tr"] = tr
            await op("write", tr.write(REQ, timeout=tmo))
            await op("read", tr.read(timeout=tmo))
            if mode == "C":
                await op("read2", tr.read(timeout=1.0))
            await op("close", tr.close())
            await op("close2", tr.close())

        async def drv_b() -> None:
            tr = await op("connect", G[proto].connect(uri(proto)))
            if tr is None:
                return
            client = G["UDSClient"](tr, timeout=2.0, max_retry=item["max_retry"])
            box["client"] = client
            # the listener accepts again `delay` seconds after the cut
            net_watch()
            if item.get("two"):
                # a first request without retries runs into the loss; a later request on the same client has retries
                cfg0 = G["UDSRequestConfig"](max_retry=0)
                await op("request0", client.request(G["service"].ReadDataByIdentifierRequest(0xF190), cfg0))
            r = await op("request", client.request(G["service"].ReadDataByIdentifierRequest(0xF190)))
            box["reply"] = r
            await op("close", client.transport.close())

        def net_watch() -> None:
            # listener is down from the cut until cut + delay
            net.up_at = float("inf")

        task = loop.create_task(drv_b() if mode == "B" else drv_a(), name="driver")
        run.done = task.done

        class Restarter:
            def actions(self) -> list[Any]:
                if mode == "B" and "cut_at" in st and net.up_at == float("inf"):
                    net.up_at = st["cut_at"] + item["delay"]
                return []

        run.add_actor(Restarter())

        def fin() -> None:
            box["status"] = run.status
            box["t_end"] = loop.time()
            box["exc_contexts"] = [str(c.get("message")) + ":" + repr(c.get("exception")) for c in loop.drain_exc_contexts()]
            box["attempt_log"] = list(net.attempt_log)
            box["wire"] = [c.wire_bytes() for c in net.conns]
            box["conns"] = [
                {
                    "writes": [t for t, _ in c.wire],
                    "delivered": [(t, x if isinstance(x, str) else len(x)) for t, x in c.delivered],
                    "pending_out": len(c.out),
                }
                for c in net.conns
            ]
            net.uninstall()

        run.finish = fin  # type: ignore[attr-defined]

    return scenario


def judge(item: dict[str, Any], box: dict[str, Any], choices: list[int], res: Result) -> None:
    proto, cut, kind, mode = item["proto"], item["cut"], item["kind"], item["mode"]
    tmo = item.get("timeout")
    L = len(full_stream(proto, item.get("pending", False)))
    rp = {"item": item, "choices": choices}
    ops = box["ops"]
    ack = ACK_TIME[proto]
    where = f"[{proto} cut={cut}/{L} {kind} timeout={tmo} mode={mode}" + (f" delay={item['delay']} max_retry={item['max_retry']}" if mode == "B" else "") + "]"
    region = cut_region(proto, cut, item.get("pending", False))

    def v(sig: str, m: str) -> None:
        res.violate(f"C08|{proto}|{sig}", m + " " + where + f" ops={[o[:5] for o in ops]}", rp)

    if box["status"] != "done":
        pending = {"connect": 0, "write": 1, "read": 2}
        last = ops[-1][0] if ops else "none"
        blocked = {"none": "connect", "connect": "request" if mode == "B" else "write", "write": "read", "read": "read2/close", "request": "close"}.get(last, last)
        if kind == "silence" and tmo is None and mode != "B" and blocked in ("read", "read2/close", "connect"):
            res.count("admitted_unbounded_wait")
            return  # no timeout requested, peer merely silent: nothing is promised
        if kind == "silence" and mode != "B" and proto in ("tcp", "unix") and blocked == "connect":
            return
        v(f"blocks-forever|{blocked}|{kind}|region={region}|timeout={'none' if tmo is None else 'set'}", f"operation after '{last}' never finished ({box['status']} at t={box['t_end']})")
        _ = pending
        return
    dead = False
    for o in ops:
        name, ts, te, outcome = o[0], o[1], o[2], o[3]
        if outcome == "connerr" and name in ("write", "read", "read2"):
            was_dead, dead = dead, True
        else:
            was_dead = dead
        if outcome == "other" and was_dead and o[4].startswith("OSError"):
            continue  # transport already reported the loss to this caller; an OSError on further use is admitted
        if outcome == "other":
            v(f"{name}|unexpected-exception|{o[4].split(':')[0]}|{kind}", f"{name} raised {o[4]} (neither timeout nor connection error)")
            return
        if name in ("close", "close2") and outcome != "ok":
            v(f"{name}|raised|{o[4] if len(o) > 4 else outcome}|{kind}", f"{name}() raised {o[3:]}")
            return
        if name in ("write", "read", "read2") and tmo is not None and outcome != "ok":
            lim = ts + (tmo if name != "read2" else 1.0) + ack
            if te > lim + 1e-9:
                v(f"{name}|overdue|{kind}", f"{name} ended at t={te}, later than timeout+ack = {lim}")
                return
        if name in ("read", "read2") and outcome == "ok":
            data = o[4]
            if data == b"":
                continue  # explicit end-of-stream
            want = REPLY if name == "read" else None
            complete = cut is None or cut >= L
            if data != want or not complete:
                v(f"{name}|fabricated-data|{kind}|region={region}", f"{name} returned {data.hex()} although the peer's reply was cut at {cut}/{L} (complete reply: {REPLY.hex()})")
                return
    if mode == "B":
        req = [o for o in ops if o[0] == "request"]
        if not req:
            return
        o = req[0]
        outcome = o[3]
        attempts = box["attempt_log"]
        reconnect_attempts = attempts[1:]
        refused = [a for a in reconnect_attempts if a[1] == "refused"]
        accepted = [a for a in reconnect_attempts if a[1] == "accepted"]
        complete = cut >= L
        if outcome == "ok":
            if o[4].pdu != REPLY:
                v(f"request|wrong-reply|{kind}", f"request returned {o[4].pdu.hex()}")
            elif not complete and not accepted:
                v(f"request|reply-without-reconnect|{kind}|region={region}", "request returned the reply although it was never completely delivered on the first connection and no reconnect happened")
            return
        if complete and kind == "silence":
            c0 = box["conns"][0]
            wr = c0["writes"]
            if wr and not c0["pending_out"] and c0["delivered"] and c0["delivered"][-1][0] < wr[-1] + (ACK_TIME[proto] or 2.0) and len(wr) <= (2 if proto == "doip" else 1):
                v(f"request|failed-although-peer-answered|{outcome}", f"request failed with {o[3:]} although the complete reply was delivered in time")
                return
        if outcome not in ("missing", "connerr", "timeout"):
            v(f"request|unexpected-outcome|{outcome}|{kind}", f"request ended with {o[3:]}")
            return
        # was recovery owed?  Only when, on some later connection, the peer's complete answer reached the
        # client in time (the explorer may legitimately have delayed it past the client's timeouts).
        lim = ACK_TIME[proto] or 2.0
        owed = False
        nflaky = item.get("flaky", (0, ""))[0]
        for idx, ci in enumerate(box["conns"][1:], start=1):
            if idx <= nflaky:
                continue  # (a connection of the flaky phase: the peer never answered on it)
            if ci["writes"] and not ci["pending_out"] and ci["delivered"]:
                tw = ci["writes"][-1]
                if ci["delivered"][-1][0] < tw + lim and len(ci["writes"]) <= (2 if proto == "doip" else 1):
                    owed = True
        if (
            not owed
            and not any(choices)  # benign schedule: nothing was delayed by the explorer
            and kind in ("eof", "rst")
            and item["max_retry"] >= 1
            and 0 <= item["delay"] < BACKOFF
            and not item.get("pending")
            and refused
        ):
            v(
                f"request|reconnect-before-backoff|{outcome}|{kind}",
                f"the peer accepted again {item['delay']} s after the cut, i.e. within the client's first back-off ({BACKOFF} s), but the client tried to reconnect at "
                f"t={refused[0][0]} (cut at t={box['st'].get('cut_at')}), was refused and gave up with {o[3:]}",
            )
            return
        if item.get("flaky") and proto == "doip" and not owed and not any(choices) and item["max_retry"] >= 1 and kind in ("eof", "rst"):
            # DoIP reconnects within a window of 10 s: connections that are accepted and die before the routing activation completes
            # (at most 2 x 2 s here) are part of the restart, the peer is fully back long before the window ends
            v(
                f"request|gave-up-during-flaky-restart|{outcome}|{kind}|flaky={item['flaky'][1]}",
                f"the restarting peer dropped {item['flaky'][0]} connection(s) ({item['flaky'][1]}) before it served again; the client gave up with {o[3:]} after attempts {box['attempt_log']}",
            )
            return
        if owed:
            v(
                f"request|no-recovery|{outcome}|{kind}|region={region}",
                f"peer accepted the reconnect at {accepted[0][0]} and answered in time, but the request still failed with {o[3:]}",
            )
        elif not reconnect_attempts and item["max_retry"] >= 1 and kind in ("eof", "rst"):
            # connection was lost while the first attempt was pending, retries were available, no reconnect was even attempted
            c0 = box["conns"][0]
            loss = [t for t, x in c0["delivered"] if x in ("EOF", "RST")]
            first_write = c0["writes"][1 if proto == "doip" else 0] if len(c0["writes"]) > (1 if proto == "doip" else 0) else None
            if loss and first_write is not None and loss[0] < first_write + min(lim, 2.0):
                v(
                    f"request|no-reconnect-attempt|{outcome}|{kind}|region={region}",
                    f"connection lost ({kind} at t={loss[0]}) with retries left but no reconnect was attempted; request failed with {o[3:]}",
                )
    if box["exc_contexts"]:
        v(f"loop-exception-handler|{kind}|region={region}", f"exceptions reached the loop exception handler: {box['exc_contexts'][:2]}")


def cut_region(proto: str, cut: int | None, pending: bool = False) -> str:
    if cut is None:
        return "none"
    if pending:
        L = len(full_stream(proto, True))
        pend_len = L - len(full_stream(proto, False))
        if proto in ("tcp", "unix"):
            return "pending" if cut <= pend_len else ("after-pending" if cut < L else "after-reply")
        d0 = demux.DoIP() if proto == "doip" else demux.HSFZ()
        a0 = sum(len(f.raw) for f in d0.connect_frames()) + len(d0.frame("ack1", 1, [REQ]).raw)
        if cut < a0:
            return cut_region(proto, cut, False)
        return "pending" if cut <= a0 + pend_len else ("after-pending" if cut < L else "after-reply")
    if proto in ("tcp", "unix"):
        L = len(full_stream(proto))
        return "before-reply" if cut == 0 else ("mid-line" if cut < L else "after-reply")
    d = demux.DoIP() if proto == "doip" else demux.HSFZ()
    a = sum(len(f.raw) for f in d.connect_frames())
    b = a + len(d.frame("ack1", 1, [REQ]).raw)
    L = len(full_stream(proto))
    if cut < a or (a and cut == 0):
        return "activation"
    if cut < b:
        return "ack"
    if cut < L:
        return "reply"
    return "after-reply"


def canon(box: dict[str, Any]) -> Any:
    def c(o: tuple[Any, ...]) -> tuple[Any, ...]:
        return tuple(x.pdu if hasattr(x, "pdu") else (type(x).__name__ if not isinstance(x, (str, bytes, int, float, type(None))) else x) for x in o)

    return (tuple(c(o) for o in box["ops"]), box["status"], tuple(box.get("attempt_log", ())), tuple(box.get("wire", ())))


def conform(item: dict[str, Any], res: Result) -> None:
    """Loss-model conformance: the same cut scenario (mode A, benign schedule) on the virtual stream and on a real
    loopback TCP connection with a real shutdown / SO_LINGER reset must give the same outcome classes."""
    from vf.engine.realnet import run_real

    proto, cut, kind = item["proto"], item["cut"], item["kind"]
    tmo = item.get("timeout")
    box: dict[str, Any] = {}
    run_once(build(item, box), [], POLICY)

    def shape(ops: list[tuple[Any, ...]]) -> list[tuple[Any, ...]]:
        out = []
        for o in ops:
            if o[0] in ("connect", "close", "close2"):
                out.append((o[0], o[3]))
            else:
                out.append((o[0], o[3], o[4] if o[3] == "ok" and isinstance(o[4], bytes | int) else None))
        return out

    virt = shape(box["ops"])
    st: dict[str, Any] = {}

    async def client(host: str, port: int) -> list[tuple[Any, ...]]:
        ops: list[tuple[Any, ...]] = []
        loop = asyncio.get_running_loop()

        async def op(name: str, coro: Any) -> Any:
            ts = loop.time()
            try:
                r = await coro
                ops.append((name, ts, loop.time(), "ok", r))
                return r
            except BaseException as e:  # noqa: BLE001
                ops.append((name, ts, loop.time(), *classify(e)))
                return None

        u = uri(proto).replace("192.0.2.1:6801", f"{host}:{port}").replace("192.0.2.1:13400", f"{host}:{port}").replace("192.0.2.1:1234", f"{host}:{port}")
        tr = await op("connect", G[proto].connect(u))
        if tr is None:
            return ops
        await op("write", tr.write(REQ, timeout=tmo))
        await op("read", tr.read(timeout=tmo))
        await op("close", tr.close())
        await op("close2", tr.close())
        return ops

    try:
        real_ops, _ = run_real(lambda n: GoodPeer(proto, cut, kind, st), client, gap=0.02, timeout=60.0)
        real = shape(real_ops)
    except Exception as e:  # noqa: BLE001
        real = [("harness", "exc:" + type(e).__name__)]
    res.count("conformance_replays")
    res.count("executions")
    if real != virt:
        res.count("conformance_disagreements")
        res.notes.setdefault("conformance_disagreement_samples", []).append(f"{item}: virtual {virt} real {real}"[:600])


def run_item(work: tuple[Any, ...]) -> Result:
    item, bound, cap = work
    res = Result()
    if item.get("conform"):
        conform(item, res)
        return res
    box: dict[str, Any] = {}

    def scenario(run: Run) -> None:
        box.clear()
        build(item, box)(run)

    first = True
    for run in explore(scenario, bound, POLICY, max_execs=cap):
        res.count("executions")
        res.count("transitions", run.n_actions)
        res.count("choice_points", len(run.trace))
        h = res.notes.setdefault("deviation_histogram", {})
        dev = str(getattr(run, "deviations", 0))
        h[dev] = h.get(dev, 0) + 1
        res.seen("states", canon(box))
        if item["mode"] == "B":
            acc = [a for a in box["attempt_log"][1:] if a[1] == "accepted"]
            if acc and any(o[0] == "request" and o[3] == "ok" for o in box["ops"]):
                res.count("recoveries_observed")
        if getattr(run, "capped", False):
            res.count("capped_items")
        judge(item, box, run.choices(), res)
        if first:
            first = False
            if item["cut"] in (3, 20) and item["kind"] == "eof":
                res.sample({"scenario": item, "ops": [[str(x) if not isinstance(x, (int, float, str)) else x for x in o[:5]] for o in box["ops"]], "accept_log": box["attempt_log"]}, cap=3)
    return res


def items(tier: str, seed: int) -> list[Any]:
    quick = tier == "quick"
    bound = 1 if quick else 2
    cap = 4000 if quick else 50000
    out: list[Any] = []
    for proto in ("tcp", "unix", "doip", "hsfz"):
        L = len(full_stream(proto))
        for cut in range(0, L + 1):
            for kind in ("eof", "rst", "silence"):
                for tmo in (None, 2.0):
                    out.append(({"proto": proto, "cut": cut, "kind": kind, "mode": "A", "timeout": tmo}, bound, cap))
                out.append(({"proto": proto, "cut": cut, "kind": kind, "mode": "C", "timeout": 2.0}, 0, cap))
                Lp = len(full_stream(proto, True))
                for cutp in range(0, Lp + 1):  # the peer answers responsePending first, then the reply
                    for mr in (1, 3):
                        if cut == 0:  # emit the pending family once per (proto, kind)
                            out.append(
                                ({"proto": proto, "cut": cutp, "kind": kind, "mode": "B", "timeout": 2.0, "delay": 0.0, "max_retry": mr, "pending": True}, min(bound, 1), cap)
                            )
                for mr in (1, 3):
                    delays = (0.0, 0.05, 0.35, 2.5, 11.0, NEVER)
                    for delay in delays:
                        if quick and mr == 3 and delay not in (0.0, 0.05, NEVER):
                            continue
                        if delay == NEVER and cut not in (0, L // 2, L):
                            continue  # the peer never comes back: a few cut points suffice (bounded-time clause)
                        out.append(
                            ({"proto": proto, "cut": cut, "kind": kind, "mode": "B", "timeout": 2.0, "delay": delay, "max_retry": mr}, min(bound, 1), cap)
                        )
    # a first request without retries runs into the loss (and may leave a closed transport behind); the next request of the
    # same client has retries and the peer is back at once
    for proto in ("tcp", "unix", "doip", "hsfz"):
        L = len(full_stream(proto))
        for cut in sorted({0, L // 3, L // 2, L - 1}):
            for kind in ("eof", "rst", "silence"):
                out.append(({"proto": proto, "cut": cut, "kind": kind, "mode": "B", "timeout": 2.0, "delay": 0.0, "max_retry": 2, "two": True}, 0, cap))
    # flaky restart: the first connection(s) after the outage are accepted and then dropped / reset / ignored
    for proto in ("doip", "hsfz", "tcp"):
        L = len(full_stream(proto))
        for cut in sorted({0, L // 3, L // 2, L - 1}):
            for kind in ("eof", "rst"):
                for nf in (1, 2):
                    for fkind in ("eof", "rst", "silence"):
                        for mr in (1, 3):
                            out.append(({"proto": proto, "cut": cut, "kind": kind, "mode": "B", "timeout": 2.0, "delay": 0.0 if nf == 1 else 0.35,
                                         "max_retry": mr, "flaky": (nf, fkind)}, 0 if quick else 1, cap))
    # conformance of the loss model against real loopback sockets (few: real seconds)
    conf = [("tcp", 0, "eof"), ("tcp", 4, "eof"), ("tcp", 13, "eof"), ("tcp", 5, "rst"), ("doip", 17, "eof"), ("doip", 40, "rst"),
            ("hsfz", 10, "eof"), ("hsfz", 25, "eof"), ("doip", 51, "eof"), ("hsfz", 3, "rst")]
    for proto, cut, kind in conf if not quick else conf[:7]:
        out.append(({"proto": proto, "cut": cut, "kind": kind, "mode": "A", "timeout": 2.0, "conform": True}, 0, cap))
    return out


def replay(doc: dict[str, Any]) -> Result:
    item = doc["item"]
    res = Result()
    box: dict[str, Any] = {}
    run = run_once(build(item, box), list(doc["choices"]), POLICY)
    for c in run.trace:
        if c.chosen:
            print(f"    t={c.t}: deviation {c.labels[c.chosen]} (menu {c.labels})")
    for o in box["ops"]:
        print("    op:", o[:5])
    print("    status:", box["status"], "t_end:", box["t_end"], "accept log:", box["attempt_log"])
    judge(item, box, run.choices(), res)
    return res


def finish(merged: Result, tier: str) -> dict[str, Any]:
    c = merged.counters
    if not c.get("recoveries_observed"):
        raise Broken("vacuous: no execution in which a request recovered through a reconnect")
    capped = c.get("capped_items", 0)
    if not c.get("conformance_replays"):
        raise Broken("no conformance replay ran")
    if c.get("conformance_disagreements") and not merged.violations:
        raise Broken(f"loss model disagrees with real sockets: {merged.notes.get('conformance_disagreement_samples', [])[:2]}")
    return {"conformance_replays": c.get("conformance_replays", 0), "exhaustive": capped == 0, "capped_scenarios": capped, "deviation_bound": 1 if tier == "quick" else 2,
            "stream_lengths": {p: len(full_stream(p)) for p in ("tcp", "unix", "doip", "hsfz")}}


_ = struct
