"""C06 - DoIP: frames are demultiplexed correctly under any segmentation and interleaving (see demux.py)."""

from __future__ import annotations

import itertools
from typing import Any

from vf.checks import demux
from vf.engine.runner import Broken, Result

ID = "C06"
LEVEL = "model_checking"
RULE = (
    "(i) activation: all 256 activation types x protocol versions {1,2,3,0xFF} and all 256 routing activation response codes "
    "(+ silence, + stray frames before the response); (ii) exchange: gateway release scripts = all sequences of <= n frames over the "
    "DoIP alphabet (matching ack with full / empty / prefix echo, ack with wrong address / other ecu / other previous data, nack with "
    "each code incl. TargetUnreachable, diagnostic message for this pair / foreign pairs, alive check request, unknown payload type, "
    "generic header nack, stray activation response) x non-decreasing release triggers (after activation / after the k-th client "
    "write) x client programs {write;read, read, write;write, write;read;write;read} + draining reads x segmentations {coalesced, "
    "frame-aligned, byte-by-byte, every single split point}; for each scenario every schedule with <= bound deviations. states = "
    "distinct canonical (client op results with times, wire bytes with times, frame delivery times); transitions = environment actions fired"
)
ASSUMPTIONS = [
    "TCP stream model: in-order bytes, arbitrary segmentation, delivery only through StreamReaderProtocol.data_received",
    "gateway frames are encoded by an independent encoder (ISO 13400-2 generic header + payloads)",
    "ack time 2 s, alive-check time 0.5 s (ISO 13400-2 T_TCP_Alive_Check) as in the statement",
    "callbacks run FIFO exactly like asyncio; no early timers (time does not pass while tasks are runnable)",
]

worker_init = demux.worker_init

W1 = "22f190"
W2 = "3e00"
PROGRAMS = {
    "sr": [("sleep", 0.3), ("read", 1.0)],
    "bw": [("bgread", 3.0), ("write", W1), ("join", 0)],
    "wr": [("write", W1), ("read", 1.0)],
    "r": [("read", 1.0)],
    "ww": [("write", W1), ("write", W2)],
    "wrwr": [("write", W1), ("read", 1.0), ("write", W2), ("read", 1.0)],
}
ALPHA_FULL = [
    "ack1", "ack2", "data:62f190aa", "data:7f2278", "alive", "nack1:03", "fdataS:aa", "ack1-echo", "nack1:06",
    "ack1-noecho", "ack1-prefix", "ack1-addr", "ack1-other", "fdataD:bb", "unknown", "hdrnack", "actresp", "nack2:06", "nack1:ff",
    "nack1-echo:03", "ack2-echo", "fdataR:22f190",
]
ALPHA_CORE = ["ack1", "ack2", "data:62f190aa", "data:7f2278", "alive", "nack1:03", "fdataS:aa", "ack1-echo", "nack1:06"]


def scripts(alpha: list[str], n: int, nwrites: int) -> Any:
    for names in itertools.product(alpha, repeat=n):
        for trig in itertools.combinations_with_replacement(range(nwrites + 1), n):
            ok = True
            for nm, t in zip(names, trig, strict=True):
                if nm.startswith(("ack", "nack")):
                    k = int(nm[4] if nm.startswith("nack") else nm[3])
                    if k > nwrites or t != k:
                        ok = False
                        break
            # an ack without echoed data matches every message: the statement ("acknowledged that message") is only
            # decidable if such an ack cannot be mistaken for the ack of another write
            for nm in names:
                if nm.endswith("-noecho"):
                    k = int(nm[3])
                    mine_k = [x for x in names if x.startswith(("ack", "nack")) and int(x[4] if x.startswith("nack") else x[3]) == k
                              and x.split(":")[0][4 if x.startswith("ack") else 5:] in ("", "-noecho", "-prefix")]
                    if k < nwrites or len(mine_k) > 1:
                        ok = False
            if ok:
                yield list(zip(names, trig, strict=True))


def stream_len(frames: list[tuple[str, int]], prog: list[tuple[str, Any]]) -> int:
    p = demux.DoIP()
    writes = [bytes.fromhex(a) for o, a in prog if o == "write"]
    return sum(len(p.frame(n, t, writes).raw) for n, t in frames) + len(p.connect_frames()[0].raw)


def items(tier: str, seed: int) -> list[Any]:
    quick = tier == "quick"
    out: list[Any] = []
    bound = 1 if quick else 2
    cap = 3000 if quick else 40000

    def add(frames: list[tuple[str, int]], pname: str, seg: Any, b: int = bound, **kw: Any) -> None:
        if seg == "bytes" or (isinstance(seg, tuple) and len(frames) >= 2):
            b = min(b, 1)  # long menus (one choice point per byte) / very many scenarios (every split of 2-frame scripts): bound 1
        d = {"proto": "doip", "frames": frames, "program": PROGRAMS[pname] if pname else [], "seg": seg}
        d.update(kw)
        out.append((d, b, cap))

    # (i) activation
    for ver in (1, 2, 3, 0xFF):
        for at in range(256):
            if ver == 3 or at in (0, 1, 2, 0x7F, 0xE0, 0xE1, 0xFE, 0xFF):
                add([], "", "one", b=0, version=ver, act_type=at, drain_n=0)
    for code in range(256):
        add([], "", "one", b=0, act_code=code, expect_connect=(code == 0x10), drain_n=0)
        if code in (0x00, 0x06, 0x10, 0x11, 0xFF):
            for seg in ("bytes", "frames"):
                add([], "", seg, b=bound, act_code=code, expect_connect=(code == 0x10), drain_n=0)
    # (ii) exchange
    for pname, nw in (("wr", 1), ("r", 0), ("ww", 2), ("wrwr", 2)):
        for n in range(0, 4):
            if n <= 2:
                alpha = ALPHA_FULL if not (quick and n == 2 and pname in ("ww", "wrwr")) else ALPHA_FULL[:14]
            else:
                alpha = ALPHA_CORE if (quick or pname in ("ww", "wrwr")) else ALPHA_FULL[:12]
            if quick and n == 3 and pname in ("wrwr", "ww"):
                continue
            for fr in scripts(alpha, n, nw):
                segs: list[Any] = ["one"] if n == 0 else ["one", "frames"]
                if n and n <= 2 and not (quick and n == 2):
                    segs.append("bytes")
                for seg in segs:
                    add(fr, pname, seg, b=bound if n <= 2 else 1)
                if n == 1 or (n == 2 and pname in ("wr", "r") and not quick):
                    L = stream_len(fr, PROGRAMS[pname])
                    for k in range(1, L):
                        add(fr, pname, ("at", k))
    # gateway traffic spread over time: other frames keep arriving, the ack comes after the 2 s ack time / just in time
    for filler in ("fdataS:aa", "ack1-echo", "data:62f190aa", "alive", "hdrnack"):
        for times, ack_at in (((1.2,), 2.4), ((0.8, 1.6), 2.6), ((1.2,), 1.8), ((1.0, 1.8), 1.9)):
            fr = [(filler, 1, t) for t in times] + [("ack1", 1, ack_at), ("data:7f2278", 1, ack_at)]
            add(fr, "wr", "frames")
    # the gateway sends frames and closes: what was sent before the close is still delivered, in order
    for pre in ([("data:62f190aa", 0)], [("data:62f190aa", 0), ("data:7f2278", 0)], [("fdataS:aa", 0), ("data:62f190aa", 0)], []):
        for prog in ("sr", "r"):
            for seg in ("one", "frames"):
                add(pre + [("eof", 0)], prog, seg, b=1)
    for pre in ([("ack1", 1), ("data:62f190aa", 1)], [("data:62f190aa", 1), ("ack1", 1)], [("ack1", 1)]):
        for seg in ("one", "frames"):
            add(pre + [("eof", 1)], "wr", seg, b=1)
    # a second task of the client is blocked in read() while the first one writes
    for fr in ([("ack1", 1), ("data:62f190aa", 1)], [("ack1", 1), ("data:62f190aa", 1, 0.05)], [("ack1", 1)], [("fdataS:aa", 1), ("ack1", 1), ("data:62f190aa", 1, 0.05)]):
        for seg in ("one", "frames"):
            add(fr, "bw", seg, b=1, drain_n=0)
    # four-step histories on one connection (write, read, write, read) with frames that are skipped during the first ack wait
    for x in ("data:62f190aa", "fdataS:aa", "data:7f2278"):
        for y in (None, "data:62f190aa", "fdataS:aa"):
            for tx in (0, 1):
                fr = [(x, tx), ("ack1", 1), ("ack2", 2)] + ([(y, 2)] if y else [])
                for seg in ("one", "frames"):
                    add(fr, "wrwr", seg, b=1)
    # long histories: many frames pending while the client is idle / between a request and its ack (a bounded or
    # lossy hand-over between the reader task and the consumers only shows beyond its capacity)
    for n in (17, 33, 70, 130) if quick else (9, 17, 33, 65, 70, 129, 130, 300):
        for filler in ("fdataS:aa", "data:62f190aa"):
            add([(filler, 0)] * n + [("alive", 0)], "sr", "frames", b=0)
            add([(filler, 0)] * n + [("alive", 0)], "sr", "one", b=1)
            add([(filler, 1)] * n + [("ack1", 1), ("data:7f2278", 1)], "wr", "frames", b=0)
            add([(filler, 1)] * n + [("ack1", 1), ("alive", 1), ("data:7f2278", 1)], "wr", "one", b=1)
    # conformance of the stream model against real loopback sockets / real timers (few: they take real seconds)
    conf = [
        ([("ack1", 1), ("data:62f190aa", 1)], "wr", "one"),
        ([("ack1", 1), ("data:62f190aa", 1)], "wr", "bytes"),
        ([("alive", 0), ("ack1", 1), ("data:62f190aa", 1)], "wr", "frames"),
        ([("data:62f190aa", 0), ("ack1", 1), ("data:7f2278", 1)], "wr", "one"),
        ([("alive", 0), ("data:62f190aa", 0)], "r", "frames"),
        ([("nack1:03", 1)], "wr", "one"),
        ([("ack1", 1), ("ack2", 2)], "ww", "frames"),
        ([], "wr", "one"),
    ]
    for fr, pname, seg in conf if not quick else conf[:6]:
        d = {"proto": "doip", "frames": fr, "program": PROGRAMS[pname], "seg": seg, "conform": True}
        out.append((d, 0, cap))
    return out


def run_item(work: tuple[Any, ...]) -> Result:
    return demux.run_work(work, ID)


def replay(doc: dict[str, Any]) -> Result:
    return demux.replay_doc(doc, ID)


def finish(merged: Result, tier: str) -> dict[str, Any]:
    c = merged.counters
    for k in ("alive_in_in-write", "alive_in_in-read"):
        if not c.get(k):
            raise Broken(f"vacuous exploration: {k} == 0")
    capped = c.get("capped_items", 0)
    if not c.get("conformance_replays"):
        raise Broken("no conformance replay ran")
    if c.get("conformance_disagreements") and not merged.violations:
        raise Broken(f"stream model disagrees with real sockets: {merged.notes.get('conformance_disagreement_samples', [])[:1]}")
    return {"conformance_replays": c.get("conformance_replays", 0), "exhaustive": capped == 0, "capped_scenarios": capped,
            "deviation_bound": 1 if tier == "quick" else "2 for scripts of <= 2 frames with coalesced / frame-aligned / single-frame split segmentation, 1 otherwise"}
