"""C05 - concurrent users of one UDS client never interleave their exchanges.

Engine A.  One real ``ECU`` on a tagging transport, 2-3 caller tasks (each one
or two requests with caller-unique identifiers), optionally the real cyclic
tester-present worker and a ``reconnect()`` caller.  The explorer owns reply
timing (delivery vs. timers), and one cancellation of one caller at any
iteration boundary; start orders and reply scripts are enumerated as scenario
parameters.  Oracle: a monitor over the task-tagged transport log.
"""

from __future__ import annotations

import asyncio
import itertools
from typing import Any

from vf.engine.explore import Action, Policy, Run, explore, run_once
from vf.engine.runner import Broken, Result

ID = "C05"
LEVEL = "model_checking"
RULE = (
    "scenarios = caller sets (2 or 3 callers x 1-2 requests, plus four- and five-caller sets, optional tester-present worker, optional reconnect caller) "
    "x start order permutations x per-caller reply scripts {R immediate, PR pending-then-reply, - silence, C connection error, B busyRepeatRequest (per transmission: B|R, B|B|R), N negative, "
    "PPR} x max_retry {0,1}; for each scenario every schedule with <= bound deviations (reply delivered while tasks runnable, "
    "timer before a deliverable reply, timer and reply in the same iteration, cancel of one caller at any iteration boundary). "
    "states = distinct canonical (task-tagged transport log, per-call results) observations; transitions = environment actions fired"
)
ASSUMPTIONS = [
    "the transport is an in-memory queue transport whose write/read/reconnect log the calling task; the peer answers per identifier script",
    "callbacks run FIFO exactly like asyncio; the only schedule nondeterminism is event arrival (replies, timers, cancel)",
    "window of an exchange = first to last transport operation of the calling task within one client call (transport-level, no gallia internals)",
]

G: dict[str, Any] = {}
CONN = "CONN"


def worker_init() -> None:
    import logging

    import gallia.command  # noqa: F401
    from gallia.services.uds.core import service
    from gallia.services.uds.core.client import UDSRequestConfig
    from gallia.services.uds.core.exception import UDSException
    from gallia.services.uds.ecu import ECU
    from gallia.transports.base import BaseTransport, TargetURI

    logging.disable(logging.CRITICAL)
    G.update(service=service, ECU=ECU, UDSException=UDSException, UDSRequestConfig=UDSRequestConfig)

    def tname() -> str:
        t = asyncio.current_task()
        return t.get_name() if t else "?"

    class TagTransport(BaseTransport, scheme="tag"):  # type: ignore[misc]
        def __init__(self, st: Any) -> None:
            super().__init__(TargetURI("tag://x"))
            self.st = st

        @classmethod
        async def connect(cls, target: Any, timeout: float | None = None) -> Any:
            raise NotImplementedError

        async def close(self) -> None:
            pass

        async def reconnect(self, timeout: float | None = None) -> Any:
            st = self.st
            st.log.append(("reconnect", tname()))
            await asyncio.sleep(0)
            st.log.append(("reconnect-done", tname()))
            return TagTransport(st)

        async def write(self, data: bytes, timeout: float | None = None, tags: Any = None) -> int:
            st = self.st
            st.log.append(("write", tname(), data))
            st.peer_receive(data)
            return len(data)

        async def read(self, timeout: float | None = None, tags: Any = None) -> bytes:
            st = self.st
            who = tname()
            st.log.append(("read", who))
            try:
                item = await asyncio.wait_for(st.rx.get(), timeout)
            except TimeoutError:
                st.log.append(("read-timeout", who))
                raise
            except asyncio.CancelledError:
                st.log.append(("read-cancelled", who))
                raise
            if item == CONN:
                st.log.append(("read-connerr", who))
                raise ConnectionResetError(104, "reset")
            st.log.append(("read-ret", who, item))
            return item

    G["TagTransport"] = TagTransport


class State:
    """Shared by the transport instances and the environment."""

    def __init__(self, scripts: dict[int, str]) -> None:
        self.log: list[tuple[Any, ...]] = []
        self.rx: asyncio.Queue[Any] = asyncio.Queue()
        self.out: list[Any] = []  # replies the peer has produced, not yet delivered
        self.scripts = scripts
        self.cancelled: str | None = None
        self.cancel_took_effect: bool | None = None
        self.tasks: dict[str, asyncio.Task[Any]] = {}
        self.tx_count: dict[int, int] = {}

    def peer_receive(self, data: bytes) -> None:
        if data[0] == 0x3E:
            if data[1] & 0x80 == 0:
                self.out.append(bytes([0x7E, data[1]]))
            return
        if data[0] == 0x22:
            did = int.from_bytes(data[1:3], "big")
            parts = self.scripts.get(did, "R").removeprefix("s:").split("|")
            k = self.tx_count.get(did, 0)
            self.tx_count[did] = k + 1
            for ch in parts[min(k, len(parts) - 1)]:
                if ch == "R":
                    self.out.append(bytes([0x62]) + data[1:3] + bytes([did & 0xFF]))
                elif ch == "P":
                    self.out.append(bytes([0x7F, 0x22, 0x78]))
                elif ch == "B":
                    self.out.append(bytes([0x7F, 0x22, 0x21]))
                elif ch == "N":
                    self.out.append(bytes([0x7F, 0x22, 0x31]))
                elif ch == "C":
                    self.out.append(CONN)
                elif ch == "-":
                    pass

    # actor interface
    def actions(self) -> list[Action]:
        acts: list[Action] = []
        if self.out:
            head = self.out[0]

            def pop() -> None:
                self.out.pop(0)

            label = "rx:" + (head if isinstance(head, str) else head.hex())
            acts.append(Action(label, [lambda: self.rx.put_nowait(head)], pre=pop))
        return acts


class Canceller:
    def __init__(self, st: State, victims: list[str]) -> None:
        self.st = st
        self.victims = victims

    def actions(self) -> list[Action]:
        st = self.st
        if st.cancelled is not None:
            return []
        acts = []
        for v in self.victims:
            t = st.tasks.get(v)
            if t is not None and not t.done():

                def mark(v: str = v) -> None:
                    st.cancelled = v
                    st.log.append(("cancel", v))

                def request_cancel(t: Any = t) -> None:
                    # Task.cancel() returns False when the task has completed by now (its last step ran earlier in this very
                    # iteration): then nothing was cancelled; True means the coroutine gets CancelledError at its current await
                    st.cancel_took_effect = bool(t.cancel())

                acts.append(Action(f"cancel:{v}", [request_cancel], pre=mark))
        return acts


def make_scenario(item: tuple[Any, ...], box: dict[str, Any]) -> Any:
    callers, order, worker, reconnecter, max_retry, cancel = item
    # callers: tuple of (name, (did, script), ...) ; order: permutation of caller indexes

    def scenario(run: Run) -> None:
        scripts = {did: sc for _, *reqs in callers for did, sc in reqs}
        scripts[0x5005] = "R"
        st = State(scripts)
        box["st"] = st
        tr = G["TagTransport"](st)
        ecu = G["ECU"](tr, timeout=1.0, max_retry=max_retry)
        box["ecu"] = ecu
        results: dict[str, list[Any]] = {}
        box["results"] = results

        async def caller(name: str, reqs: list[tuple[int, str]]) -> None:
            results[name] = []
            for k, (did, _sc) in enumerate(reqs):
                st.log.append(("begin", name, k))
                try:
                    if _sc.startswith("s:"):  # a caller that skips the hooks (as the ping of wait_for_ecu does)
                        r = await ecu.read_data_by_identifier(did, config=G["UDSRequestConfig"](skip_hooks=True))
                    else:
                        r = await ecu.read_data_by_identifier(did)
                    box.setdefault("replies", []).append((name, did, r))
                    tr = getattr(r, "trigger_request", None)
                    results[name].append(("ret", did, r.pdu, tr.pdu.hex() if tr is not None else None))
                except asyncio.CancelledError:
                    results[name].append(("cancelled", did))
                    st.log.append(("end", name, k))
                    raise
                except (G["UDSException"], ConnectionError) as e:
                    results[name].append(("exc", did, type(e).__name__))
                st.log.append(("end", name, k))

        async def recon() -> None:
            st.log.append(("begin", "recon", 0))
            try:
                await ecu.reconnect()
            finally:
                st.log.append(("end", "recon", 0))

        async def stopper() -> None:
            # what wait_for_ecu() does around its ping loop: stop the worker, talk to the ECU, start it again
            await asyncio.sleep(0)
            if ecu.tester_present_task is not None:
                await ecu.stop_cyclic_tester_present()
            await caller("S", [(0x5005, "R")])

        async def boot() -> None:
            if worker:
                await ecu.start_cyclic_tester_present(0.3)
                st.tasks["tp"] = ecu.tester_present_task
                ecu.tester_present_task.set_name("tp")
            for i in order:
                name, *reqs = callers[i]
                st.tasks[name] = asyncio.get_running_loop().create_task(caller(name, reqs), name=name)
            if reconnecter == "stop":
                st.tasks["S"] = asyncio.get_running_loop().create_task(stopper(), name="S")
            elif reconnecter:
                st.tasks["recon"] = asyncio.get_running_loop().create_task(recon(), name="recon")

        boot_task = run.loop.create_task(boot(), name="boot")
        run.add_actor(st)
        if cancel:
            run.add_actor(Canceller(st, [c[0] for c in callers]))

        def done() -> bool:
            if not boot_task.done():
                return False
            return all(t.done() for n, t in st.tasks.items() if n != "tp")

        run.done = done

    return scenario


POLICY = Policy(io_while_ready=True, early_timers=False, timer_before_io=True, timer_with_io=True, max_iterations=4000, max_vtime=400.0)


def observe(box: dict[str, Any], run: Run) -> dict[str, Any]:
    st: State = box["st"]
    return {
        "status": run.status,
        "log": list(st.log),
        "results": {k: list(v) for k, v in box["results"].items()},
        "cancelled": st.cancelled,
        "cancel_took_effect": st.cancel_took_effect,
        "mutex_locked": box["ecu"].mutex.locked(),
        # what each reply object names as its request once every caller has been served
        "late_triggers": [(n, d, getattr(getattr(r, "trigger_request", None), "pdu", b"").hex()) for n, d, r in box.get("replies", [])],
        "t": run.loop.time(),
        "unfinished": sorted(n for n, t in st.tasks.items() if n != "tp" and not t.done()),
    }


def judge(item: tuple[Any, ...], obs: dict[str, Any], choices: list[int], res: Result) -> None:
    callers = item[0]
    rp = {"item": item, "choices": choices}
    log = obs["log"]
    owner_did = {did: name for name, *reqs in callers for did, _ in reqs}
    owner_did[0x5005] = "S"
    if obs["status"] != "done":
        sig = f"C05|no-progress|{obs['status']}|cancelled={'yes' if obs['cancelled'] else 'no'}"
        res.violate(sig, f"callers {obs['unfinished']} never completed ({obs['status']} at t={obs['t']}), cancelled={obs['cancelled']}", rp)
        return
    # windows: per (task, call index) first..last transport op index
    cur: dict[str, int] = {}
    windows: list[tuple[str, int, int]] = []
    first: dict[tuple[str, int], int] = {}
    last: dict[tuple[str, int], int] = {}
    tp_call = 0
    for i, e in enumerate(log):
        kind, who = e[0], e[1]
        if kind == "begin":
            cur[who] = e[2]
            continue
        if kind == "end":
            cur.pop(who, None)
            continue
        if kind == "cancel":
            continue
        if who == "tp":
            # the worker has no begin/end markers: each write starts a new call
            if kind == "write":
                tp_call += 1
            key = ("tp", tp_call)
        elif who in cur:
            key = (who, cur[who])
        else:
            key = (who, -1)
        first.setdefault(key, i)
        last[key] = i
    for key, a in first.items():
        windows.append((key[0], a, last[key]))
    for who, a, b in windows:
        for j in range(a + 1, b):
            e = log[j]
            if e[0] in ("begin", "end", "cancel"):
                continue
            if e[1] != who and e[0] in ("write", "reconnect"):
                res.violate(
                    f"C05|interleave|{_role(e[1])}-{e[0]}-inside-{_role(who)}-exchange",
                    f"task {e[1]} did {e[0]} at log index {j} inside the exchange of task {who} [{a}..{b}]",
                    rp,
                )
                return
    for name, rs in obs["results"].items():
        for r in rs:
            if r[0] == "ret":
                did, pdu = r[1], r[2]
                if len(r) > 3 and r[3] != f"22{did:04x}":
                    res.violate(
                        f"C05|foreign-reply|trigger-request-of-another-caller|to={_role(name)}",
                        f"caller {name} asked for {did:#06x}; the reply object it was handed names the request {r[3]} as its trigger",
                        rp,
                    )
                    return
                if pdu[0] == 0x62:
                    got = int.from_bytes(pdu[1:3], "big")
                    if got != did:
                        res.violate(
                            f"C05|foreign-reply|to={_role(name)}|from={_role(owner_did.get(got, '?'))}",
                            f"caller {name} asked for {did:#06x} and was handed the reply for {got:#06x}",
                            rp,
                        )
                        return
                elif pdu[0] == 0x7F and pdu[1] != 0x22:
                    res.violate(f"C05|foreign-reply|negative|to={_role(name)}", f"caller {name} got {pdu.hex()}", rp)
                    return
                elif pdu[0] not in (0x62, 0x7F):
                    res.violate(f"C05|foreign-reply|other-service|to={_role(name)}", f"caller {name} got {pdu.hex()}", rp)
                    return
    # a caller whose cancellation took effect (Task.cancel() returned True) gets CancelledError at the await it was suspended at:
    # its call neither returns a reply nor keeps polling for one
    if obs["cancelled"] and obs.get("cancel_took_effect") and obs["cancelled"] in obs["results"]:
        rs = obs["results"][obs["cancelled"]]
        if not rs or rs[-1][0] != "cancelled":
            res.violate(
                f"C05|cancellation-swallowed|ended={'nothing' if not rs else rs[-1][0]}",
                f"caller {obs['cancelled']} was cancelled (Task.cancel() returned True) but its call ended with {rs[-1] if rs else None} instead of CancelledError",
                rp,
            )
            return
    for n, d, trig in obs.get("late_triggers", []):
        if trig != f"22{d:04x}":
            res.violate(
                f"C05|foreign-reply|trigger-request-changed-later|to={_role(n)}",
                f"caller {n} asked for {d:#06x}; after the other callers were served its reply object names the request {trig} as its trigger",
                rp,
            )
            return
    if obs["mutex_locked"] and not item[2]:  # (the worker may legitimately be mid-exchange)
        res.violate("C05|mutex-left-locked", "client mutex still locked after all callers finished", rp)


def _role(name: str) -> str:
    return {"tp": "worker", "recon": "reconnect"}.get(name, "caller")


def canon(obs: dict[str, Any]) -> Any:
    return (tuple(obs["log"]), tuple(sorted((k, tuple(v)) for k, v in obs["results"].items())), obs["status"])


def run_item(work: tuple[Any, ...]) -> Result:
    item, bound, cap = work
    res = Result()
    n = 0
    for run in _explore(item, bound, cap):
        n += 1
        obs = run.obs
        res.count("executions")
        res.count("transitions", run.n_actions)
        res.count("choice_points", len(run.trace))
        dev = getattr(run, "deviations", 0)
        res.notes.setdefault("deviation_histogram", {})
        res.notes["deviation_histogram"][str(dev)] = res.notes["deviation_histogram"].get(str(dev), 0) + 1
        res.seen("states", canon(obs))
        if any(e[0] == "read-timeout" for e in obs["log"]):
            res.count("execs_with_timeout")
        if obs["cancelled"]:
            res.count("execs_with_cancel")
            if obs.get("cancel_took_effect"):
                res.count("execs_with_effective_cancel")
        if _contended(obs["log"]):
            res.count("execs_with_contention")
        if getattr(run, "capped", False):
            res.count("capped_items")
        judge(item, obs, run.choices(), res)
        if n == 1:
            res.sample({"scenario": item, "choices": run.choices(), "log": obs["log"][:14], "results": obs["results"]}, cap=2)
    return res


def _contended(log: list[tuple[Any, ...]]) -> bool:
    # a caller began while another caller's call was open
    open_calls = 0
    for e in log:
        if e[0] == "begin":
            if open_calls:
                return True
            open_calls += 1
        elif e[0] == "end":
            open_calls -= 1
    return False


def _explore(item: tuple[Any, ...], bound: int, cap: int | None) -> Any:
    box: dict[str, Any] = {}

    def scenario(run: Run) -> None:
        box.clear()
        make_scenario(item, box)(run)
        run.finish = lambda: setattr(run, "obs", observe(box, run))  # type: ignore[attr-defined]

    yield from explore(scenario, bound, POLICY, max_execs=cap)


def items(tier: str, seed: int) -> list[Any]:
    out: list[Any] = []
    scripts1 = ["R", "PR", "-", "C"]
    quick = tier == "quick"
    bound = 2
    cap = 4000 if quick else 60000
    # two callers, one request each
    for sa, sb in itertools.product(scripts1, repeat=2):
        callers = (("A", (0x1001, sa)), ("B", (0x2002, sb)))
        for order in ((0, 1), (1, 0)) if sa != sb else ((0, 1),):
            for worker in (False, True):
                for mr in (0, 1):
                    for cancel in (False, True):
                        out.append(((callers, order, worker, False, mr, cancel), bound, cap))
    # two callers, A issues two requests; reconnect caller
    for sa, sa2, sb in itertools.product(["R", "PR", "-"], ["R", "-"], ["R", "PR", "C"]):
        callers = (("A", (0x1001, sa), (0x1003, sa2)), ("B", (0x2002, sb)))
        for recon in (False, True):
            out.append(((callers, (0, 1), not recon, recon, 0, True), bound, cap))
    # three callers
    trip = list(itertools.product(["R", "PR", "-"], repeat=3)) if not quick else [
        ("R", "R", "R"), ("PR", "R", "-"), ("-", "PR", "R"), ("R", "-", "PR"), ("PR", "PR", "PR"), ("-", "-", "R"),
    ]
    for sa, sb, sc in trip:
        callers = (("A", (0x1001, sa)), ("B", (0x2002, sb)), ("C", (0x3003, sc)))
        orders = list(itertools.permutations(range(3))) if not quick else [(0, 1, 2), (2, 0, 1)]
        for order in orders:
            for worker in (False, True):
                out.append(((callers, order, worker, False, 0, True), bound, cap))
    # a task that stops the tester-present worker (as wait_for_ecu does) while another caller is mid-exchange, then issues a request
    for sa in ("PR", "R", "-", "PPR"):
        for sb in ("R", "PR"):
            callers = (("A", (0x1001, sa)), ("B", (0x2002, sb)))
            out.append(((callers, (0, 1), True, "stop", 0, True), bound, cap))
            out.append(((callers, (1, 0), True, "stop", 1, False), bound, cap))
    # connection loss / silence inside a pending phase with a retry left (second transmission is answered)
    for sa in ("PC|R", "P-|R", "C|PR", "PPC|PR"):
        for sb in ("R", "PR", "C|R"):
            callers = (("A", (0x1001, sa)), ("B", (0x2002, sb)))
            for worker in (False, True):
                out.append(((callers, (0, 1), worker, False, 1, True), bound, cap))
    # busyRepeatRequest: the back-off sleep before the repetition lies inside the exchange (retry left), or the busy reply is final
    for sa in ("B|R", "B|PR", "B|B|R", "B", "N"):
        for sb in ("R", "PR", "B|R"):
            callers = (("A", (0x1001, sa)), ("B", (0x2002, sb)))
            for worker in (False, True):
                for order in ((0, 1), (1, 0)):
                    out.append(((callers, order, worker, False, 2 if sa == "B|B|R" else 1, True), bound, cap))
    # a caller that skips the hooks while another one is in its pending phase; callers whose different requests get the same negative reply
    for sa in ("PR", "PPR", "R"):
        for sb in ("s:R", "s:PR"):
            callers = (("A", (0x1001, sa)), ("B", (0x2002, sb)))
            for order in ((0, 1), (1, 0)):
                out.append(((callers, order, False, False, 0, True), bound, cap))
    for sa, sb in (("N", "N"), ("N", "PN"), ("B", "B")):
        callers = (("A", (0x1001, sa)), ("B", (0x2002, sb)), ("C", (0x3003, "N")))
        out.append(((callers, (0, 1, 2), False, False, 0, False), 1, cap))
        out.append(((callers[:2], (1, 0), True, False, 0, True), bound, cap))
    # four and five callers (bound 1; thorough: more script mixes and bound 2 on the four-caller case)
    many = [("R", "PR", "-", "R"), ("PR", "R", "R", "C")] if quick else [("R", "PR", "-", "R"), ("PR", "R", "R", "C"), ("-", "-", "R", "PR"), ("R", "R", "R", "R")]
    for sc in many:
        callers4 = tuple((n, (0x1001 + 0x1001 * i, sc[i])) for i, n in enumerate("ABCD"))
        out.append(((callers4, (0, 1, 2, 3), True, False, 0, True), 1 if quick else 2, cap))
        out.append(((callers4, (3, 1, 0, 2), False, False, 1, True), 1, cap))
    five = tuple((n, (0x1001 + 0x1001 * i, ["R", "PR", "-", "R", "PR"][i])) for i, n in enumerate("ABCDE"))
    out.append(((five, (0, 1, 2, 3, 4), True, False, 0, True), 1, cap))
    out.append(((five, (4, 2, 0, 3, 1), False, True, 0, True), 1, cap))
    if not quick:
        # deeper deviation bound on the small scenarios
        for sa, sb in itertools.product(["R", "PR", "-", "PPR"], repeat=2):
            callers = (("A", (0x1001, sa)), ("B", (0x2002, sb)))
            for worker in (False, True):
                out.append(((callers, (0, 1), worker, False, 1, True), 3, 150000))
    return out


def _tuplify(x: Any) -> Any:
    if isinstance(x, list):
        return tuple(_tuplify(y) for y in x)
    return x


def replay(doc: dict[str, Any]) -> Result:
    item = _tuplify(doc["item"])
    res = Result()
    box: dict[str, Any] = {}

    def scenario(run: Run) -> None:
        make_scenario(item, box)(run)
        run.finish = lambda: setattr(run, "obs", observe(box, run))  # type: ignore[attr-defined]

    run = run_once(scenario, list(doc["choices"]), POLICY)
    obs = run.obs
    for c in run.trace:
        if c.chosen:
            print(f"    t={c.t}: chose {c.labels[c.chosen]} out of {c.labels}")
    for i, e in enumerate(obs["log"]):
        print("   ", i, e)
    print("    results:", obs["results"], "status:", obs["status"])
    judge(item, obs, run.choices(), res)
    return res


def finish(merged: Result, tier: str) -> dict[str, Any]:
    c = merged.counters
    for k in ("execs_with_timeout", "execs_with_cancel", "execs_with_contention"):
        if not c.get(k):
            raise Broken(f"vacuous exploration: {k} == 0")
    capped = c.get("capped_items", 0)
    return {"exhaustive": capped == 0, "capped_scenarios": capped, "deviation_bound": 2 if tier == "quick" else "2 (3 on two-caller scenarios)"}
