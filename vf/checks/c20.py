"""C20 - target URIs and range expressions denote exactly what the user wrote.

Engine B (bounded-exhaustive enumeration of the real parsers/printers, no sampling).

Sections (the ``kind`` of a work item):

``autoint``   utils.auto_int / config.AutoInt over boundary values x {dec, hex, oct, bin}
``hostport``  net.split_host_port / join_host_port: split(join(h, p)), split(text) for the RFC 3986
              texts a user writes (``host:port``, ``[v6]:port``, bare ``v6``), join(split(text))
``uri``       TargetURI.from_parts -> str -> TargetURI -> scheme/hostname/port/qs_flat/location,
              then <Transport>Config(**qs_flat) must accept it with the same numeric settings
``hsfz``      the real ``HSFZDiscoverer.probe`` coroutine (fake HSFZ connection answering the probe)
``scan-*``    the discovery scanners' own emission code run for real: ``IsotpDiscoverer.main`` (fake CAN bus,
              every probed id / extended address answers), ``HSFZDiscoverer.main`` (fake HSFZ ECUs),
              ``DoIPDiscoverer.enumerate_routing_activation_requests`` / ``enumerate_target_addresses`` (fake
              gateway); every URI written to ECUs.txt / the artifact files / the database must parse back through
              the transport's config class to exactly the address that answered, and is then connected
``wire``      real ``<Transport>.connect(uri)`` with a fake socket / connection: the socket options, bind
              address and connection arguments must carry the URI's numeric settings (flag set iff present)
``notation``  a digit string without prefix is decimal; bare hex digits ('f1') are no integer anywhere
``history``   parsing is a pure function of (literal, entry point): every literal through every ordered pair of
              integer entry points (A, B, A again) and interleaved with other literals, in one process
``doip``      every ``f"doip://..."`` expression of commands/discover/doip.py - cut out by AST
``r1``        utils.unravel and the ``Ranges`` pydantic type (str / list[str] input)
``r2``        utils.unravel_2d and the ``Ranges2D`` pydantic type (str / list[str] input)

Oracles live in vf/ref/c20_model.py (URI tuple model, RFC 3986 host:port text, structural range
evaluator).  Inputs are *rendered* from abstract forms, the reference never parses gallia's input.

Points the statement leaves open are admitted as sets (never the other way round): an input with
a reversed range, an empty part or an undocumented whitespace placement ("grey") may either
denote what the reference says or be rejected with a ValueError; a silently different value is
always a violation.
"""

from __future__ import annotations

import ast
import asyncio
import inspect
import itertools
import socket as _socket
from types import SimpleNamespace
from typing import Any

from vf.engine.runner import Broken, Result
from vf.ref import c20_model as M

ID = "C20"
LEVEL = "exploration"
RULE = (
    "URI: hosts {7 names, 5 IPv4 incl. 0.0.0.0/255.255.255.255, 10 IPv6: full, zero-run, compressed, "
    "::, ::1, link-local, v4-mapped (dotted+hex), upper case} x ports {None,0,1,80,65535} x every scheme "
    "of TransportScheme x parameter maps of the scheme's config model: every field absent (if optional) or "
    "one of 2-4 boundary values, spelled dec/hex/oct/bin - DoIP, HSFZ, can-raw: full product with "
    "independent spellings per field; ISO-TP: full presence/value product under each uniform spelling plus "
    "all 4^8 spelling assignments of the all-present map. quick: all hosts x ports x a small map set "
    "(required-only/all-present, extreme values, uniform + one mixed spelling) and the full map sets x 4 "
    "representative (host, port) (ISO-TP: 2); thorough: full map sets x all hosts x ports (ISO-TP: all hosts, "
    "no port) plus a larger ISO-TP set (3 values per field, 2 all-present vectors) x 2 representatives. "
    "scanners (real main()/enumerate_* code, fake bus/gateway): ISO-TP extended addressing - all 256 address "
    "bytes x 8 tester addresses (low byte 00/f1/ff/digits-only/leading-zero/mixed, 11 and 29 bit) x padding "
    "{None,0,0xaa} x fd x 29-bit; normal addressing - id windows at both ends of the 11 and 29 bit spaces; HSFZ - "
    "all 256 destination addresses x 6 (quick) / all (thorough) hosts x ports x 3 source addresses; DoIP - "
    "target address windows (thorough: all 65536) x (type, source) pairs x protocol versions x hosts x ports; "
    "every emitted URI is parsed back, compared with the endpoint that answered and connected. wire: ISO-TP every "
    "byte value + absent of ext_address/rx_ext_address/tx_padding/rx_padding (others absent / present) and the "
    "product {absent,0,1,0xff}^4 x frame_txtime {absent,0,2^32-1} x tx_dl x fd x 29-bit, decoded from the "
    "recorded setsockopt/bind calls; can-raw bind/FD option; DoIP/HSFZ connect arguments over boundary values "
    "and hosts. notation: 13 prefix-less / malformed hex texts must be rejected and 6 digit strings must be "
    "decimal in auto_int, AutoInt, unravel, Ranges, unravel_2d and every int field of every config model. "
    "history: 22 literals x all ordered pairs of the integer entry points (auto_int, AutoInt, HexInt, "
    "err_int base 0/16, dddi.parse_definitions, EnumArg, unravel, Ranges, unravel_2d, every int field of every "
    "config model): A(L), B(L), A(L) and A(L1), B(L2), A(L1) in one process, each result compared with the "
    "reference of its own entry point (base-0 resp. hex). "
    "host:port: all hosts x ports x default_port {None,0,13400} (+ every port 0..65535 for 1 (quick) / 4 "
    "(thorough) hosts). builders: real HSFZDiscoverer.probe coroutine and AST-extracted "
    "doip:// f-strings with boundary addresses/ports/timeouts (hsfz ack_timeout: 20 floats incl. values whose product with 1000 falls "
    "just below/above a whole number and non-ms values, plus every k/1000 s for k=0..5000). Ranges: numerals "
    "{0,1,7,0x10,0o7,0b11,255,0xffff}; token = numeral or a-b (72 tokens, 7 of them 'wide' = more than 4096 "
    "elements, 28 reversed); unravel/Ranges: all expressions of <=2 tokens over all 72 tokens, all 3-token "
    "expressions over the 65 non-wide tokens (thorough: plus over 65 + the wide tokens 0-0xffff, 0x10-0xffff, "
    "255-0xffff), all 4-token expressions over the 65 non-wide tokens (thorough) / over the 30 tokens of "
    "numerals {0,1,0x10,0o7,0b11} (quick); each via unravel(str), Ranges(str with commas / blanks), "
    "Ranges(list of tokens / one-element list); 11 whitespace placements for <=2 (quick) / <=3 (thorough) "
    "tokens. unravel_2d/Ranges2D: all sequences of <=3 groups outer[:inner] over 7 outer x (bare + 6 inner) "
    "(quick) / 12 outer x (bare + 13 inner) (thorough) expressions incl. overlapping and repeated keys, bare "
    "keys before/after listed ones, reversed and empty parts; str with 1 and 2 blanks, list of groups, and for "
    "<=2 groups leading/trailing blank, tab, one-element list. A URI case is non-trivial if it has a port, a "
    "parameter or a non-DNS host; a range case if it has a range, a non-decimal numeral or >=2 tokens. "
    "distinct_nontrivial counts distinct (scheme, host, port), distinct (scheme, parameter map), distinct "
    "host:port and builder argument tuples and distinct (entry point, denotation) pairs of non-trivial range cases"
)
ASSUMPTIONS = [
    "hosts are compared as hosts (IP literals by address value, DNS names case-insensitively); ports and "
    "parameter texts exactly; 'same numeric settings' = every field of the config model equals the number "
    "written (absent field = the model's default)",
    "reversed ranges, empty parts/expressions and whitespace placements not shown in the docstrings are "
    "'grey': reference denotation or a clean ValueError are both admitted",
    "the DoIP discoverer only talks IPv4 (AF_INET UDP socket in gather_doip_details: an IPv6 host aborts "
    "the scanner before any URI is emitted), so its f-strings are exercised with names and IPv4 only; "
    "partial doip:// URLs (no target_addr/src_addr) are completed with 0 for the transport-acceptance step",
    "HSFZ probe: the emitted ack_timeout must be the whole number of milliseconds nearest to the float passed "
    "(computed exactly with fractions; no half-way values are enumerated)",
    "the doip:// f-strings are additionally cut out of the current source by AST (covers the UDP discovery "
    "string that needs real sockets); if they cannot be located they are listed under 'uncovered'",
    "scanner runs: the probe loops run unmodified; the seams are RawCANTransport / HSFZConnection / "
    "DoIPConnection in the scanner modules, artifacts_dir, db_handler, and asyncio.sleep in discover/doip.py "
    "(yields only); wire runs: the socket module inside transports/isotp.py and transports/can.py and the "
    "DoIPConnection / HSFZConnection names inside the transport modules; the expected socket layout is the Linux "
    "SocketCAN ABI (struct can_isotp_options, can_isotp_ll_options, bind(iface, rx_id, tx_id)) written in "
    "vf/ref/c20_model.py; CAN ids above 0x7ff are only used together with is_extended=true",
    "pydantic, urllib and ipaddress are trusted",
]
CHUNK = 2

# ---------------------------------------------------------------------------------------------
# alphabets

HOSTS_DNS = ["localhost", "can0", "ecu", "ecu-1.example.com", "a.b-c.d.example", "xn--bcher-kva.example", "ECU1.Example.COM"]
HOSTS_V4 = ["0.0.0.0", "255.255.255.255", "127.0.0.1", "192.168.0.1", "10.0.0.255"]
HOSTS_V6 = [
    "::1",
    "::",
    "fe80::1",
    "2001:db8::1",
    "2001:db8:0:0:0:0:0:1",
    "2001:0db8:0000:0000:0000:0000:0000:0001",
    "fe80::1ff:fe23:4567:890a",
    "::ffff:192.0.2.1",
    "::ffff:c000:201",
    "FE80::ABCD",
]
HOSTS = HOSTS_DNS + HOSTS_V4 + HOSTS_V6
PORTS: list[int | None] = [None, 0, 1, 80, 65535]
REPS: list[tuple[str, int | None]] = [("can0", None), ("192.168.0.1", 80), ("fe80::1", 65535), ("2001:db8::1", None)]
ALLPORT_HOSTS = ["ecu", "10.0.0.255", "::1", "fe80::1ff:fe23:4567:890a"]

# field tables: (name, kind, required, boundary values - the two extremes first)
MODELS: dict[str, tuple[str, str, list[tuple[str, str, bool, list[Any]]]]] = {
    "doip": (
        "gallia.transports.doip",
        "DoIPConfig",
        [
            ("src_addr", "int", True, [0, 0xFFFF, 0x0E00]),
            ("target_addr", "int", True, [0, 0xFFFF, 1]),
            ("activation_type", "int", False, [0, 0xFF, 1]),
            ("protocol_version", "int", False, [2, 3]),
        ],
    ),
    "hsfz": (
        "gallia.transports.hsfz",
        "HSFZConfig",
        [
            ("src_addr", "int", True, [0, 0xFF, 0xF4]),
            ("dst_addr", "int", True, [0, 0xFF, 0x10]),
            ("ack_timeout", "int", False, [0, 65535, 1, 1000]),
        ],
    ),
    "isotp": (
        "gallia.transports.isotp",
        "ISOTPConfig",
        [
            ("src_addr", "int", True, [0, 0x1FFFFFFF, 0x7E0]),
            ("dst_addr", "int", True, [0x1FFFFFFF, 1, 0x7E8]),
            ("ext_address", "int", False, [0, 0xFF, 0x6F]),
            ("rx_ext_address", "int", False, [0xFF, 0, 0xF1]),
            ("tx_padding", "int", False, [0, 0xFF, 0xAA]),
            ("rx_padding", "int", False, [0xFF, 0, 0x55]),
            ("frame_txtime", "int", False, [0, 255, 10]),
            ("tx_dl", "int", False, [8, 64, 12]),
            ("is_extended", "bool", False, [True, False]),
            ("is_fd", "bool", False, [False, True]),
        ],
    ),
    "can-raw": (
        "gallia.transports.can",
        "RawCANConfig",
        [
            ("dst_id", "int", False, [0, 0x1FFFFFFF, 0x7FF]),
            ("is_extended", "bool", False, [True, False]),
            ("is_fd", "bool", False, [False, True]),
        ],
    ),
}
CONFIG_MODULES = ["tcp", "unix", "can", "doip", "hsfz", "isotp"]

NUMERALS = [("0", 0), ("1", 1), ("7", 7), ("0x10", 16), ("0o7", 7), ("0b11", 3), ("255", 255), ("0xffff", 65535)]
for _t, _v in NUMERALS:
    assert M.numeral_value(_t) == _v
WIDE = 4096


class Tok:
    __slots__ = ("text", "val", "vals", "rev", "wide", "nontrivial")

    def __init__(self, i: int, j: int | None = None) -> None:
        if j is None:
            self.text = NUMERALS[i][0]
            self.val: Any = NUMERALS[i][1]
            self.vals: Any = frozenset([self.val])
            self.rev = False
            self.wide = False
            self.nontrivial = not self.text.isdigit()
        else:
            a, b = NUMERALS[i][1], NUMERALS[j][1]
            self.text = f"{NUMERALS[i][0]}-{NUMERALS[j][0]}"
            self.val = (a, b)
            self.wide = b - a + 1 > WIDE
            self.vals = range(a, b + 1) if self.wide else frozenset(range(a, b + 1))
            self.rev = a > b
            self.nontrivial = True


def _alphabet(numeral_idx: list[int], wide: bool) -> list[Tok]:
    toks = [Tok(i) for i in numeral_idx] + [Tok(i, j) for i in numeral_idx for j in numeral_idx]
    return [t for t in toks if wide or not t.wide]


ALPHA = {
    "full": _alphabet(list(range(8)), True),  # 72 tokens
    "narrow": _alphabet(list(range(8)), False),  # 65 tokens
    "small": _alphabet([0, 1, 3, 4, 5], False),  # 30 tokens
}
ALPHA["wide3"] = ALPHA["narrow"] + [t for t in ALPHA["full"] if t.text in ("0-0xffff", "0x10-0xffff", "255-0xffff")]  # 68


class Expr:
    """1-D expression used as outer / inner part of a 2-D group"""

    __slots__ = ("text", "vals", "grey")

    def __init__(self, *toks: Tok, empty: bool = False) -> None:
        self.text = ",".join(t.text for t in toks)
        self.vals = [t.val for t in toks]
        self.grey = "grey-rev" if any(t.rev for t in toks) else ("grey-empty" if empty else "")


def _n(i: int) -> Tok:
    return Tok(i)


def _r(i: int, j: int) -> Tok:
    return Tok(i, j)


OUTER_Q = [Expr(_n(0)), Expr(_n(1)), Expr(_n(5)), Expr(_r(0, 1)), Expr(_r(1, 5)), Expr(_n(0), _n(5)), Expr(_r(2, 1))]
INNER_Q = [Expr(_n(4)), Expr(_n(7)), Expr(_r(0, 1)), Expr(_r(1, 2)), Expr(_r(3, 3)), Expr(_r(2, 0))]
OUTER_T = OUTER_Q + [Expr(_n(3)), Expr(_n(2)), Expr(_n(4)), Expr(_r(0, 5)), Expr(_n(3), _r(0, 1))]
INNER_T = INNER_Q + [Expr(_n(0)), Expr(_n(2), _n(6)), Expr(_n(1)), Expr(_n(6)), Expr(_r(5, 3)), Expr(_r(0, 1), _r(1, 2)), Expr(empty=True)]


def _groups(tier: str) -> list[tuple[Expr, Expr | None]]:
    outer, inner = (OUTER_Q, INNER_Q) if tier == "quick" else (OUTER_T, INNER_T)
    return [(o, i) for o in outer for i in [None, *inner]]


# ---------------------------------------------------------------------------------------------
# gallia access

G: dict[str, Any] = {}


class _FakeConn:
    def __init__(self, answers: bool = True) -> None:
        self.reads = 0 if answers else 1

    async def write_diag_request(self, data: bytes) -> None:
        return None

    async def read_diag_request(self) -> bytes:
        self.reads += 1
        if self.reads == 1:
            return bytes.fromhex("5001003201f4")
        raise TimeoutError

    async def close(self) -> None:
        return None


class _FakeHSFZConnection:
    last: Any = None
    silent: Any = None  # set of destination addresses that do not answer the probe

    @classmethod
    async def connect(cls, host: str, port: int, src_addr: int, dst_addr: int, ack_timeout: float) -> _FakeConn:
        cls.last = (host, port, src_addr, dst_addr, ack_timeout)
        return _FakeConn(cls.silent is None or dst_addr not in cls.silent)


def worker_init() -> None:
    import importlib
    import logging

    import gallia.command  # noqa: F401  (import order)
    import pydantic
    from gallia.command import config as gconfig
    from gallia.command.config import AutoInt, Ranges, Ranges2D
    from gallia.net import join_host_port, split_host_port
    from gallia.transports.base import TargetURI
    from gallia.transports.schemes import TransportScheme
    from gallia.utils import auto_int, unravel, unravel_2d

    logging.disable(logging.CRITICAL)
    G.update(
        TargetURI=TargetURI,
        join=join_host_port,
        split=split_host_port,
        auto_int=auto_int,
        AutoInt=pydantic.TypeAdapter(AutoInt).validate_python,
        unravel=unravel,
        unravel_2d=unravel_2d,
        Ranges=pydantic.TypeAdapter(Ranges).validate_python,
        Ranges2D=pydantic.TypeAdapter(Ranges2D).validate_python,
        schemes=sorted(str(s.value) for s in TransportScheme),
        BaseModel=pydantic.BaseModel,
        ValidationError=pydantic.ValidationError,
        gconfig=gconfig,
    )
    models: dict[str, Any] = {}
    for scheme, (modname, clsname, _fields) in MODELS.items():
        mod = importlib.import_module(modname)
        models[scheme] = getattr(mod, clsname, None)
    G["models"] = models
    known = {clsname for _m, clsname, _f in MODELS.values()}
    unknown_models = []
    for name in CONFIG_MODULES:
        mod = importlib.import_module(f"gallia.transports.{name}")
        for k, v in sorted(vars(mod).items()):
            if isinstance(v, type) and issubclass(v, pydantic.BaseModel) and k.endswith("Config") and k not in known:
                if v.__module__ == mod.__name__:
                    unknown_models.append(f"config-model:{k}")
    G["unknown_models"] = unknown_models

    import gallia.commands.discover.doip as ddoip
    import gallia.commands.discover.hsfz as dhsfz
    import gallia.commands.discover.uds.isotp as disotp

    G["HSFZDiscoverer"] = dhsfz.HSFZDiscoverer
    _install_fakes(ddoip, dhsfz, disotp)
    G["doip_fstrings"] = _extract_doip_fstrings(ddoip)
    G["doip_mod"] = ddoip


def _ensure() -> None:
    if not G:
        worker_init()


def call(f: Any, *a: Any, **kw: Any) -> tuple[bool, Any]:
    """run exactly one gallia call; whatever it raises is gallia's answer"""
    try:
        return True, f(*a, **kw)
    except Exception as e:  # noqa: BLE001 - the try body is a single call into gallia
        return False, e


def _exc(e: BaseException) -> str:
    return f"{type(e).__name__}: {str(e).splitlines()[0] if str(e) else ''}"[:160]


# ---------------------------------------------------------------------------------------------
# AST extraction of embedded URI builders


DOIP_NAMES = {
    "self": "pv",
    "tgt_hostname": "host",
    "tgt_port": "port",
    "routing_activation_type": "rat",
    "correct_rat": "rat",
    "source_address": "src",
    "correct_src": "src",
    "item": "hostport",
}
DOIP_KEYS = {"protocol_version": "pv", "activation_type": "rat", "src_addr": "src", "target_addr": "tgt"}


def _extract_doip_fstrings(mod: Any) -> list[tuple[str, Any, list[str]]]:
    try:
        tree = ast.parse(inspect.getsource(mod))
    except (OSError, SyntaxError):
        return []
    out = []
    for node in ast.walk(tree):
        if not isinstance(node, ast.JoinedStr) or not node.values:
            continue
        first = node.values[0]
        if not (isinstance(first, ast.Constant) and isinstance(first.value, str) and first.value.startswith("doip://")):
            continue
        names = sorted({n.id for n in ast.walk(node) if isinstance(n, ast.Name)})
        expr = ast.Expression(body=node)
        ast.fix_missing_locations(expr)
        out.append((f"doip-fstring:{'+'.join(names)}", compile(expr, "<doip-fstring>", "eval"), names))
    out.sort(key=lambda t: t[0])
    return out


# ---------------------------------------------------------------------------------------------
# section: auto_int

AUTOINT_VALUES = [0, 1, 7, 8, 15, 16, 255, 256, 0xFFFF, 0x10000, 0x1FFFFFFF, 0xFFFFFFFF]


def run_autoint(res: Result) -> None:
    for v in AUTOINT_VALUES:
        for how in M.SPELLINGS:
            texts = [M.spell(v, how)]
            if how == "hex" and texts[0] != texts[0][:2] + texts[0][2:].upper():
                texts.append(texts[0][:2] + texts[0][2:].upper())
            for text in texts:
                for entry in ("auto_int", "AutoInt"):
                    check_autoint(res, entry, text, v)


def check_autoint(res: Result, entry: str, text: str, value: int) -> None:
    res.count("evaluations")
    _kind(res, "autoint")
    how = "dec" if text.isdigit() else text[:2]
    if how != "dec":
        res.seen("nontrivial", ("autoint", entry, text))
    ok, out = call(G[entry], text)
    rd = {"kind": "autoint", "entry": entry, "text": text, "value": value}
    if not ok:
        res.violate(f"C20|{entry}|rejected|{how}", f"{entry}({text!r}) raised {_exc(out)}, expected {value}", rd)
    elif out != value or isinstance(out, bool):
        res.violate(f"C20|{entry}|wrong-value|{how}", f"{entry}({text!r}) = {out!r}, expected {value}", rd)


def _kind(res: Result, kind: str, n: int = 1) -> None:
    d = res.notes.setdefault("evaluations_by_kind", {})
    d[kind] = d.get(kind, 0) + n


# ---------------------------------------------------------------------------------------------
# section: host:port


def _pc(port: int | None) -> str:
    return "no-port" if port is None else ("port0" if port == 0 else "port-n")


def check_hostport(res: Result, host: str, port: int | None, default: int | None) -> None:
    """all three directions for one (host, port, default_port)"""
    res.count("evaluations")
    _kind(res, "hostport")
    hc = M.host_class(host)
    want_host = M.norm_host(host)
    want_port = port if port is not None else default
    rd = {"kind": "hostport", "host": host, "port": port, "default": default}
    kw = {} if default is None else {"default_port": default}
    site_sfx = "" if default is None else f" (default_port={default})"

    def judge_split(site: str, text: str, ok: bool, out: Any) -> bool:
        if not ok:
            res.violate(f"C20|{site}|raises|{hc}", f"{site}: {text!r} -> {_exc(out)}; expected ({host!r}, {want_port})", rd)
            return False
        if not (isinstance(out, tuple) and len(out) == 2) or M.norm_host(out[0]) != want_host:
            res.violate(f"C20|{site}|wrong-host|{hc}", f"{site}: {text!r} -> {out!r}; expected host {host!r}", rd)
            return False
        if out[1] != want_port or isinstance(out[1], bool):
            res.violate(f"C20|{site}|wrong-port|{_pc(port)}", f"{site}: {text!r} -> {out!r}; expected port {want_port}", rd)
            return False
        return True

    # (1) split(join(h, p)) == (h, p); when join produces the RFC 3986 text this is clause (2)
    reftext = M.ref_hostport(host, port)
    if port is not None:
        ok, joined = call(G["join"], host, port)
        if not ok or not isinstance(joined, str):
            res.violate(f"C20|join_host_port|raises|{hc}", f"join_host_port({host!r}, {port}) -> {joined!r}", rd)
        elif joined != reftext:
            ok2, out = call(G["split"], joined, **kw)
            judge_split("split.join", f"join_host_port({host!r}, {port}) = {joined}", ok2, out)
    # (2) split of the text a user writes
    texts = [reftext]
    if port is None and hc == "ipv6":
        texts.append(host)  # bare IPv6 literal without brackets
    for t in texts:
        ok, out = call(G["split"], t, **kw)
        good = judge_split("split_host_port", t + site_sfx, ok, out)
        # (3) join(split(text)) gives the text back (canonical spellings only: others may be normalised)
        if good and port is not None and default is None and isinstance(out[1], int):
            ok3, back = call(G["join"], out[0], out[1])
            canonical = str(want_host) == host
            if not ok3:
                res.violate(f"C20|join.split|raises|{hc}", f"join_host_port(*{out!r}) raised {_exc(back)}", rd)
            elif canonical and back != t:
                res.violate(f"C20|join.split|wrong-text|{hc}", f"{t!r} -> split -> {out!r} -> join -> {back!r}", rd)
            elif not canonical:
                ok4, again = call(G["split"], back)
                if not ok4 or not isinstance(again, tuple) or M.norm_host(again[0]) != want_host or again[1] != port:
                    res.violate(f"C20|join.split|wrong-text|{hc}", f"{t!r} -> split -> {out!r} -> join -> {back!r}", rd)
    if port is not None or hc != "dns":
        res.seen("nontrivial", ("hostport", host, port, default))


def run_hostport(res: Result, hosts: list[str], ports: list[int | None], defaults: list[int | None]) -> None:
    for h in hosts:
        for p in ports:
            for d in defaults:
                check_hostport(res, h, p, d)
    if hosts == ["fe80::1"] and len(ports) <= 8:
        res.sample({"host": hosts[-1], "port": ports[-1], "text": M.ref_hostport(hosts[-1], ports[-1])})


# ---------------------------------------------------------------------------------------------
# section: URI round trip + transport config

BOOL_TEXT = {True: "true", False: "false"}


def field_options(field: tuple[str, str, bool, list[Any]], nvals: int, spellings: tuple[str, ...]) -> list[Any]:
    """options of one field: None (absent) | (spelling, value)"""
    name, kind, required, values = field
    opts: list[Any] = [] if required else [None]
    if kind == "bool":
        opts += [("bool", v) for v in values]
    else:
        opts += [(s, v) for v in values[:nvals] for s in spellings]
        if name == "ack_timeout" and len(spellings) > 1:
            opts += [("pyint", v) for v in values[:nvals]]  # the HSFZ discoverer passes a Python int
    return opts


def render(opt: tuple[str, Any]) -> Any:
    how, v = opt
    if how == "bool":
        return BOOL_TEXT[v]
    if how == "pyint":
        return v
    return M.spell(v, how)


def mapsets(scheme: str, size: str) -> dict[str, list[list[list[Any]]]]:
    """named map sets of a scheme; a map set is a list of option-list vectors (one product each)"""
    fields = MODELS[scheme][2]
    all4 = M.SPELLINGS
    out: dict[str, list[list[list[Any]]]] = {}
    if scheme in ("doip", "hsfz", "can-raw"):
        out["full"] = [[field_options(f, 3 if scheme != "hsfz" else 4, all4) for f in fields]]
    else:
        nv = 2 if size == "quick" else 3
        out["full"] = [[field_options(f, nv, (s,)) for f in fields] for s in all4]
        mixed = []
        for vi in (0,) if size == "quick" else (0, 1):
            vec = []
            for f in fields:
                if f[1] == "bool":
                    vec.append([("bool", f[3][vi])])
                else:
                    vec.append([(s, f[3][vi]) for s in all4])
            mixed.append(vec)
        out["full"] += mixed
    # small: required-only and all-present maps, extreme values, each uniform spelling + one mixed
    small = []
    for s in all4:
        for vi in (0, 1):
            small.append([[(("bool" if f[1] == "bool" else s), f[3][vi])] if f[2] else [None] for f in fields])
            small.append([[(("bool" if f[1] == "bool" else s), f[3][vi])] for f in fields])
    small.append([[(("bool" if f[1] == "bool" else all4[i % 4]), f[3][-1])] for i, f in enumerate(fields)])
    small.append([[(("bool" if f[1] == "bool" else "hexu"), f[3][1])] for f in fields])  # upper-case hex digits
    out["small"] = small
    return out


def check_uri(
    res: Result,
    scheme: str,
    host: str,
    port: int | None,
    opts: tuple[Any, ...] | None,
    args: dict[str, Any],
    record_map: bool,
) -> None:
    res.count("evaluations")
    TargetURI = G["TargetURI"]
    hc = M.host_class(host)
    cls = hc + ("-noport" if port is None else "+port")
    rd = {"kind": "uri", "scheme": scheme, "host": host, "port": port, "args": [[k, v] for k, v in args.items()], "opts": opts}
    ref = M.ref_uri(scheme, host, port, args)

    def bad(clause: str, msg: str) -> None:
        sig = "C20|from_parts|qs_flat" if clause == "qs_flat" else f"C20|from_parts|{clause}|{cls}"
        res.violate(sig, f"{scheme} {host!r} {port} {args}: {msg}", rd)

    ok, u = call(TargetURI.from_parts, scheme, host, port, dict(args))
    if not ok:
        return bad("build-raises", _exc(u))
    raw = str(u)
    ok, v = call(TargetURI, raw)
    if not ok:
        return bad("parse-raises", f"TargetURI({raw!r}) raised {_exc(v)}")
    structural_ok = False
    ok, got = call(lambda: str(v.scheme))
    if not ok or got != scheme:
        bad("scheme", f"{raw!r}: scheme -> {_exc(got) if not ok else got!r}")
    else:
        ok, got = call(lambda: v.hostname)
        if not ok or M.norm_host(got) != ref[1]:
            bad("hostname" if ok else "hostname-raises", f"{raw!r}: hostname -> {_exc(got) if not ok else got!r}, expected {host!r}")
        else:
            ok, got = call(lambda: v.port)
            if not ok:
                bad("port-raises", f"{raw!r}: port -> {_exc(got)}, expected {port}")
            elif got != port or isinstance(got, bool):
                bad("port", f"{raw!r}: port -> {got!r}, expected {port}")
            else:
                ok, got = call(lambda: v.location)
                if not ok or got != f"{scheme}://{M.ref_hostport(host, port)}":
                    bad("location", f"{raw!r}: location -> {_exc(got) if not ok else got!r}")
                else:
                    structural_ok = True
    ok, qs = call(lambda: v.qs_flat)
    if not ok or qs != ref[3]:
        bad("qs_flat", f"{raw!r}: qs_flat -> {_exc(qs) if not ok else qs!r}, expected {ref[3]}")
        return None
    if structural_ok:
        res.count("uri_roundtrips_ok")
    if port is not None or args or hc != "dns":
        res.seen("nontrivial", ("hp", scheme, host, port))
        if record_map and args:
            res.seen("nontrivial", ("map", scheme, tuple(args.items())))
    if opts is not None:
        check_config(res, scheme, qs, opts, rd)
    return None


def check_config(res: Result, scheme: str, qs: dict[str, str], opts: tuple[Any, ...], rd: dict[str, Any]) -> None:
    model = G["models"].get(scheme)
    mname = MODELS[scheme][1]
    if model is None:
        res.uncovered.add(f"config-model:{mname}")
        return
    fields = MODELS[scheme][2]
    res.count("config_validations")
    qs = dict(qs)
    ok, cfg = call(lambda: model(**qs))
    if not ok:
        if not isinstance(cfg, G["ValidationError"]):
            res.violate(f"C20|config|{mname}|raises-{type(cfg).__name__}", f"{mname}(**{qs}) raised {_exc(cfg)}", rd)
            return
        failing = sorted({str(e["loc"][0]) if e["loc"] else "?" for e in cfg.errors()})
        retry = dict(qs)
        for fname in failing:
            opt = next((o for f, o in zip(fields, opts, strict=True) if f[0] == fname), None)
            if opt is None:
                res.violate(f"C20|config|{mname}.{fname}|rejected|absent", f"{mname}(**{qs}): {_exc(cfg)}", rd)
                return
            how = {"dec": "decimal", "pyint": "decimal", "bool": "bool"}.get(opt[0], "non-decimal")
            res.violate(
                f"C20|config|{mname}.{fname}|{how}-rejected",
                f"{mname} rejects {fname}={qs.get(fname)!r} (= {opt[1]}): {_exc(cfg)}",
                rd,
            )
            if how != "non-decimal":
                return
            retry[fname] = str(opt[1])
        ok, cfg = call(lambda: model(**retry))  # the other fields, failing ones respelled in decimal
        if not ok:
            res.violate(f"C20|config|{mname}|rejected-after-respelling", f"{mname}(**{retry}) raised {_exc(cfg)}", rd)
            return
    for f, opt in zip(fields, opts, strict=True):
        fname = f[0]
        if fname not in type(cfg).model_fields:
            res.uncovered.add(f"field-missing:{mname}.{fname}")
            continue
        want = opt[1] if opt is not None else type(cfg).model_fields[fname].default
        got = getattr(cfg, fname)
        if got != want or type(got) is not type(want):
            how = "default" if opt is None else {"dec": "decimal", "pyint": "decimal", "bool": "bool"}.get(opt[0], opt[0])
            res.violate(
                f"C20|config|{mname}.{fname}|wrong-value|{how}",
                f"{mname}(**{qs}).{fname} = {got!r}, expected {want!r}",
                rd,
            )
    extra = sorted(set(type(cfg).model_fields) - {f[0] for f in fields})
    for name in extra:
        res.uncovered.add(f"field:{mname}.{name}")


def run_uri(res: Result, scheme: str, setname: str, size: str, vec_i: int, fixed: tuple[int, ...], hps: list[tuple[str, int | None]], record: bool) -> None:
    fields = MODELS[scheme][2]
    vec = mapsets(scheme, size)[setname][vec_i]
    head = [vec[i][k] for i, k in enumerate(fixed)]
    n = 0
    for tail in itertools.product(*vec[len(fixed) :]):
        opts = tuple(head) + tail
        args = {f[0]: render(o) for f, o in zip(fields, opts, strict=True) if o is not None}
        for hi, (h, p) in enumerate(hps):
            check_uri(res, scheme, h, p, opts, args, record and hi == 0)
            n += 1
    _kind(res, "uri", n)
    if hps and n and setname == "small" and vec_i == 1:
        res.sample({"scheme": scheme, "host": hps[-1][0], "port": hps[-1][1], "args": args, "uri": _try_uri(scheme, hps[-1], args)}, cap=1)


def _try_uri(scheme: str, hp: tuple[str, int | None], args: dict[str, Any]) -> str:
    ok, u = call(G["TargetURI"].from_parts, scheme, hp[0], hp[1], dict(args))
    return str(u) if ok else _exc(u)


def run_uri_generic(res: Result) -> None:
    """schemes without a config model in the table: round trip only"""
    n = 0
    for scheme in G["schemes"]:
        if scheme in MODELS:
            continue
        res.uncovered.add(f"config-model-of-scheme:{scheme}(none: round trip only)")
        for h in HOSTS:
            for p in PORTS:
                for args in ({}, {"a": "0x1"}, {"a": "1", "b_c": "0b10", "d": "x-y.z"}, {"S": "A b&c=d+E%2f#g/\u00fc;x", "t": "0XfF"}):
                    check_uri(res, scheme, h, p, None, args, True)
                    n += 1
    for m in G["unknown_models"]:
        res.uncovered.add(m)
    _kind(res, "uri", n)


# ---------------------------------------------------------------------------------------------
# section: scanner URI builders

# exact ones, plus values v where v * 1000 is not representable and lands just below / above a whole number
# (truncation and rounding differ for the first group), plus values that are no whole number of ms
HSFZ_ACKS: list[float | None] = [
    None, 0.001, 0.25, 0.5, 0.999, 1.0, 1.5, 2.0, 10.0,
    1.001, 1.023, 2.002, 4.004, 0.57, 8.2, 0.29, 1.1,
    0.0004, 0.0006, 1.2344, 1.2346,
]  # fmt: skip
HSFZ_MS_SWEEP = 5001  # every k/1000 s, k = 0..5000, for one (host, port, src, dst)


def check_hsfz_probe(res: Result, loop: Any, host: str, port: int, src: int, dst: int, ack: float | None) -> None:
    res.count("evaluations")
    _kind(res, "builder-hsfz")
    res.seen("nontrivial", ("hsfz-probe", host, port, src, dst, ack))
    rd = {"kind": "hsfz", "host": host, "port": port, "src": src, "dst": dst, "ack": ack}
    hc = M.host_class(host)
    site = "builder:hsfz-probe"
    inst = object.__new__(G["HSFZDiscoverer"])
    kw = {} if ack is None else {"ack_timeout": ack}
    want_ack = 1.0 if ack is None else ack
    ok, u = call(lambda: loop.run_until_complete(inst.probe(host, port, src, dst, 0.5, **kw)))
    if not ok or u is None:
        res.violate(f"C20|{site}|build-raises|{hc}", f"probe({host!r}, {port}, {src:#x}, {dst:#x}, ack={ack}) -> {_exc(u) if not ok else None}", rd)
        return
    raw = str(u)
    ok, v = call(G["TargetURI"], raw)
    if not ok:
        res.violate(f"C20|{site}|parse-raises|{hc}", f"{raw!r}: {_exc(v)}", rd)
        return
    ok, got = call(lambda: (str(v.scheme), v.hostname))
    if not ok or got[0] != "hsfz" or M.norm_host(got[1]) != M.norm_host(host):
        res.violate(f"C20|{site}|hostname|{hc}", f"{raw!r}: (scheme, hostname) -> {_exc(got) if not ok else got!r}, expected {host!r}", rd)
    else:
        ok, got = call(lambda: v.port)
        if not ok:
            res.violate(f"C20|{site}|port-raises|{hc}", f"{raw!r}: port -> {_exc(got)}, expected {port}", rd)
        elif got != port:
            res.violate(f"C20|{site}|port|{hc}", f"{raw!r}: port -> {got!r}, expected {port}", rd)
    ok, qs = call(lambda: v.qs_flat)
    model = G["models"]["hsfz"]
    ok2, cfg = call(lambda: model(**qs)) if ok else (False, qs)
    if not ok2:
        res.violate(f"C20|{site}|config-rejected", f"{raw!r}: HSFZConfig -> {_exc(cfg)}", rd)
        return
    for name, want in (("src_addr", src), ("dst_addr", dst)):
        if getattr(cfg, name) != want:
            res.violate(f"C20|{site}|{name}|wrong-value", f"{raw!r}: {name} = {getattr(cfg, name)!r}, expected {want:#x}", rd)
    want_ms = M.nearest_ms(want_ack)
    if cfg.ack_timeout != want_ms:
        sub = "off-by-1ms" if abs(cfg.ack_timeout - want_ms) == 1 else ("sub-second" if want_ack < 1 else "fractional")
        res.violate(
            f"C20|{site}|ack_timeout|{sub}",
            f"probe(..., ack_timeout={want_ack!r}) emits {raw!r}: transport would use {cfg.ack_timeout} ms, nearest to the value passed is {want_ms} ms",
            rd,
        )


def run_hsfz(res: Result, hosts: list[str]) -> None:
    loop = asyncio.new_event_loop()
    try:
        if not hosts:  # millisecond sweep
            for k in range(HSFZ_MS_SWEEP):
                check_hsfz_probe(res, loop, "192.168.0.1", 6801, 0xF4, 0x10, k / 1000)
        for h in hosts:
            for p in (0, 1, 6801, 65535):
                for src in (0, 0xF4, 0xFF):
                    for dst in (0, 0x10, 0xFF):
                        for ack in HSFZ_ACKS:
                            check_hsfz_probe(res, loop, h, p, src, dst, ack)
    finally:
        loop.close()
    if hosts == ["192.168.0.1"]:
        res.sample({"hsfz-probe": ["192.168.0.1", 6801, 0xF4, 0x10, "ack_timeout=2.0"], "emits": "hsfz://192.168.0.1:6801?src_addr=0xf4&dst_addr=0x10&ack_timeout=2000"}, cap=1)


def check_doip_fstring(res: Result, label: str, host: str, port: int, pv: int, rat: int, src: int, tgt: int) -> None:
    entry = next((e for e in G["doip_fstrings"] if e[0] == label), None)
    if entry is None:
        res.uncovered.add(f"builder:{label}(not found in source)")
        return
    _label, code, names = entry
    unknown = [n for n in names if n not in DOIP_NAMES]
    if unknown:
        res.uncovered.add(f"builder:{label}(unknown names {unknown})")
        return
    res.count("evaluations")
    _kind(res, "builder-doip")
    res.seen("nontrivial", (label, host, port, pv, rat, src, tgt))
    rd = {"kind": "doip", "label": label, "args": [host, port, pv, rat, src, tgt]}
    site = f"builder:{label}"
    hc = M.host_class(host)
    ns = dict(vars(G["doip_mod"]))
    ns.update(
        self=SimpleNamespace(protocol_version=pv),
        tgt_hostname=host,
        tgt_port=port,
        routing_activation_type=rat,
        correct_rat=rat,
        source_address=src,
        correct_src=src,
        item=(host, port),
    )
    ok, raw = call(lambda: eval(code, ns))  # noqa: S307 - expression cut out of gallia's own scanner
    template = ok and isinstance(raw, str) and "{" in raw
    if template:
        ok, raw = call(raw.format, tgt)
    if not ok or not isinstance(raw, str):
        res.violate(f"C20|{site}|build-raises|{hc}", f"{rd['args']}: {raw!r}", rd)
        return
    ok, v = call(G["TargetURI"], raw)
    ok2, got = call(lambda: (str(v.scheme), v.hostname, v.port)) if ok else (False, v)
    if not ok2 or got[0] != "doip" or M.norm_host(got[1]) != M.norm_host(host) or got[2] != port:
        res.violate(f"C20|{site}|netloc|{hc}", f"{raw!r}: (scheme, hostname, port) -> {_exc(got) if not ok2 else got!r}, expected doip/{host}/{port}", rd)
        return
    ok, qs = call(lambda: v.qs_flat)
    values = {"pv": pv, "rat": rat, "src": src, "tgt": tgt}
    need = {k for k, sym in DOIP_KEYS.items() if any(DOIP_NAMES[n] == sym for n in names)}
    if template:
        need.add("target_addr")
    if not ok or not need <= set(qs) or not set(qs) <= set(DOIP_KEYS):
        res.violate(f"C20|{site}|qs_flat|keys", f"{raw!r}: qs_flat -> {qs!r}, expected keys {sorted(need)}", rd)
        return
    for k, text in qs.items():
        try:
            num = M.numeral_value(text)
        except ValueError:
            num = None
        if num != values[DOIP_KEYS[k]]:
            res.violate(f"C20|{site}|qs_flat|{k}", f"{raw!r}: {k}={text!r}, expected {values[DOIP_KEYS[k]]:#x}", rd)
            return
    completed = {"src_addr": "0", "target_addr": "0", **qs}
    model = G["models"]["doip"]
    ok, cfg = call(lambda: model(**completed))
    if not ok:
        res.violate(f"C20|{site}|config-rejected", f"{raw!r}: DoIPConfig(**{completed}) -> {_exc(cfg)}", rd)
        return
    for k in qs:
        if getattr(cfg, k) != values[DOIP_KEYS[k]]:
            res.violate(f"C20|{site}|{k}|wrong-value", f"{raw!r}: {k} = {getattr(cfg, k)!r}, expected {values[DOIP_KEYS[k]]:#x}", rd)


def run_doip(res: Result) -> None:
    found = G["doip_fstrings"]
    if not found:
        res.uncovered.add("builder:doip-fstrings(none found in source)")
    for label, _code, _names in found:
        for host in HOSTS_DNS + HOSTS_V4:
            for port in (0, 1, 80, 13400, 65535):
                for pv in (2, 3, 0xFF):
                    for rat in (0, 1, 0xE0, 0xFF):
                        for src in (0, 0x0E00, 0xFFFF):
                            for tgt in (0, 1, 0xFFFF):
                                check_doip_fstring(res, label, host, port, pv, rat, src, tgt)


# ---------------------------------------------------------------------------------------------
# section: ranges


def _grp(entry: str) -> str:
    return entry.split("/")[0]


WRAPS = {"Ranges": "unravel", "Ranges2D": "unravel_2d"}


def judge_range(res: Result, entry: str, inp: Any, expected: Any, cls: str, replay_extra: dict[str, Any]) -> bool:
    """entry = '<callable key>/<variant>'; cls = 'core' | 'grey-rev' | 'grey-ws' | 'grey-empty'.

    replay_extra['raw'] is the canonical text of the same expression for the raw function: a failure of a
    pydantic wrapper that the raw function shows identically is filed under the raw function's signature.
    """
    grp = _grp(entry)
    ok, out = call(G[grp], inp)
    if ok and out == expected and type(out) is type(expected):
        return True
    if not ok and cls != "core" and isinstance(out, ValueError):
        res.count("admitted_rejections")
        d = res.notes.setdefault("admitted_rejections_by_variant", {})
        d[f"{entry}|{cls}"] = d.get(f"{entry}|{cls}", 0) + 1
        return True
    site, shown = grp, out
    raw = replay_extra.get("raw")
    if grp in WRAPS and raw is not None:
        rok, rout = call(G[WRAPS[grp]], raw)
        if (not ok and not rok) or (ok and rok and rout == out):
            site, shown = WRAPS[grp], rout
    if not ok:
        sig = f"C20|{site}|raises-{type(shown).__name__}|{cls}"
        msg = f"{entry}({inp!r}) raised {_exc(out)}; denotes {_short(expected)}"
    else:
        sig = f"C20|{site}|wrong-value|{_diff(out, expected)}"
        msg = f"{entry}({inp!r}) = {_short(out)}; denotes {_short(expected)}"
    res.violate(sig, msg, {"entry": entry, "input": inp, "cls": cls, **replay_extra})
    return False


def _short(v: Any) -> str:
    s = repr(v)
    return s if len(s) <= 120 else s[:80] + " ... " + s[-30:]


def _diff(out: Any, exp: Any) -> str:
    if isinstance(exp, list):
        if not isinstance(out, list):
            return "wrong-type"
        so, se = set(out), set(exp)
        if so == se:
            return "unsorted-or-duplicates"
        return "missing+extra" if (se - so and so - se) else ("missing-elements" if se - so else "extra-elements")
    if not isinstance(out, dict):
        return "wrong-type"
    if set(out) != set(exp):
        return "keys-differ"
    kinds = set()
    for k, e in exp.items():
        o = out[k]
        if o == e:
            continue
        if e is None:
            kinds.add("all-lost")
        elif o is None:
            kinds.add("all-spurious")
        else:
            kinds.add("inner-" + _diff(o, e))
    for k in ("all-lost", "all-spurious"):  # one primary kind per case keeps signatures few
        if k in kinds:
            return k
    return sorted(kinds)[0] if kinds else "differs"


R1_WS = [
    ("unravel/lead", lambda ts: " " + ",".join(ts)),
    ("unravel/trail", lambda ts: ",".join(ts) + " "),
    ("unravel/comma-sp", lambda ts: ", ".join(ts)),
    ("unravel/sp-comma", lambda ts: " ,".join(ts)),
    ("unravel/hyphen-sp", lambda ts: ",".join(t.replace("-", " - ") for t in ts)),
    ("unravel/tab", lambda ts: "\t" + ",".join(ts)),
    ("Ranges/str-2sp", lambda ts: "  ".join(ts)),
    ("Ranges/str-tab", lambda ts: "\t".join(ts)),
    ("Ranges/str-comma-sp", lambda ts: ", ".join(ts)),
    ("Ranges/str-lead-trail", lambda ts: " " + ",".join(ts) + " "),
    ("Ranges/list-padded", lambda ts: [" " + t + " " for t in ts]),
]


def run_r1(res: Result, alpha: str, ntok: int, prefix: tuple[int, ...], mode: str) -> None:
    """mode: 'all' (every entry + whitespace variants) | 'entries' (every entry) | 'bulk' (3 entries)"""
    A = ALPHA[alpha]
    seen_local: set[Any] = set()
    n = 0
    for combo in itertools.product(range(len(A)), repeat=ntok - len(prefix)):
        idx = prefix + combo
        toks = [A[i] for i in idx]
        texts = [t.text for t in toks]
        wide = any(t.wide for t in toks)
        expected = sorted(set().union(*[t.vals for t in toks]))
        rev = any(t.rev for t in toks)
        base = "grey-rev" if rev else ("grey-empty" if not toks else "core")
        grey_ws = "grey-rev" if rev else "grey-ws"
        comma = ",".join(texts)
        extra = {"kind": "r1", "tokens": [t.val for t in toks], "raw": comma}
        cases: list[tuple[str, Any, str]] = [
            ("unravel/str", comma, base),
            ("Ranges/list-tokens", texts, "grey-rev" if rev else "core"),
        ]
        if not (wide and mode == "bulk"):
            cases.append(("Ranges/str-space", " ".join(texts), base))
        if mode != "bulk":
            cases += [("Ranges/str-comma", comma, base), ("Ranges/list-one", [comma], base)]
        if mode == "all" and toks and not wide:
            cases += [(e, f(texts), grey_ws) for e, f in R1_WS]
        for entry, inp, cls in cases:
            judge_range(res, entry, inp, expected, cls, extra)
        n += len(cases)
        if ntok >= 2 or any(t.nontrivial for t in toks):
            key = (len(expected), expected[0], expected[-1], sum(expected)) if len(expected) > 64 else tuple(expected)
            seen_local.add(key)
    res.count("evaluations", n)
    _kind(res, "r1", n)
    for key in sorted(seen_local, key=repr):
        res.seen("nontrivial", ("unravel", key))
        res.seen("nontrivial", ("Ranges", key))
    if n and (alpha, ntok, prefix) == ("narrow", 2, (12,)):
        res.sample({"unravel": comma, "denotes": _short(expected)}, cap=1)


R2_WS = [
    ("unravel_2d/lead", lambda gs: " " + " ".join(gs), "grey-ws"),
    ("unravel_2d/trail", lambda gs: " ".join(gs) + " ", "grey-ws"),
    ("unravel_2d/tab", lambda gs: "\t".join(gs), "grey-ws"),
    ("Ranges2D/str-2sp", lambda gs: "  ".join(gs), "core"),
    ("Ranges2D/list-one", lambda gs: [" ".join(gs)], "core"),
    ("Ranges2D/list-padded", lambda gs: [" " + g + " " for g in gs], "grey-ws"),
]


def run_r2(res: Result, tier: str, ngroups: int, prefix: tuple[int, ...], ws: bool) -> None:
    GR = _groups(tier)
    seen_local: set[Any] = set()
    n = 0
    text = ""
    expected: Any = {}
    for combo in itertools.product(range(len(GR)), repeat=ngroups - len(prefix)):
        groups = [GR[i] for i in prefix + combo]
        gtexts = [o.text if i is None else f"{o.text}:{i.text}" for o, i in groups]
        abstract = [(o.vals, None if i is None else i.vals) for o, i in groups]
        expected = M.eval_2d(abstract)
        greys = {g for o, i in groups for g in (o.grey, "" if i is None else i.grey) if g}
        base = "grey-rev" if "grey-rev" in greys else ("grey-empty" if greys or not groups else "core")
        text = " ".join(gtexts)
        extra = {"kind": "r2", "groups": [[o, i] for o, i in abstract], "raw": text}
        cases: list[tuple[str, Any, str]] = [
            ("unravel_2d/str", text, base),
            ("unravel_2d/str-2sp", "  ".join(gtexts), base),
            ("Ranges2D/str", text, base),
            ("Ranges2D/list-groups", gtexts, base if groups else "core"),
        ]
        if ws and groups:
            # a tab after an empty inner part ("0:<TAB>1") is ambiguous (separator or padding of the next
            # numeral?) - the statement fixes no reading, so that rendering is not generated
            ambiguous_tab = any(i is not None and not i.vals for _o, i in groups[:-1])
            cases += [
                (e, f(gtexts), cls if base == "core" else base)
                for e, f, cls in R2_WS
                if not (e == "unravel_2d/tab" and ambiguous_tab)
            ]
        for entry, inp, cls in cases:
            judge_range(res, entry, inp, expected, cls, extra)
        n += len(cases)
        if groups:
            seen_local.add(tuple((k, None if v is None else tuple(v)) for k, v in expected.items()))
    res.count("evaluations", n)
    _kind(res, "r2", n)
    for key in sorted(seen_local, key=repr):
        res.seen("nontrivial", ("unravel_2d", key))
        res.seen("nontrivial", ("Ranges2D", key))
    if n and ngroups == 2 and prefix == (11,):
        res.sample({"unravel_2d": text, "denotes": _short(expected)}, cap=1)


# ---------------------------------------------------------------------------------------------
# fakes: sockets, connections, artifact files, database.  They are the only seams; everything between
# the scanner's probe loop and the emitted URI, and between the URI and the socket, is gallia's code.


class FakeSocket:
    def __init__(self, *a: Any) -> None:
        self.args = a
        self.log: list[tuple[Any, ...]] = []

    def setblocking(self, flag: bool) -> None:
        self.log.append(("setblocking", flag))

    def setsockopt(self, level: int, opt: int, value: Any) -> None:
        self.log.append(("opt", level, opt, value))

    def bind(self, addr: Any) -> None:
        self.log.append(("bind", addr))

    def close(self) -> None:
        self.log.append(("close",))

    def fileno(self) -> int:
        return -1


class SocketShim:
    """stands in for the ``socket`` module inside gallia.transports.isotp / gallia.transports.can"""

    def __init__(self) -> None:
        self.created: list[FakeSocket] = []

    def __getattr__(self, name: str) -> Any:
        return getattr(_socket, name)

    def socket(self, *a: Any, **kw: Any) -> FakeSocket:
        sock = FakeSocket(*a)
        self.created = [sock]
        return sock


class ConnRecorder:
    """stands in for DoIPConnection / HSFZConnection inside the *transport* modules: records what connect() passes on"""

    calls: list[Any] = []

    @classmethod
    async def connect(cls, *a: Any, **kw: Any) -> Any:
        cls.calls.append(("connect", a, kw))
        return cls()

    async def write_routing_activation_request(self, rat: Any) -> None:
        type(self).calls.append(("rat", int(rat)))

    async def close(self) -> None:
        return None


class FakeFile:
    def __init__(self, lines: list[str]) -> None:
        self.lines = lines

    def __enter__(self) -> "FakeFile":
        return self

    def __exit__(self, *a: Any) -> None:
        return None

    def write(self, text: str) -> int:
        self.lines.append(text)
        return len(text)


class FakePath:
    def __init__(self, files: dict[str, list[str]], name: str) -> None:
        self.files, self.name = files, name

    def open(self, mode: str = "r") -> FakeFile:
        if "w" in mode:
            self.files[self.name] = []
        return FakeFile(self.files.setdefault(self.name, []))

    def __str__(self) -> str:
        return f"<artifacts>/{self.name}"


class FakeDir:
    def __init__(self) -> None:
        self.files: dict[str, list[str]] = {}

    def joinpath(self, name: str) -> FakePath:
        return FakePath(self.files, name)

    def lines(self, name: str) -> list[str]:
        return [x.rstrip("\n") for x in self.files.get(name, [])]


class FakeDB:
    def __init__(self) -> None:
        self.results: list[str] = []

    async def connect(self) -> None:
        return None

    async def disconnect(self) -> None:
        return None

    async def insert_discovery_run(self, what: str) -> None:
        return None

    async def insert_discovery_result(self, url: str) -> None:
        self.results.append(url)


class FakeRawCAN:
    """CAN bus with ECUs: ``answer`` maps the probed key (CAN id, or extended address byte in extended mode) to
    the CAN id the ECU answers from"""

    SCHEME = "can-raw"
    current: Any = None

    def __init__(self, is_fd: bool, is_extended: bool, ext_mode: bool, answer: dict[int, int]) -> None:
        self.config = SimpleNamespace(is_fd=is_fd, is_extended=is_extended)
        self.ext_mode, self.answer = ext_mode, answer
        self.queue: list[tuple[int, bytes]] = []

    @classmethod
    async def connect(cls, target: Any, timeout: float | None = None) -> Any:
        return cls.current

    async def get_idle_traffic(self, sniff_time: float) -> list[int]:
        return []

    def set_filter(self, can_ids: list[int], inv_filter: bool = False) -> None:
        return None

    async def sendto(self, data: bytes, dst: int, timeout: float | None = None, tags: Any = None) -> int:
        key = data[0] if self.ext_mode else dst
        self.queue = [(self.answer[key], bytes.fromhex("027e00"))] if key in self.answer else []
        return len(data)

    async def recvfrom(self, timeout: float | None = None, tags: Any = None) -> tuple[int, bytes]:
        if self.queue:
            return self.queue.pop(0)
        raise TimeoutError

    async def close(self) -> None:
        return None


class FakeDoIPGateway:
    """stands in for DoIPConnection inside commands/discover/doip.py"""

    scen: Any = None  # SimpleNamespace(allowed={(rat, src)}, unknown=set, unreachable=set, responsive=set)
    codes: Any = None

    def __init__(self, src: int, target: int) -> None:
        self.src_addr, self.target_addr = src, target
        self.queue: asyncio.Queue[Any] = asyncio.Queue()

    @classmethod
    async def connect(cls, host: str, port: int, src_addr: int, target_addr: int, **kw: Any) -> Any:
        return cls(src_addr, target_addr)

    async def write_routing_activation_request(self, rat: Any) -> None:
        if (int(rat), self.src_addr) not in self.scen.allowed:
            raise self.codes.denied(self.codes.unknown_source)

    async def write_diag_request(self, pdu: bytes) -> None:
        t = self.target_addr
        if t in self.scen.unknown:
            raise self.codes.nack(self.codes.unknown_target)
        if t in self.scen.unreachable:
            raise self.codes.nack(self.codes.unreachable)
        if t in self.scen.responsive:
            self.queue.put_nowait((None, SimpleNamespace(SourceAddress=t, TargetAddress=self.src_addr, UserData=bytes.fromhex("7e00"))))

    async def read_diag_request_raw(self) -> Any:
        return await self.queue.get()

    async def close(self) -> None:
        return None


class AsyncioShim:
    """``asyncio`` for commands/discover/doip.py with sleeps that only yield (the scanner's waits are not under test)"""

    def __getattr__(self, name: str) -> Any:
        return getattr(asyncio, name)

    @staticmethod
    async def sleep(delay: float, result: Any = None) -> Any:
        for _ in range(3):
            await asyncio.sleep(0)
        return result


def _install_fakes(ddoip: Any, dhsfz: Any, disotp: Any) -> None:
    import gallia.transports.can as tcan
    import gallia.transports.doip as tdoip
    import gallia.transports.hsfz as thsfz
    import gallia.transports.isotp as tisotp

    shim = SocketShim()
    tisotp.s = shim  # type: ignore[attr-defined]
    tcan.s = shim  # type: ignore[attr-defined]
    tdoip.DoIPConnection = ConnRecorder  # type: ignore[misc,assignment]
    thsfz.HSFZConnection = ConnRecorder  # type: ignore[misc,assignment]
    dhsfz.HSFZConnection = _FakeHSFZConnection
    disotp.RawCANTransport = FakeRawCAN
    ddoip.DoIPConnection = FakeDoIPGateway
    ddoip.asyncio = AsyncioShim()
    FakeDoIPGateway.codes = SimpleNamespace(
        denied=tdoip.DoIPRoutingActivationDeniedError,
        nack=tdoip.DoIPNegativeAckError,
        unknown_source=int(tdoip.RoutingActivationResponseCodes.UnknownSourceAddress),
        unknown_target=int(tdoip.DiagnosticMessageNegativeAckCodes.UnknownTargetAddress),
        unreachable=int(tdoip.DiagnosticMessageNegativeAckCodes.TargetUnreachable),
    )
    G.update(
        shim=shim,
        transports={"isotp": tisotp.ISOTPTransport, "can-raw": tcan.RawCANTransport, "doip": tdoip.DoIPTransport, "hsfz": thsfz.HSFZTransport},
        IsotpDiscoverer=disotp.IsotpDiscoverer,
        DoIPDiscoverer=ddoip.DoIPDiscoverer,
    )


def _default(scheme: str, field: str) -> Any:
    return G["models"][scheme].model_fields[field].default


# ---------------------------------------------------------------------------------------------
# section: what the transport does with an accepted URI ("wire"): real <Transport>.connect, fake socket/connection


def wire_check(res: Result, loop: Any, site: str, scheme: str, url: str, host: str, want: dict[str, Any], rd: dict[str, Any]) -> bool:
    """``want``: the numeric settings the URI denotes (None = parameter absent); host/port for ip transports"""
    transport = G["transports"][scheme]
    ConnRecorder.calls = []
    G["shim"].created = []
    ok, t = call(lambda: loop.run_until_complete(transport.connect(url)))
    if not ok:
        res.violate(f"C20|{site}|connect-raises", f"{transport.__name__}.connect({url!r}) raised {_exc(t)}", rd)
        return False
    bad: list[tuple[str, str]] = []
    if scheme == "isotp":
        full = dict(want)
        for f in ("frame_txtime", "tx_dl", "is_fd", "is_extended"):
            if full.get(f) is None:
                full[f] = _default("isotp", f)
        log = G["shim"].created[0].log if G["shim"].created else []
        bad = M.isotp_wire_mismatches(host, full, log)
    elif scheme == "can-raw":
        log = G["shim"].created[0].log if G["shim"].created else []
        binds = [e[1] for e in log if e[0] == "bind"]
        if binds != [(host,)]:
            bad.append(("bind", f"wrong-value: expected bind(({host!r},)), saw {binds!r}"))
        fd = [e for e in log if e[0] == "opt" and e[1] == M.SOL_CAN_RAW and e[2] == M.CAN_RAW_FD_FRAMES and e[3]]
        if bool(fd) != bool(want.get("is_fd")):
            bad.append(("is_fd", f"wrong-value: is_fd={want.get('is_fd')} but CAN_RAW_FD_FRAMES set {len(fd)} times"))
        cfg = getattr(t, "config", None)
        for f in ("dst_id", "is_extended"):
            w = want.get(f) if want.get(f) is not None else _default("can-raw", f)
            if getattr(cfg, f, "<missing>") != w:
                bad.append((f, f"wrong-value: URI says {f}={w!r}, transport holds {getattr(cfg, f, None)!r}"))
    else:
        calls = ConnRecorder.calls
        conn = next((c for c in calls if c[0] == "connect"), None)
        if conn is None:
            bad.append(("connect", "wrong-value: connection never opened"))
        elif scheme == "hsfz":
            ack = want["ack_timeout"] if want.get("ack_timeout") is not None else _default("hsfz", "ack_timeout")
            port = want["port"] if want.get("port") is not None else 6801
            a = conn[1]
            exp = (port, want["src_addr"], want["dst_addr"])
            if len(a) < 5 or M.norm_host(a[0]) != M.norm_host(host) or tuple(a[1:4]) != exp:
                bad.append(("connect", f"wrong-value: HSFZConnection.connect{a!r}, URI denotes ({host!r}, {exp})"))
            elif abs(a[4] * 1000 - ack) > 1e-6:
                bad.append(("ack_timeout", f"wrong-value: URI says {ack} ms, connection gets {a[4]!r} s"))
        else:
            port = want["port"] if want.get("port") is not None else 13400
            rat = want["activation_type"] if want.get("activation_type") is not None else _default("doip", "activation_type")
            pv = want["protocol_version"] if want.get("protocol_version") is not None else _default("doip", "protocol_version")
            a, kw = conn[1], conn[2]
            exp = (port, want["src_addr"], want["target_addr"])
            if len(a) < 4 or M.norm_host(a[0]) != M.norm_host(host) or tuple(a[1:4]) != exp:
                bad.append(("connect", f"wrong-value: DoIPConnection.connect{a!r}, URI denotes ({host!r}, {exp})"))
            if int(kw.get("protocol_version", a[4] if len(a) > 4 else -1)) != int(pv):
                bad.append(("protocol_version", f"wrong-value: URI says {int(pv)}, connection gets {kw!r}"))
            rats = [c[1] for c in calls if c[0] == "rat"]
            if rats != [int(rat)]:
                bad.append(("activation_type", f"wrong-value: URI says {int(rat):#x}, routing activation requests sent: {rats!r}"))
    for field, what in bad:
        res.violate(f"C20|{site}|{field}|{what.split(':')[0]}", f"{url!r}: {what}", rd)
    return not bad


def _spell_args(want: dict[str, Any], fields: list[str], how: str) -> dict[str, str]:
    args: dict[str, str] = {}
    for f in fields:
        v = want.get(f)
        if v is None:
            continue
        args[f] = BOOL_TEXT[v] if isinstance(v, bool) else M.spell(v, how)
    return args


ISOTP_FIELDS = ["src_addr", "dst_addr", "ext_address", "rx_ext_address", "tx_padding", "rx_padding", "frame_txtime", "tx_dl", "is_extended", "is_fd"]
BYTE_FIELDS = ["ext_address", "rx_ext_address", "tx_padding", "rx_padding"]


def check_wire_case(res: Result, loop: Any, scheme: str, host: str, port: int | None, want: dict[str, Any], how: str) -> None:
    res.count("evaluations")
    _kind(res, f"wire-{scheme}")
    fields = [f[0] for f in MODELS[scheme][2]]
    args = _spell_args(want, fields, how)
    rd = {"kind": "wire", "scheme": scheme, "host": host, "port": port, "want": want, "how": how}
    res.seen("nontrivial", ("wire", scheme, host, port, tuple(sorted((k, v) for k, v in want.items() if v is not None))))
    ok, u = call(G["TargetURI"].from_parts, scheme, host, port, args)
    if not ok:
        res.violate(f"C20|wire:{scheme}|build-raises", f"from_parts({scheme}, {host}, {port}, {args}) raised {_exc(u)}", rd)
        return
    full = dict(want)
    full["port"] = port
    if not wire_check(res, loop, f"wire:{scheme}", scheme, str(u), host, full, rd):
        return
    # the same TargetURI OBJECT used again (what reconnect() does): connecting must not consume or change what the URI says
    ok, obj = call(G["TargetURI"], str(u))
    if not ok:
        return
    before = (str(obj), dict(obj.qs_flat))
    for nth in ("first", "second"):
        if not wire_check(res, loop, f"wire:{scheme}|same-uri-object|{nth}-connect", scheme, obj, host, full, rd):
            return
        after = (str(obj), dict(obj.qs_flat))
        if after != before:
            res.violate(f"C20|wire:{scheme}|uri-object-changed-by-connect", f"{before[0]!r}: after connect() the TargetURI object reads {after!r}, before {before!r}", rd)
            return


def run_wire(res: Result, scheme: str, part: int) -> None:
    loop = asyncio.new_event_loop()
    try:
        if scheme == "isotp" and part == 0:
            # every byte value (and absent) of each one-byte setting, others absent / others present
            for f in BYTE_FIELDS:
                for others in (None, 0x5A):
                    for v in [None, *range(256)]:
                        want = {"src_addr": 0x7E0, "dst_addr": 0x7E8, **{g: others for g in BYTE_FIELDS}}
                        want[f] = v
                        check_wire_case(res, loop, "isotp", "can0", None, want, "hex" if (v or 0) % 2 else "dec")
        elif scheme == "isotp":
            # full product of boundary values of all settings; part selects (is_fd, is_extended)
            is_fd, is_ext = bool(part & 1), bool(part & 2)
            src, dst = (0x18DA00F1, 0x1FFFFFFF) if is_ext else (0, 0x7FF)
            bvals = [None, 0, 1, 0xFF]
            n = 0
            for ext, rxe, txp, rxp in itertools.product(bvals, repeat=4):
                for txt in (None, 0, 0xFFFFFFFF):
                    for tx_dl in (None, 8, 64):
                        for fd_spelled in (is_fd, None) if not is_fd else (True,):
                            want = dict(src_addr=src, dst_addr=dst, ext_address=ext, rx_ext_address=rxe, tx_padding=txp, rx_padding=rxp)
                            want.update(frame_txtime=txt, tx_dl=tx_dl, is_fd=fd_spelled, is_extended=is_ext or None)
                            n += 1
                            check_wire_case(res, loop, "isotp", "vcan0" if n % 2 else "can0", None, want, M.SPELLINGS[n % 4])
        elif scheme == "can-raw":
            for iface in ("can0", "vcan0", "can-fd.1"):
                for is_fd in (None, True, False):
                    for is_ext in (None, True, False):
                        for dst_id in (None, 0, 0x7FF, 0x1FFFFFFF):
                            check_wire_case(res, loop, "can-raw", iface, None, dict(dst_id=dst_id, is_fd=is_fd, is_extended=is_ext), "hex")
        elif scheme == "hsfz":
            for host in WIRE_HOSTS:
                for port in (None, 0, 6801, 65535):
                    for src in (0, 0xF4, 0xFF):
                        for dst in (0, 0x10, 0xFF):
                            for ack in (None, 0, 1, 1000, 65535):
                                check_wire_case(res, loop, "hsfz", host, port, dict(src_addr=src, dst_addr=dst, ack_timeout=ack), "hex" if (src + dst) % 2 else "dec")
        elif scheme == "doip":
            n = 0
            for host in WIRE_HOSTS:
                for port in (None, 0, 13400, 65535):
                    for src in (0, 0x0E00, 0xFFFF):
                        for tgt in (0, 1, 0xFFFF):
                            for rat in (None, 0, 1, 0xE0, 0xFF):
                                for pv in (None, 2, 3):
                                    n += 1
                                    want = dict(src_addr=src, target_addr=tgt, activation_type=rat, protocol_version=pv)
                                    check_wire_case(res, loop, "doip", host, port, want, M.SPELLINGS[n % 4])
    finally:
        loop.close()


WIRE_HOSTS = ["ecu-1.example.com", "ECU1.Example.COM", "0.0.0.0", "192.168.0.1", "::1", "fe80::1ff:fe23:4567:890a"]


def replay_wire(res: Result, doc: dict[str, Any]) -> None:
    loop = asyncio.new_event_loop()
    try:
        check_wire_case(res, loop, doc["scheme"], doc["host"], doc["port"], doc["want"], doc["how"])
    finally:
        loop.close()


# ---------------------------------------------------------------------------------------------
# section: strict notation - a digit string without prefix is decimal, bare hex digits are no integer

BARE_HEX = ["f1", "ff", "0a", "1f", "a", "7f", "0f", "abc", "F1", "0x", "0b2", "0o8", "1_f"]
BARE_DEC = [("42", 42), ("10", 10), ("99", 99), ("87", 87), ("255", 255), ("100", 100)]


def _notation_targets() -> dict[str, Any]:
    t: dict[str, Any] = {
        "auto_int": G["auto_int"],
        "AutoInt": G["AutoInt"],
        "unravel": lambda x: G["unravel"](x)[0],
        "unravel-range": lambda x: G["unravel"](f"{x}-{x}")[0],
        "Ranges": lambda x: G["Ranges"](x)[0],
        "unravel_2d-key": lambda x: next(iter(G["unravel_2d"](x))),
    }
    for scheme, (_m, mname, fields) in MODELS.items():
        model = G["models"].get(scheme)
        if model is None:
            continue
        req = {f[0]: "1" for f in fields if f[2]}
        for f in fields:
            if f[1] == "int":
                t[f"{mname}.{f[0]}"] = lambda x, model=model, req=req, name=f[0]: getattr(model(**{**req, name: x}), name)
    return t


def check_notation(res: Result, entry: str, text: str, value: int | None) -> None:
    res.count("evaluations")
    _kind(res, "notation")
    res.seen("nontrivial", ("notation", entry, text))
    rd = {"kind": "notation", "entry": entry, "text": text, "value": value}
    ok, out = call(_notation_targets()[entry], text)
    if value is None:
        if ok:
            if call(G["auto_int"], text)[0]:
                entry = "auto_int"  # the shared helper accepts it: one root cause, one signature
            res.violate(f"C20|{entry}|bare-hex-accepted", f"{entry}: {text!r} is no decimal/0x/0o/0b numeral but is accepted as {out!r}", rd)
    elif not ok:
        res.violate(f"C20|{entry}|decimal-rejected", f"{entry}: {text!r} raised {_exc(out)}, expected {value}", rd)
    elif out != value:
        res.violate(f"C20|{entry}|decimal-wrong-value", f"{entry}: {text!r} -> {out!r}, expected decimal {value}", rd)


def run_notation(res: Result) -> None:
    for entry in _notation_targets():
        for text in BARE_HEX:
            check_notation(res, entry, text, None)
        for text, v in BARE_DEC:
            check_notation(res, entry, text, v)


# ---------------------------------------------------------------------------------------------
# section: parsing is a pure function of (literal, entry point) - no history dependence within one process

HISTORY_LITERALS = [t for t, _v in NUMERALS] + ["10", "42", "99", "0b101", "0b1", "0x1f", "0xFF", "0o17", "f1", "ff", "0a", "1f", "abc", "0b2"]


def _history_targets() -> dict[str, tuple[Any, Any]]:
    """every integer entry point: name -> (reference, callable)"""
    if "history_targets" in G:
        return G["history_targets"]
    import enum
    import importlib

    import pydantic

    t: dict[str, tuple[Any, Any]] = {name: (M.ref_base0, fn) for name, fn in _notation_targets().items()}
    gconfig = G["gconfig"]
    if hasattr(gconfig, "HexInt"):
        t["HexInt"] = (M.ref_base16, pydantic.TypeAdapter(gconfig.HexInt).validate_python)
    else:
        G.setdefault("history_missing", []).append("entry:HexInt")
    if hasattr(gconfig, "err_int"):
        t["err_int(x,0)"] = (M.ref_base0, lambda x: gconfig.err_int(x, 0))
        t["err_int(x,16)"] = (M.ref_base16, lambda x: gconfig.err_int(x, 16))
    else:
        G.setdefault("history_missing", []).append("entry:err_int")
    try:
        dddi = importlib.import_module("gallia.commands.primitive.uds.dddi")
        pd = dddi.parse_definitions

        def via_dddi(x: str) -> int:
            a, b, c = pd(f"{x}:{x}:{x}", 3)
            if not a == b == c:
                raise AssertionError(f"one literal, three values: {(a, b, c)}")
            return a

        t["dddi.parse_definitions"] = (M.ref_base0, via_dddi)
    except (ImportError, AttributeError):
        G.setdefault("history_missing", []).append("entry:dddi.parse_definitions")
    values = sorted({v for lit in HISTORY_LITERALS if (v := M.ref_base0(lit)) is not None})
    ProbeEnum = enum.IntEnum("ProbeEnum", {f"V{v}": v for v in values})
    if hasattr(gconfig, "EnumArg"):
        adapter = pydantic.TypeAdapter(gconfig.EnumArg[ProbeEnum]).validate_python
        t["EnumArg[IntEnum]"] = (M.ref_base0, lambda x: int(adapter(x)))
    G["history_targets"] = t
    return t


def _history_call(res: Result, entry: str, lit: str, history: str) -> None:
    ref, fn = _history_targets()[entry]
    want = ref(lit)
    ok, out = call(fn, lit)
    if want is None:
        if ok:
            res.violate(f"C20|history|{entry}|accepted", f"{entry}({lit!r}) = {out!r} after [{history}]; {lit!r} is no numeral for this entry point", {"kind": "history", "literal": lit})
    elif not ok:
        res.violate(f"C20|history|{entry}|rejected", f"{entry}({lit!r}) raised {_exc(out)} after [{history}]; denotes {want}", {"kind": "history", "literal": lit})
    elif out != want or isinstance(out, bool):
        res.violate(f"C20|history|{entry}|wrong-value", f"{entry}({lit!r}) = {out!r} after [{history}]; denotes {want} whatever was parsed before", {"kind": "history", "literal": lit})


def run_history(res: Result, literals: list[str] | None = None, interleave: bool = True) -> None:
    targets = _history_targets()
    for m in G.get("history_missing", []):
        res.uncovered.add(m)
    names = list(targets)
    lits = literals or HISTORY_LITERALS
    n = 0
    # (1) the same literal through every ordered pair of entry points: A, B, A again
    for lit in lits:
        for a in names:
            for b in names:
                _history_call(res, a, lit, "...")
                _history_call(res, b, lit, f"{a}({lit!r})")
                _history_call(res, a, lit, f"{a}({lit!r}), {b}({lit!r})")
                n += 3
        res.seen("nontrivial", ("history", lit))
    # (2) different literals interleaved: A(L1), B(L2), A(L1)
    if interleave:
        for a in names:
            for b in names:
                for i, l1 in enumerate(lits):
                    l2 = lits[(i + 1) % len(lits)]
                    _history_call(res, a, l1, "...")
                    _history_call(res, b, l2, f"{a}({l1!r})")
                    _history_call(res, a, l1, f"{a}({l1!r}), {b}({l2!r})")
                    n += 3
                res.seen("nontrivial", ("history-pair", a, b))
    res.count("evaluations", n)
    res.count("history_calls", n)
    _kind(res, "history", n)
    res.notes["history_entry_points"] = names
    res.sample({"history": "AutoInt('10'), HexInt('10'), AutoInt('10')", "denotes": [10, 16, 10]}, cap=1)


# ---------------------------------------------------------------------------------------------
# section: the discovery scanners' own emission code, run for real against fake buses / gateways


def check_emitted_isotp(res: Result, loop: Any, url: str, iface: str, want: dict[str, Any], rd: dict[str, Any]) -> None:
    site = "scanner:isotp"
    res.count("scanner_uris_checked")
    ok, v = call(G["TargetURI"], url)
    ok2, got = call(lambda: (str(v.scheme), v.hostname, v.port)) if ok else (False, v)
    if not ok2 or got != ("isotp", iface, None):
        res.violate(f"C20|{site}|netloc", f"{url!r}: (scheme, hostname, port) -> {_exc(got) if not ok2 else got!r}, expected isotp/{iface}/None", rd)
        return
    ok, cfg = call(lambda: G["models"]["isotp"](**v.qs_flat))
    if not ok:
        res.violate(f"C20|{site}|config-rejected", f"{url!r}: ISOTPConfig -> {_exc(cfg)}", rd)
        return
    good = True
    for name, w in want.items():
        if getattr(cfg, name, "<missing>") != w:
            good = False
            ws = f"{w:#x}" if isinstance(w, int) and not isinstance(w, bool) else repr(w)
            res.violate(f"C20|{site}|{name}|wrong-value", f"{url!r}: {name} parses back as {getattr(cfg, name, None)!r}, the endpoint that answered has {ws}", rd)
    if good:
        wire_check(res, loop, "scanner:isotp|wire", "isotp", url, iface, dict(want), rd)


def run_scan_isotp(
    res: Result, iface: str, ext_mode: bool, tester: int, padding: int | None, is_fd: bool, is_ext: bool, start: int, stop: int, flip: int
) -> None:
    """one real IsotpDiscoverer.main() over CAN ids / extended addresses start..stop; every probed key answers
    (from CAN id ``key ^ flip`` in normal mode, from ``flip + key`` in extended mode)"""
    answer = {k: (flip + k if ext_mode else k ^ flip) for k in range(start, stop + 1)}
    FakeRawCAN.current = FakeRawCAN(is_fd, is_ext, ext_mode, answer)
    inst = object.__new__(G["IsotpDiscoverer"])
    inst.config = SimpleNamespace(
        target=G["TargetURI"](f"can-raw://{iface}"), sniff_time=0, pdu=bytes([0x3E, 0x00]), padding=padding, sleep=0, start=start,
        stop=stop, extended_addr=ext_mode, tester_addr=tester, query=False, info_did=0xF197,
    )  # fmt: skip
    inst.artifacts_dir, inst.db_handler = FakeDir(), FakeDB()
    rd = {"kind": "scan-isotp", "args": [iface, ext_mode, tester, padding, is_fd, is_ext, start, stop, flip]}
    n = stop - start + 1
    res.count("evaluations", n)
    _kind(res, "scanner-isotp", n)
    res.seen("nontrivial", ("scan-isotp", *rd["args"]))
    loop = asyncio.new_event_loop()
    try:
        ok, exc = call(lambda: loop.run_until_complete(inst.main()))
        if not ok:
            res.violate("C20|scanner:isotp|main-raises", f"IsotpDiscoverer.main() {rd['args']}: {_exc(exc)}", rd)
            return
        urls = inst.artifacts_dir.lines("ECUs.txt")
        if urls != inst.db_handler.results or len(urls) != n:
            res.violate("C20|scanner:isotp|emitted-set", f"{rd['args']}: {n} endpoints answered, ECUs.txt has {len(urls)} URIs, database {len(inst.db_handler.results)}", rd)
            return
        for key, url in zip(range(start, stop + 1), urls, strict=True):
            want: dict[str, Any] = {"is_fd": is_fd, "is_extended": is_ext, "tx_padding": padding, "rx_padding": padding}
            if ext_mode:
                want.update(ext_address=key, rx_ext_address=tester & 0xFF, src_addr=tester, dst_addr=answer[key])
            else:
                want.update(ext_address=None, rx_ext_address=None, src_addr=key, dst_addr=answer[key])
            check_emitted_isotp(res, loop, url, iface, want, {**rd, "key": key})
    finally:
        loop.close()
    if ext_mode and tester == 0x6F1 and padding is None and not is_fd and not is_ext:
        res.sample({"IsotpDiscoverer.main": "extended addressing, tester 0x6f1, every address 0x00..0xff answers", "emits[0x42]": urls[0x42 - start] if start <= 0x42 <= stop else urls[0]}, cap=1)


def run_scan_hsfz(res: Result, host: str, port: int, src: int) -> None:
    """one real HSFZDiscoverer.main() over destination addresses 0..255; all but k % 7 == 3 answer"""
    silent = {k for k in range(256) if k % 7 == 3}
    _FakeHSFZConnection.silent = silent
    inst = object.__new__(G["HSFZDiscoverer"])
    inst.config = SimpleNamespace(target=G["TargetURI"](f"hsfz://{M.ref_hostport(host, port)}"), src_addr=src, start=0, stop=255, reversed=False, timeout=0.5)
    inst.artifacts_dir, inst.db_handler = FakeDir(), FakeDB()
    rd = {"kind": "scan-hsfz", "args": [host, port, src]}
    res.count("evaluations", 256)
    _kind(res, "scanner-hsfz", 256)
    res.seen("nontrivial", ("scan-hsfz", host, port, src))
    hc = M.host_class(host)
    loop = asyncio.new_event_loop()
    try:
        ok, exc = call(lambda: loop.run_until_complete(inst.main()))
        _FakeHSFZConnection.silent = None
        if not ok:
            res.violate(f"C20|scanner:hsfz|main-raises|{hc}", f"HSFZDiscoverer.main() {rd['args']}: {_exc(exc)}", rd)
            return
        urls = inst.artifacts_dir.lines("ECUs.txt")
        answered = [k for k in range(256) if k not in silent]
        if urls != inst.db_handler.results or len(urls) != len(answered):
            res.violate("C20|scanner:hsfz|emitted-set", f"{rd['args']}: {len(answered)} ECUs answered, ECUs.txt has {len(urls)} URIs, database {len(inst.db_handler.results)}", rd)
            return
        for dst, url in zip(answered, urls, strict=True):
            res.count("scanner_uris_checked")
            ok, v = call(G["TargetURI"], url)
            ok2, got = call(lambda: (str(v.scheme), v.hostname, v.port)) if ok else (False, v)
            if not ok2 or got[0] != "hsfz" or M.norm_host(got[1]) != M.norm_host(host) or got[2] != port:
                res.violate(f"C20|scanner:hsfz|netloc|{hc}", f"{url!r}: (scheme, hostname, port) -> {_exc(got) if not ok2 else got!r}, expected hsfz/{host}/{port}", rd)
                return
            ok, cfg = call(lambda: G["models"]["hsfz"](**v.qs_flat))
            if not ok:
                res.violate("C20|scanner:hsfz|config-rejected", f"{url!r}: HSFZConfig -> {_exc(cfg)}", rd)
                return
            want = {"src_addr": src, "dst_addr": dst, "ack_timeout": 1000}
            bad = [n for n, w in want.items() if getattr(cfg, n, None) != w]
            for name in bad:
                res.violate(f"C20|scanner:hsfz|{name}|wrong-value", f"{url!r}: {name} parses back as {getattr(cfg, name, None)!r}, the ECU that answered has {want[name]:#x}", rd)
            if not bad:
                wire_check(res, loop, "scanner:hsfz|wire", "hsfz", url, host, {**want, "port": port}, rd)
    finally:
        _FakeHSFZConnection.silent = None
        loop.close()


def run_scan_doip(res: Result, host: str, port: int, pv: int, rat: int, src: int, lo: int, hi: int) -> None:
    """real DoIPDiscoverer.enumerate_routing_activation_requests + enumerate_target_addresses over target
    addresses lo..hi: t % 5 == 0 unknown, t % 5 == 1 unreachable, t % 5 >= 3 answer TesterPresent"""
    rng = range(lo, hi + 1)
    FakeDoIPGateway.scen = SimpleNamespace(
        allowed={(rat, src)},
        unknown={t for t in rng if t % 5 == 0},
        unreachable={t for t in rng if t % 5 == 1},
        responsive={t for t in rng if t % 5 >= 3},
    )
    inst = object.__new__(G["DoIPDiscoverer"])
    inst.protocol_version = pv
    inst.config = SimpleNamespace(start=lo, stop=hi, target=None, timeout=None, tcp_connect_delay=0.0)
    inst.artifacts_dir, inst.db_handler = FakeDir(), FakeDB()
    rd = {"kind": "scan-doip", "args": [host, port, pv, rat, src, lo, hi]}
    n = hi - lo + 1
    res.count("evaluations", n)
    _kind(res, "scanner-doip", n)
    res.seen("nontrivial", ("scan-doip", *rd["args"]))
    hc = M.host_class(host)
    site = "scanner:doip"
    loop = asyncio.new_event_loop()

    def check(url: str, tgt: int | None, where: str) -> bool:
        res.count("scanner_uris_checked")
        ok, v = call(G["TargetURI"], url)
        ok2, got = call(lambda: (str(v.scheme), v.hostname, v.port)) if ok else (False, v)
        if not ok2 or got[0] != "doip" or M.norm_host(got[1]) != M.norm_host(host) or got[2] != port:
            res.violate(f"C20|{site}|netloc|{hc}", f"{where} {url!r}: (scheme, hostname, port) -> {_exc(got) if not ok2 else got!r}, expected doip/{host}/{port}", rd)
            return False
        qs = v.qs_flat
        completed = {"target_addr": "0", **qs}
        ok, cfg = call(lambda: G["models"]["doip"](**completed))
        if not ok:
            res.violate(f"C20|{site}|config-rejected", f"{where} {url!r}: DoIPConfig -> {_exc(cfg)}", rd)
            return False
        want = {"src_addr": src, "activation_type": rat, "protocol_version": pv, "target_addr": 0 if tgt is None else tgt}
        bad = [k for k, w in want.items() if getattr(cfg, k, None) != w or (k != "target_addr" and k not in qs) or (tgt is not None and k not in qs)]
        for k in bad:
            res.violate(f"C20|{site}|{k}|wrong-value", f"{where} {url!r}: {k} parses back as {getattr(cfg, k, None)!r} ({'present' if k in qs else 'absent'}), the gateway answered for {want[k]:#x}", rd)
        if not bad and tgt is not None:
            return wire_check(res, loop, f"{site}|wire", "doip", url, host, {**want, "port": port}, rd)
        return not bad

    try:
        ok, out = call(lambda: loop.run_until_complete(inst.enumerate_routing_activation_requests(host, port, [rat, rat ^ 1], [src, src ^ 1], 0.0)))
        if not ok:
            res.violate(f"C20|{site}|enumerate_routing_activation_requests-raises", f"{rd['args']}: {_exc(out)}", rd)
            return
        targets = list(out[2])
        if len(targets) != 1 or inst.artifacts_dir.lines("1_valid_routing_activation_requests.txt") != targets:
            res.violate(f"C20|{site}|emitted-set|activation", f"{rd['args']}: one (type, source) pair is accepted, emitted {targets!r}", rd)
            return
        if not check(targets[0], None, "routing-activation"):
            return
        ok, out = call(lambda: loop.run_until_complete(inst.enumerate_target_addresses(host, port, rat, src, lo, hi, 0.0, None)))
        if not ok:
            res.violate(f"C20|{site}|enumerate_target_addresses-raises", f"{rd['args']}: {_exc(out)}", rd)
            return
        scen = FakeDoIPGateway.scen
        expect = {
            "3_valid_targets.txt": [t for t in rng if t not in scen.unknown and t not in scen.unreachable],
            "4_responsive_targets.txt": [t for t in rng if t in scen.responsive],
            "5_unreachable_targets.txt": [t for t in rng if t in scen.unreachable],
        }
        for fname, tgts in expect.items():
            urls = inst.artifacts_dir.lines(fname)
            if len(urls) != len(tgts):
                res.violate(f"C20|{site}|emitted-set|{fname}", f"{rd['args']}: expected {len(tgts)} URIs in {fname}, found {len(urls)}", rd)
                continue
            for t, url in zip(tgts, urls, strict=True):
                if not check(url, t, fname):
                    break
        if inst.db_handler.results != inst.artifacts_dir.lines("4_responsive_targets.txt"):
            res.violate(f"C20|{site}|emitted-set|database", f"{rd['args']}: database has {len(inst.db_handler.results)} URIs, 4_responsive_targets.txt differs", rd)
    finally:
        loop.close()


SCAN_TESTERS = [0x000, 0x6F1, 0x7FF, 0x742, 0x605, 0x61A]  # low byte: 00, f1, ff, digits only, leading zero, mixed


def new_items(tier: str) -> list[tuple[Any, ...]]:
    quick = tier == "quick"
    out: list[tuple[Any, ...]] = [("notation",), ("history",)]
    out += [("wire", "isotp", p) for p in range(5)] + [("wire", "can-raw", 0), ("wire", "hsfz", 0), ("wire", "doip", 0)]
    # ISO-TP discovery, extended addressing: all 256 address bytes x tester classes x padding x frame formats
    for tester in SCAN_TESTERS + [0x18DA42F1, 0x1FFFFFFF]:
        for padding in (None, 0, 0xAA):
            for is_fd in (False, True):
                for is_ext in (False, True):
                    if tester > 0x7FF and not is_ext:
                        continue
                    out.append(("scan-isotp", "can0" if is_fd else "vcan0", True, tester, padding, is_fd, is_ext, 0, 255, 0x18DA0000 if is_ext else 0x700))
    # normal addressing: windows at the boundaries of the 11 and 29 bit id spaces
    for is_ext, windows in ((False, [(0, 0x2F), (0x7D0, 0x7FF)]), (True, [(0, 0x2F), (0x7D0, 0x82F), (0x18DAF100, 0x18DAF1FF), (0x1FFFFFD0, 0x1FFFFFFF)])):
        for lo, hi in windows:
            for padding in (None, 0, 0xAA):
                for is_fd in (False, True):
                    out.append(("scan-isotp", "can0", False, 0x6F1, padding, is_fd, is_ext, lo, hi, 0x8))
    # HSFZ discovery: all 256 destination addresses
    for host in WIRE_HOSTS if quick else HOSTS:
        for port in (1, 6801) if quick else (0, 1, 6801, 65535):
            for src in (0, 0xF4, 0xFF):
                out.append(("scan-hsfz", host, port, src))
    # DoIP discovery (IPv4 / names only, see ASSUMPTIONS): target address windows, thorough: the whole 16 bit space
    windows = [(0, 0x3F), (0x0DF0, 0x0E2F), (0xFFC0, 0xFFFF)] if quick else [(lo, lo + 0xFFF) for lo in range(0, 0x10000, 0x1000)]
    n = 0
    for host in ("ecu-1.example.com", "0.0.0.0", "192.168.0.1"):
        for port in (1, 13400, 65535):
            for pv in (2, 3):
                for rat, src in ((0, 0x0E00), (0xE0, 0), (0xFF, 0xFFFF), (1, 0x0E80)):
                    lo, hi = windows[n % len(windows)]
                    n += 1
                    out.append(("scan-doip", host, port, pv, rat, src, lo, hi))
    if not quick:
        for lo, hi in windows:
            out.append(("scan-doip", "192.168.0.1", 13400, 3, 0, 0x0E00, lo, hi))
    return out


NEW_KINDS: dict[str, Any] = {
    "notation": run_notation,
    "history": run_history,
    "wire": run_wire,
    "scan-isotp": run_scan_isotp,
    "scan-hsfz": run_scan_hsfz,
    "scan-doip": run_scan_doip,
}


def _replay_scan_isotp(res: Result, doc: dict[str, Any]) -> None:
    a = list(doc["args"])
    if "key" in doc:
        a[6] = a[7] = doc["key"]
    run_scan_isotp(res, *a)


NEW_REPLAYS: dict[str, Any] = {
    "wire": replay_wire,
    "history": lambda res, doc: run_history(res, [doc["literal"]], False),
    "notation": lambda res, doc: check_notation(res, doc["entry"], doc["text"], doc["value"]),
    "scan-isotp": _replay_scan_isotp,
    "scan-hsfz": lambda res, doc: run_scan_hsfz(res, *doc["args"]),
    "scan-doip": lambda res, doc: run_scan_doip(res, *doc["args"]),
}


# ---------------------------------------------------------------------------------------------
# runner interface


def items(tier: str, seed: int) -> list[tuple[Any, ...]]:
    quick = tier == "quick"
    out: list[tuple[Any, ...]] = [("autoint",)]
    # host:port
    for h in HOSTS:
        out.append(("hostport", [h], PORTS, [None, 0, 13400]))
    every_port: list[int | None] = list(range(65536))
    for h in ALLPORT_HOSTS[: 1 if quick else 4]:
        for lo in range(0, 65536, 8192):
            out.append(("hostport", [h], every_port[lo : lo + 8192], [None]))
    # builders
    out.append(("uri-generic",))
    for h in HOSTS:
        out.append(("hsfz", [h]))
    out.append(("hsfz", []))
    out += new_items(tier)
    out.append(("doip",))
    # ranges 1-D
    out.append(("r1", "full", 0, (), "entries"))
    out.append(("r1", "full", 1, (), "all"))
    for a in range(len(ALPHA["narrow"])):
        out.append(("r1", "narrow", 2, (a,), "all"))
    wide_idx = [i for i, t in enumerate(ALPHA["full"]) if t.wide]
    nonwide_idx = [i for i, t in enumerate(ALPHA["full"]) if not t.wide]
    # 2 tokens with at least one wide token
    for a in wide_idx:
        out.append(("r1", "full", 2, (a,), "bulk"))
    for a in nonwide_idx:
        for b in wide_idx:
            out.append(("r1", "full", 2, (a, b), "bulk"))
    # 3 tokens over the non-wide alphabet
    for a in range(len(ALPHA["narrow"])):
        for b in range(len(ALPHA["narrow"])):
            out.append(("r1", "narrow", 3, (a, b), "entries" if quick else "all"))
    if quick:
        for a in range(len(ALPHA["small"])):
            for b in range(len(ALPHA["small"])):
                out.append(("r1", "small", 4, (a, b), "bulk"))
    else:
        # 3 tokens with at least one of three wide tokens
        w3 = [i for i, t in enumerate(ALPHA["wide3"]) if t.wide]
        for a in range(len(ALPHA["wide3"])):
            for b in range(len(ALPHA["wide3"])):
                if a in w3 or b in w3:
                    out.append(("r1", "wide3", 3, (a, b), "bulk"))
                else:
                    for c in w3:
                        out.append(("r1", "wide3", 3, (a, b, c), "bulk"))
        for a in range(len(ALPHA["narrow"])):
            for b in range(len(ALPHA["narrow"])):
                out.append(("r1", "narrow", 4, (a, b), "bulk"))
    # ranges 2-D
    ng = len(_groups(tier))
    out.append(("r2", tier, 0, (), False))
    out.append(("r2", tier, 1, (), True))
    for a in range(ng):
        out.append(("r2", tier, 2, (a,), True))
    for a in range(ng):
        for b in range(ng):
            out.append(("r2", tier, 3, (a, b), False))
    # URIs
    allhp = [(h, p) for h in HOSTS for p in PORTS]
    for scheme in MODELS:
        fields = MODELS[scheme][2]
        for vi in range(len(mapsets(scheme, "quick")["small"])):
            out.append(("uri", scheme, "small", "quick", vi, (), allhp, True))
        if scheme != "isotp":
            plans = [("quick", REPS if quick else allhp)]
        elif quick:
            plans = [("quick", REPS[:2])]
        else:
            plans = [("quick", [(h, None) for h in HOSTS]), ("thorough", REPS[:2])]
        for size, hps in plans:
            for vi, vec in enumerate(mapsets(scheme, size)["full"]):
                # fix leading fields until the remaining product is small enough
                k, total = 0, 1
                for opts in vec:
                    total *= len(opts)
                while total > 3000 and k < len(fields) - 1:
                    total //= len(vec[k])
                    k += 1
                for fixed in itertools.product(*[range(len(vec[i])) for i in range(k)]):
                    for c in range(0, len(hps), 15):
                        out.append(("uri", scheme, "full", size, vi, fixed, hps[c : c + 15], c == 0))
    return out


def run_item(item: tuple[Any, ...]) -> Result:
    _ensure()
    res = Result()
    kind = item[0]
    if kind == "autoint":
        run_autoint(res)
    elif kind == "hostport":
        run_hostport(res, item[1], item[2], item[3])
    elif kind == "uri-generic":
        run_uri_generic(res)
    elif kind == "uri":
        run_uri(res, item[1], item[2], item[3], item[4], tuple(item[5]), [tuple(x) for x in item[6]], item[7])
    elif kind == "hsfz":
        run_hsfz(res, item[1])
    elif kind in NEW_KINDS:
        NEW_KINDS[kind](res, *item[1:])
    elif kind == "doip":
        run_doip(res)
    elif kind == "r1":
        run_r1(res, item[1], item[2], tuple(item[3]), item[4])
    elif kind == "r2":
        run_r2(res, item[1], item[2], tuple(item[3]), item[4])
    else:
        raise Broken(f"unknown item kind {kind!r}")
    return res


def _tokens(js: list[Any]) -> list[Any]:
    return [t if isinstance(t, int) else (t[0], t[1]) for t in js]


def replay(doc: dict[str, Any]) -> Result:
    _ensure()
    res = Result()
    kind = doc["kind"]
    if kind == "autoint":
        check_autoint(res, doc["entry"], doc["text"], doc["value"])
    elif kind == "hostport":
        check_hostport(res, doc["host"], doc["port"], doc["default"])
    elif kind == "uri":
        opts = None if doc["opts"] is None else tuple(None if o is None else (o[0], o[1]) for o in doc["opts"])
        check_uri(res, doc["scheme"], doc["host"], doc["port"], opts, {k: v for k, v in doc["args"]}, False)
    elif kind == "hsfz":
        loop = asyncio.new_event_loop()
        try:
            check_hsfz_probe(res, loop, doc["host"], doc["port"], doc["src"], doc["dst"], doc["ack"])
        finally:
            loop.close()
    elif kind in NEW_REPLAYS:
        NEW_REPLAYS[kind](res, doc)
    elif kind == "doip":
        check_doip_fstring(res, doc["label"], *doc["args"])
    elif kind == "r1":
        judge_range(res, doc["entry"], doc["input"], M.eval_1d(_tokens(doc["tokens"])), doc["cls"], {"kind": "r1", "tokens": doc["tokens"], "raw": doc.get("raw")})
    elif kind == "r2":
        groups = [(_tokens(o), None if i is None else _tokens(i)) for o, i in doc["groups"]]
        judge_range(res, doc["entry"], doc["input"], M.eval_2d(groups), doc["cls"], {"kind": "r2", "groups": doc["groups"], "raw": doc.get("raw")})
    else:
        raise Broken(f"unknown replay kind {kind!r}")
    for v in res.violations:
        print("   ", v.sig, "::", v.msg)
    return res


def finish(merged: Result, tier: str) -> dict[str, Any]:
    by_kind = merged.notes.get("evaluations_by_kind", {})
    need = ["autoint", "hostport", "uri", "builder-hsfz", "r1", "r2"]
    missing = [k for k in need if not by_kind.get(k)]
    if missing:
        raise Broken(f"vacuous: no case evaluated for {missing}")
    if not by_kind.get("builder-doip") and not any("doip" in u for u in merged.uncovered):
        raise Broken("vacuous: builder-doip neither evaluated nor reported uncovered")
    for k in ("scanner-isotp", "scanner-hsfz", "scanner-doip", "wire-isotp", "wire-hsfz", "wire-doip", "wire-can-raw", "notation", "history"):
        if not by_kind.get(k):
            raise Broken(f"vacuous: no case evaluated for {k}")
    if not merged.counters.get("scanner_uris_checked"):
        raise Broken("vacuous: the scanners emitted no URI")
    if not merged.counters.get("uri_roundtrips_ok"):
        raise Broken("vacuous: not a single URI round trip succeeded")
    if not merged.counters.get("config_validations"):
        raise Broken("vacuous: no transport config was ever validated")
    return {
        "bound": {
            "hosts": len(HOSTS),
            "ports": [str(p) for p in PORTS],
            "range_tokens": {k: len(v) for k, v in ALPHA.items()},
            "groups_2d": len(_groups(tier)),
            "tier": tier,
        }
    }
