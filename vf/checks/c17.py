"""C17 - log records written by a run are read back exactly, in any navigation mode.

Engine B (bounded-exhaustive enumeration + explicit-state BFS over reader operation sequences).

Every log is produced by the REAL writer path (``gallia.log.get_logger`` -> ``add_zst_log_handler`` ->
QueueHandler -> QueueListener thread -> ``_ZstdFileHandler``/``_JSONFormatter`` -> ``remove_zst_log_handler``,
which stops and joins the listener thread before the file is read) and read back by the REAL reader
(``PenlogReader``) and the REAL ``hr`` entry point (``gallia.cli.hr.main`` with ``sys.argv``/stdout/stdin
redirected in-process).  The oracle is ``vf/ref/c17_model.py`` (a log is a Python list).
"""

from __future__ import annotations

import contextlib
import gzip
import io
import itertools
import json
import os
import pickle
import shutil
import subprocess
import sys
import tempfile
import threading
import time
import traceback
from collections.abc import Iterator
from pathlib import Path
from typing import Any

import zstandard

from vf.engine.runner import Broken, Result
from vf.ref import c17_model as M

ID = "C17"
LEVEL = "exploration"
BOUNDS = {
    "quick": {"N": 3, "bfs_depth": 3, "bfs_prios": [8, 4, 0], "pairs": False, "multi_len": 4, "multi_thresholds": [8, None, 4],
              "bursts": [(10_000, True), (20_000, True), (10_000, False)]},
    "thorough": {"N": 4, "bfs_depth": 4, "bfs_prios": list(range(9)), "pairs": True, "multi_len": 6, "multi_thresholds": [*range(9), None],
                 "bursts": [(10_000, True), (20_000, True), (50_000, True), (10_000, False), (50_000, False)]},
}
RULE = (
    "record alphabet = 7 levels x tags {none,[],[a],[a,b]} x 13 texts (empty, ascii, newline, CRLF, NUL, emoji, "
    "'<3>'-prefix look-alike, 70 kB line, padded+trailing newline, unicode line separators, %-format look-alike, a lone "
    "surrogate alone, lone surrogates inside ascii) x with/without exception trace = 728 records, timestamps from a deterministic clock (5 sub-second fractions). "
    "Logs enumerated: (alpha) every alphabet record as a 1-record log; (lvseq) ALL level sequences of length 0..N; "
    "(txseq) ALL text-kind sequences of length 1..N over the 8 text kinds of the brief and of length 1..N-1 over all 13; remaining attributes assigned by a rotating schedule so that every "
    "attribute value occurs at every position; (pairs, thorough) all ordered pairs over level x text; (flevel) level "
    "sequences <=2 x file level. N=3 quick / 4 thorough. Each log: written once by the real handler, read as "
    "{.zst as written, .gz, plain, stdin pipe, stdin file} x {with '<prio>' prefix, prefix stripped}, and as {plain, .zst, .gz} "
    "x {every mixed pattern of prefixed/unprefixed lines (all 2^n-2 masks on lvseq logs, the alternating masks elsewhere), "
    "final newline stripped}; (multi) hr with 2 and 3 FILE arguments over all ordered pairs of logs with 0..4 (quick) / "
    "0..6 (thorough) records, both orders, every mode x -n value, oracle = single-file outputs concatenated; (dst) in a child "
    "interpreter per DST zone (central Europe, south-east Australia; TZ set before gallia.log is imported) logs whose clock "
    "stands at 7 instants (both periods, both sides of both switches, the repeated local hour): each alone, all 21 "
    "chronological pairs, all 7; (burst) 10000/20000 (thorough also 50000) short records in one go with the file writer "
    "stalled via the handler's lock, and without stalling - every record must be read back in order; round trip, len, "
    "records(priority p, offset k, reverse) for all 9 p x k in -(n+1)..n+1 x both directions; hr {forward, reverse, "
    "--head -n, --tail -n} x n in {0,1,len-1,len,len+1,100} x 9 thresholds + default (lvseq logs; fewer thresholds on the other "
    "families / containers, see PROFILES). (bfs) for logs of n=0..N+1 records: "
    "breadth-first over ALL operation sequences of depth <= 3 quick / 4 thorough of the public reader API, each history "
    "re-executed on a fresh reader, deduplicated by (complete reader attribute state, model state). "
    "evaluations = oracle comparisons (one reader call, hr run or op application each); a case is non-trivial unless it "
    "is the default forward read of the plain prefixed file; distinct = distinct (log, variant, container, history, op)"
)
ASSUMPTIONS = [
    "the run's logger is configured like setup_logging() does (level 1); the clock is modelled by a logger filter that "
    "assigns record.created from a deterministic integer-microsecond schedule; TZ is pinned to UTC+05:30 before gallia.log "
    "is imported so that the offset path of the timestamp is exercised (dst family: a POSIX DST zone in a child interpreter; "
    "the DST period at import time is that of the real date of the run - the verdict does not depend on it, since the "
    "schedule has records in both periods)",
    "trusted: python logging/queue, zstandard and gzip as used by the harness to derive the other containers from the "
    "file the real handler wrote; hr's rendering of ONE record (str(PenlogRecord)) - selection, order and multiplicity "
    "of hr's output are decoded against those renderings, and each rendering must contain the record text",
    "admitted sets where the statement is silent: exception trace either in the stacktrace field or appended to the text "
    "on a new line; line count of head/tail applied before or after the priority filter; reverse with an explicit "
    "offset = forward slice backwards or walk back from that record (hr --reverse: whole log backwards only); positive "
    "offsets >= len and out-of-range seek_to_* = error or empty slice; cursor position after an iteration unspecified",
    "hr's stdout is modelled as a UTF-8 stream with errors='surrogatepass' (a stream that can carry any str), so that "
    "printing a text with a lone surrogate is not an encoding question of the terminal",
    "iterators returned by records() are consumed completely before the next operation (no interleaving of a "
    "half-consumed iterator with other calls)",
]
CHUNK = 4

LOGGER = "gallia.c17verif"
G: dict[str, Any] = {}


# -- set-up ---------------------------------------------------------------------------


class _Clock:
    """logging filter: the run's clock."""

    def __init__(self) -> None:
        self.us = 0

    def filter(self, record: Any) -> bool:
        record.created = self.us / 1e6
        record.msecs = (self.us % 1_000_000) / 1000.0
        return True


def _make_exc() -> BaseException:
    try:
        raise ValueError("boom\nsecond line ☃")
    except ValueError as e:
        return e


def worker_init() -> None:
    if G:
        return
    # the zone must be in place before gallia.log is imported (it fixes its UTC offset at import time); the DST
    # family therefore runs in a child interpreter started with C17_TZ set (see run_in_zone)
    G["tz"] = os.environ.get("C17_TZ", M.DEFAULT_TZ)
    os.environ["TZ"] = G["tz"]
    time.tzset()
    import logging

    import gallia.log as gl
    from gallia.cli import hr

    logging.raiseExceptions = False
    G["thread_exc"] = []

    def _hook(args: Any) -> None:
        # an exception that kills a thread started by gallia (the QueueListener of the file handler): recorded, judged
        # by the oracle as a violation (the record that raised and every later record are lost), never printed
        G["thread_exc"].append((getattr(args.thread, "name", "?"), args.exc_type.__name__, str(args.exc_value)[:200]))

    threading.excepthook = _hook
    logger = gl.get_logger(LOGGER)
    logger.setLevel(1)
    logger.propagate = False
    clock = _Clock()
    logger.addFilter(clock)
    exc = _make_exc()
    trace = "".join(traceback.format_exception(type(exc), exc, exc.__traceback__))
    if trace.endswith("\n"):
        trace = trace[:-1]
    G.update(gl=gl, hr=hr, logger=logger, clock=clock, exc=exc, trace=trace)


# -- writing ---------------------------------------------------------------------------


JOIN_TIMEOUT = 20.0  # only ever waited for when gallia fails to stop its listener thread


Event = tuple[str, str, list[str] | None, bool, int]  # level, text, tags, with exception trace, clock (us)


def write_log(path: Path, specs: list[M.RecSpec], file_level: str, t0_us: int = 0, times_us: list[int] | None = None) -> list[tuple[str, str]]:
    events: list[Event] = [
        (level, M.TEXTS[text_k], M.TAGS[tags_i], exc, M.ts_us(i, t0_us) if times_us is None else times_us[i])
        for i, (level, tags_i, text_k, exc) in enumerate(specs)
    ]
    return write_events(path, events, file_level)


def write_events(path: Path, events: list[Event], file_level: str, stall_writer: bool = False) -> list[tuple[str, str]]:
    """log ``events`` through the real handler path; returns writer-side failures as (signature part, message).

    stall_writer: the file handler's lock (public logging.Handler.acquire/release) is held while the events are logged,
    so the listener thread cannot write and the whole burst piles up in the handler queue - a slow sink.
    """
    gl = G["gl"]
    logger = G["logger"]
    G["thread_exc"].clear()
    problems: list[tuple[str, str]] = []
    handler = gl.add_zst_log_handler(LOGGER, path, gl.Loglevel[file_level])
    lst = handler.queue_listener
    thread = getattr(lst, "_thread", None)
    methods = {lv: getattr(logger, lv.lower()) for lv in M.LEVEL_NAMES}
    clock = G["clock"]
    try:
        if stall_writer:
            handler.acquire()
        try:
            for level, text, tags, exc, us in events:
                clock.us = us
                extra = None if tags is None else {"tags": list(tags)}
                methods[level](text, extra=extra, exc_info=G["exc"] if exc else None)
        finally:
            if stall_writer:
                handler.release()
    finally:
        closer = threading.Thread(target=gl.remove_zst_log_handler, args=(LOGGER, handler), daemon=True, name="c17-remove-handler")
        closer.start()
        closer.join(JOIN_TIMEOUT)
        if closer.is_alive():
            problems.append(("remove-handler-hangs", f"remove_zst_log_handler() did not return within {JOIN_TIMEOUT} s"))
            G["leaked"] += 1
    if thread is not None and thread.is_alive():
        # gallia did not stop its listener: ask it to, so that the file is complete and nothing leaks into the next item
        try:
            lst.enqueue_sentinel()
        except Exception:  # noqa: S110  a full queue: the listener will drain it, the timeout below bounds the wait
            pass
        thread.join(JOIN_TIMEOUT)
        problems.append(("listener-thread-not-stopped", "the QueueListener thread was still running after remove_zst_log_handler()"))
        if thread.is_alive():
            G["leaked"] += 1
    for name, typ, msg in G["thread_exc"]:
        if name == "c17-remove-handler":
            problems.append((f"remove-handler-raises|{typ}", f"remove_zst_log_handler() raised {typ}: {msg}"))
        else:
            problems.append((f"handler-thread-died|{typ}", f"thread {name} was killed by {typ}: {msg} - that record and all later ones never reach the file"))
    G["thread_exc"].clear()
    return problems


# -- containers -----------------------------------------------------------------------

CONTAINERS = ["plain", "zst", "gz", "stdin-pipe", "stdin-file"]


def _feed(fd: int, data: bytes) -> None:
    try:
        view = memoryview(data)
        while view:
            n = os.write(fd, view)
            view = view[n:]
    except OSError:
        pass  # reader went away early
    finally:
        os.close(fd)


@contextlib.contextmanager
def stdin_as(cont: str, path: Path, data: bytes) -> Iterator[None]:
    """fd 0 := pipe fed with data (thread joined on exit) / := the plain file."""
    if not cont.startswith("stdin"):
        yield
        return
    try:
        saved = os.dup(0)
    except OSError:  # the process has no stdin at all
        saved = -1
    feeder = None
    try:
        if cont == "stdin-pipe":
            r, w = os.pipe()
            os.dup2(r, 0)
            os.close(r)
            feeder = threading.Thread(target=_feed, args=(w, data))
            feeder.start()
        else:
            fd = os.open(path, os.O_RDONLY)
            os.dup2(fd, 0)
            os.close(fd)
        yield
    finally:
        if saved >= 0:
            os.dup2(saved, 0)
            os.close(saved)
        else:
            os.close(0)
        if feeder is not None:
            feeder.join()


class Files:
    """the containers of one log variant."""

    def __init__(self, d: Path, variant: str, data: bytes, zst_as_written: Path | None) -> None:
        self.data = data
        self.paths: dict[str, Path] = {}
        plain = d / f"{variant}.json"
        plain.write_bytes(data)
        self.paths["plain"] = plain
        if zst_as_written is not None:
            self.paths["zst"] = zst_as_written
        else:
            z = d / f"{variant}.json.zst"
            # two zstd frames back to back (as when the logs of two runs are appended to one file), split at a line boundary
            cut = data.find(b"\n", len(data) // 2) + 1
            if 0 < cut < len(data):
                z.write_bytes(zstandard.ZstdCompressor().compress(data[:cut]) + zstandard.ZstdCompressor().compress(data[cut:]))
            else:
                z.write_bytes(zstandard.ZstdCompressor().compress(data))
            self.paths["zst"] = z
        g = d / f"{variant}.json.gz"
        g.write_bytes(gzip.compress(data, mtime=0))
        self.paths["gz"] = g
        self.paths["stdin-pipe"] = plain
        self.paths["stdin-file"] = plain

    def arg(self, cont: str) -> Path:
        return Path("-") if cont.startswith("stdin") else self.paths[cont]

    def open_reader(self, cont: str) -> Any:
        with stdin_as(cont, self.paths[cont], self.data):
            return G["gl"].PenlogReader(self.arg(cont))


# -- observations ----------------------------------------------------------------------


def canon(rec: Any) -> dict[str, Any]:
    try:
        lvl = int(rec.priority.to_level())
    except ValueError:
        lvl = None
    return {
        "data": rec.data,
        "stacktrace": rec.stacktrace,
        "prio": int(rec.priority),
        "level_from_prio": lvl,
        "levelno": rec._python_level_no,  # noqa: SLF001
        "tags": rec.tags,
        "dt": rec.datetime,
    }


def canon_key(rec: Any) -> tuple[Any, ...]:
    c = canon(rec)
    tags = None if c["tags"] is None else tuple(c["tags"])
    return (c["data"], c["stacktrace"], c["prio"], c["levelno"], tags, c["dt"])


def short(x: Any, n: int = 60) -> str:
    s = repr(x)
    return s if len(s) <= n else s[: n - 3] + "..."


class LogCase:
    """one written log + everything the oracle needs."""

    def __init__(
        self, res: Result, item: Any, d: Path, specs: list[M.RecSpec], file_level: str = "TRACE", t0_us: int = 0,
        times_us: list[int] | None = None, time_labels: list[str] | None = None,
    ) -> None:
        self.res = res
        self.item = item
        self.specs = specs
        self.file_level = file_level
        self.t0_us = t0_us
        self.dir = d
        self.times_us = times_us
        self.time_labels = time_labels  # signature detail of the timestamp clause (DST family), per logged record
        self.ref = M.ref_log(specs, file_level, t0_us, times_us)
        self.n = len(self.ref)
        self.prios = [r["prio"] for r in self.ref]
        self.key = M_digest((specs, file_level, t0_us, times_us))
        self.ok = False
        self.fw: list[Any] = []  # records of the baseline forward read (verified against ref)
        self.fwmap: dict[tuple[Any, ...], int] = {}
        self.render: list[str] = []
        self.variants: dict[str, Files] = {}
        self.lines: dict[str, list[bytes]] = {}
        self.offsets: dict[str, list[int]] = {}
        self.base_fail: set[str] = set()  # round-trip clauses that fail on the plain prefixed file
        # failure shapes of records(p,k,rev) without history: on a fresh reader / on a reader whose len() was taken first
        self.base: dict[tuple[Any, ...], set[str | None]] = {}
        zpath = d / "as-written.json.zst"
        for part, msg in write_log(zpath, specs, file_level, t0_us, times_us):
            texts = ",".join(sorted({s[2] for s in specs}))
            self.violate(f"C17|write|{part}", f"{msg} [texts logged: {texts}]", {"op": "write"})
        try:
            with zpath.open("rb") as f:
                raw = zstandard.ZstdDecompressor().stream_reader(f).read()
        except zstandard.ZstdError as e:
            self.violate("C17|write|zst-not-decodable", f"file written by the handler is not a zstd stream: {e}", {})
            return
        self.raw = raw
        parts = raw.split(b"\n")
        self.raw_lines = parts[:-1] + ([parts[-1]] if parts[-1] else [])  # physical lines as written, without "\n"
        self.zpath = zpath
        nl = len(self.raw_lines)
        self.add_variant((1,) * nl, False)
        self.add_variant((0,) * nl, False)
        self.ok = True

    def add_variant(self, mask: tuple[int, ...], nonl: bool) -> str:
        """derive a file variant from the lines the handler wrote: mask[i]=0 strips the '<prio>' prefix of line i;
        nonl drops the final newline.  Returns its name."""
        name = "prefix" if not mask and not nonl else M.variant_name(mask, nonl)
        if not mask and not nonl and "prefix" in self.variants:
            name = "noprefix"  # the empty log: both main variants are the empty file
        lines = []
        for keep, line in zip(mask, self.raw_lines, strict=True):
            if not keep and line.startswith(b"<") and b">" in line:
                line = line[line.index(b">") + 1 :]
            lines.append(line + b"\n")
        if nonl and lines:
            lines[-1] = lines[-1][:-1]
        if name == "prefix" and lines and not self.raw.endswith(b"\n"):
            lines[-1] = lines[-1][:-1]  # the file exactly as the handler wrote it
        data = b"".join(lines)
        sub = self.dir / f"v{len(self.variants)}"
        sub.mkdir()
        as_written = self.zpath if name == "prefix" and data == self.raw else None
        self.variants[name] = Files(sub, name, data, as_written)
        self.lines[name] = lines
        self.offsets[name] = list(itertools.accumulate([0] + [len(x) for x in lines[:-1]])) if lines else []
        return name

    def violate(self, sig: str, msg: str, case: dict[str, Any]) -> None:
        self.res.violate(sig, msg, {"item": self.item, "sig": sig, "specs": [list(s) for s in self.specs], "case": case})

    def ev(self, *case: Any, trivial: bool = False) -> None:
        self.res.count("evaluations")
        if not trivial:
            self.res.seen("nontrivial", (self.key, case))

    def index_of(self, rec: Any) -> int:
        return self.fwmap.get(canon_key(rec), -1)


def M_digest(obj: Any) -> int:
    from vf.engine.runner import digest

    return digest(obj)


# -- round trip --------------------------------------------------------------------------


def check_roundtrip(lc: LogCase, variant: str, cont: str, reader: Any, baseline_ok: bool) -> bool:
    """len + default forward read against the reference list."""
    where = f"{variant}/{cont}"
    is_base = (variant, cont) == ("prefix", "plain")
    case = {"variant": variant, "container": cont, "op": "records()"}

    def bad(clause: str, msg: str, extra: dict[str, Any] | None = None) -> None:
        # a clause that already fails on the plain prefixed file keeps its signature on the other containers;
        # a failure that only a certain container / variant shows is named after it
        if is_base:
            lc.base_fail.add(clause)
            only = ""
        else:
            only = "" if clause in lc.base_fail or not baseline_ok else f"|only-{M.variant_kind(variant)}-{cont}"
        lc.violate(f"C17|{clause}{only}", f"{msg} [{where}]", {**case, **(extra or {})})

    lc.ev(variant, cont, "len")
    ok = True
    try:
        n_obs = len(reader)
    except Exception as e:  # gallia call
        bad(f"len|raises-{type(e).__name__}", f"len(reader) raised {e!r}")
        return False
    if n_obs != lc.n:
        # reported, but the exploration goes on as long as the forward read itself is right
        bad("len|wrong", f"len(reader)={n_obs}, {lc.n} records were logged")
    lc.ev(variant, cont, "records()", trivial=is_base)
    try:
        recs = list(reader.records())
    except Exception as e:  # gallia call
        bad(f"roundtrip|raises-{type(e).__name__}", f"list(reader.records()) raised {e!r} on a log of {lc.n} records")
        return False
    if len(recs) != lc.n:
        bad("roundtrip|count", f"{lc.n} records logged, {len(recs)} read back: {[short(r.data, 30) for r in recs[:6]]}")
        return False
    for i, (ref, rec) in enumerate(zip(lc.ref, recs, strict=True)):
        obs = canon(rec)
        pos = next(j for j in range(len(lc.specs)) if (M.ts_us(j, lc.t0_us) if lc.times_us is None else lc.times_us[j]) == ref["ts_us"])
        spec = lc.specs[pos]
        for clause in M.record_mismatches(ref, obs, G["trace"] if ref["exc"] else None):
            detail = {
                "text": f"text={spec[2]}|exc={int(spec[3])}",
                "level": f"level={spec[0]}",
                "tags": f"tags={M.TAGS[spec[1]]!r}".replace(" ", ""),
                "timestamp": lc.time_labels[pos] if lc.time_labels else ("subsecond" if ref["ts_us"] % 1_000_000 else "whole-second"),
            }[clause]
            got = {"text": (obs["data"], obs["stacktrace"]), "level": (obs["prio"], obs["levelno"]), "tags": obs["tags"], "timestamp": obs["dt"]}[clause]
            want = {"text": ref["text"], "level": (ref["prio"], ref["levelno"]), "tags": ref["tags"], "timestamp": M.ts_datetime(ref["ts_us"])}[clause]
            delta = ""
            if clause == "timestamp" and obs["dt"] is not None and obs["dt"].tzinfo is not None:
                delta = f" ({(obs['dt'] - want).total_seconds():+.6f} s; zone {G['tz']})"
            bad(f"roundtrip|{clause}|{detail}", f"record {i} of {lc.n}: {clause} logged {short(want, 90)} read back {short(got, 90)}{delta}", {"record": i})
            ok = False
    if ok and (variant, cont) == ("prefix", "plain"):
        lc.fw = recs
        lc.fwmap = {canon_key(r): i for i, r in enumerate(recs)}
        lc.render = [str(r) for r in recs]
        if len(lc.fwmap) != lc.n or len(set(lc.render)) != lc.n:
            raise Broken("harness: records of one log are not pairwise distinct")
    elif ok and baseline_ok:
        idx = [lc.index_of(r) for r in recs]
        if idx != list(range(lc.n)):
            lc.violate(
                f"C17|roundtrip|differs-from-plain|only-{M.variant_kind(variant)}-{cont}",
                f"[{where}] yields other records than the plain prefixed file: indices {idx}",
                case,
            )
            ok = False
    return ok


# -- records(priority, offset, reverse) ---------------------------------------------------


def check_records(lc: LogCase, variant: str, cont: str, reader: Any, p: int, k: int, rev: bool, hist: str = "") -> str | None:
    """one records() call against the model; returns the failure shape or None."""
    gl = G["gl"]
    admitted, may_raise = M.expect_records(lc.prios, p, k, rev)
    direction = "reverse" if rev else "forward"
    case = {"variant": variant, "container": cont, "op": ["records", p, k, rev], "history": hist}
    try:
        recs = list(reader.records(gl.PenlogPriority(p), k, rev))
    except Exception as e:  # gallia call
        if may_raise and isinstance(e, IndexError | ValueError):
            return None
        shape = f"raises-{type(e).__name__}"
        obs: Any = repr(e)
    else:
        obs = [lc.index_of(r) for r in recs]
        if obs in admitted:
            return None
        shape = M.classify_reverse(obs, lc.prios, p, k, admitted) if rev else M.classify(obs, admitted)
    return shape + "\x00" + (
        f"records(priority={p}, offset={k}, reverse={rev}){hist} on {lc.n} records with severities {lc.prios} "
        f"[{variant}/{cont}]: expected records {' or '.join(map(str, admitted))}, got {obs}"
    ) + "\x00" + direction + "\x00" + repr(case)


def sweep_records(lc: LogCase, variant: str, cont: str, reader: Any, prios: list[int]) -> None:
    """all records(p, k, reverse) calls, one after the other on the same reader."""
    n = lc.n
    for rev in (False, True):
        for k in sorted(range(-(n + 1), n + 2), key=lambda x: (abs(x), x)):
            trace_shape = None
            for p in sorted(prios, reverse=True):
                lc.ev(variant, cont, "records", p, k, rev)
                out = check_records(lc, variant, cont, reader, p, k, rev)
                if p == 8:
                    trace_shape = out.split("\x00")[0] if out else None
                if out is None:
                    continue
                shape, msg, direction, _case = out.split("\x00")
                flt = "|priority-filter" if p != 8 and trace_shape is None and 8 in prios else ""
                empty = "|empty-log" if n == 0 else ""
                lc.violate(
                    f"C17|records|{direction}|{M.offset_class(n, k)}|{shape}{flt}{empty}",
                    msg,
                    {"variant": variant, "container": cont, "op": ["records", p, k, rev]},
                )


# -- hr ------------------------------------------------------------------------------------


def run_hr(files: Files, cont: str, argv: list[str]) -> tuple[Any, str, str | None]:
    hr = G["hr"]
    out = io.TextIOWrapper(io.BytesIO(), encoding="utf-8", errors="surrogatepass", newline="")
    err = io.StringIO()
    old = sys.argv
    sys.argv = ["hr", *argv]
    code: Any = "returned"
    crash = None
    try:
        with stdin_as(cont, files.paths[cont], files.data), contextlib.redirect_stdout(out), contextlib.redirect_stderr(err):
            try:
                hr.main()
            except SystemExit as e:
                code = e.code
            except Exception as e:  # gallia call: an exception leaving main() is a crash of the tool
                crash = f"{type(e).__name__}"
                code = repr(e)
    finally:
        sys.argv = old
    out.flush()
    text = out.buffer.getvalue().decode("utf-8", "surrogatepass")  # type: ignore[attr-defined]
    return code, text, crash


def decode_output(lc: LogCase, text: str) -> list[int] | None:
    """hr output -> record indices (renderings are pairwise distinct and start with distinct timestamps)."""
    idx: list[int] = []
    pos = 0
    while pos < len(text):
        for i, r in enumerate(lc.render):
            if text.startswith(r, pos):
                idx.append(i)
                pos += len(r)
                break
        else:
            return None
    return idx


def hr_cases(n: int, prios: list[int | None], lines: str) -> list[tuple[str, int | None, int | None]]:
    """(mode, -n value, threshold); the threshold trace first (it is the reference for the 'priority-filter' clause)."""
    ps = ([8] if 8 in prios else []) + [q for q in prios if q != 8]
    lns = M.hr_line_counts(n) if lines == "all" else sorted({1, n + 1})
    out: list[tuple[str, int | None, int | None]] = []
    if lines != "forward-only":
        for mode in ("forward", "reverse"):
            out += [(mode, None, p) for p in ps]
        for mode in ("head", "tail"):
            out += [(mode, ln, p) for ln in lns for p in ps]
    else:
        out += [("forward", None, p) for p in ps]
    return out


def check_hr(lc: LogCase, variant: str, cont: str, prios: list[int | None], lines: str) -> None:
    """prios: thresholds to pass with -p (None = do not pass -p: default threshold info); lines: which -n values."""
    files = lc.variants[variant]
    n = lc.n
    ok_at_trace: dict[tuple[str, int | None], bool] = {}
    for mode, ln, p in hr_cases(n, prios, lines):
        argv: list[str] = []
        if p is not None:
            # names for most, the numeric spelling for one threshold
            argv += ["-p", "4" if p == 4 else M.PRIORITY_NAMES[p]]
        if mode == "reverse":
            argv += ["--reverse"]
        elif mode in ("head", "tail"):
            argv += [f"--{mode}", "-n", str(ln)]
        argv.append(str(files.arg(cont)))
        thr = 6 if p is None else p
        lc.ev(variant, cont, "hr", mode, ln, p)
        code, text, crash = run_hr(files, cont, argv)
        admitted = M.expect_hr(lc.prios, thr, mode, ln if ln is not None else 0)
        if crash is not None:
            shape, obs = f"crash-{crash}", code
        elif code not in (0, None):
            shape, obs = f"exit={code}", code
        else:
            dec = decode_output(lc, text)
            if dec is None:
                shape, obs = "undecodable-output", short(text, 120)
            elif dec in admitted:
                if p == 8:
                    ok_at_trace[(mode, ln)] = True
                continue
            elif mode == "reverse":
                shape, obs = M.classify_reverse(dec, lc.prios, thr, 0, admitted), dec
            elif mode == "tail":
                shape, obs = M.classify_tail(dec, lc.prios, thr, ln or 0, admitted), dec
            else:
                shape, obs = M.classify(dec, admitted), dec
        if ln is None:
            ncls = "-"
        else:
            ncls = "n=0" if ln == 0 else ("n<len" if ln < n else ("n=len" if ln == n else "n>len"))
        flt = "|priority-filter" if p != 8 and ok_at_trace.get((mode, ln)) else ""
        sig = f"C17|hr|empty-log|{shape}" if n == 0 else f"C17|hr|{mode}|{ncls}|{shape}{flt}"
        lc.violate(
            sig,
            f"hr {' '.join(argv[:-1])} <{variant}/{cont}> on {n} records with severities {lc.prios}: expected records "
            f"{' or '.join(map(str, admitted))}, got {obs}",
            {"variant": variant, "container": cont, "hr": argv},
        )


def check_render(lc: LogCase) -> None:
    """each rendering contains the text of its record (hr shows the same text)."""
    for i, (ref, r) in enumerate(zip(lc.ref, lc.render, strict=True)):
        lc.ev("render", i)
        if ref["text"] not in r:
            spec = lc.specs[i] if lc.file_level == "TRACE" else None
            lc.violate(
                f"C17|hr|render|text-missing|text={spec[2] if spec else '?'}",
                f"hr rendering of record {i} does not contain its text {short(ref['text'])}: {short(r, 100)}",
                {"record": i},
            )


def check_hr_two_files(lc: LogCase) -> None:
    files = lc.variants["prefix"]
    lc.ev("hr-two-files")
    a, b = str(files.paths["zst"]), str(files.paths["gz"])
    code, text, crash = run_hr(files, "plain", ["-p", "trace", a, b])
    want = list(range(lc.n)) * 2
    dec = None if crash else decode_output(lc, text)
    if crash or code not in (0, None) or dec != want:
        sig = "C17|hr|empty-log|crash-" + str(crash) if lc.n == 0 and crash else "C17|hr|two-files|wrong-output"
        lc.violate(sig, f"hr -p trace A.zst A.gz on {lc.n} records: expected {want}, got {dec} (exit {code}, crash {crash})", {"hr": ["-p", "trace", a, b]})


# -- BFS over operation sequences ------------------------------------------------------------


def reader_state(reader: Any) -> tuple[Any, ...]:
    """the complete attribute state of a reader (generic over vars(): new attributes are picked up)."""
    out = []
    for name, val in sorted(vars(reader).items()):
        if hasattr(val, "tell") and hasattr(val, "readline") and name != "raw_file":
            out.append((name, "pos", val.tell()))
        elif name in ("raw_file", "path"):
            continue
        elif hasattr(val, "data") and hasattr(val, "priority"):
            out.append((name, canon_key(val)))
        else:
            out.append((name, repr(val)))
    return tuple(out)


def op_alphabet(n: int, prios: list[int]) -> list[tuple[Any, ...]]:
    ks = list(range(-(n + 1), n + 2))
    ops: list[tuple[Any, ...]] = [("len",), ("readline",), ("current_record",), ("seek_cur",), ("seek_next",), ("seek_prev",)]
    ops += [("seek", k) for k in ks]
    ops += [("records", p, k, rev) for rev in (False, True) for k in ks for p in prios]
    return ops


def table_state(lc: LogCase, variant: str, reader: Any) -> str:
    """state of the reader's record-offset table (the state the property is anchored in) - used only to
    attribute an observable failure to its history class, never as a violation by itself."""
    parsed = getattr(reader, "_parsed", None)
    offs = getattr(reader, "_record_offsets", None)
    if parsed is None or not isinstance(offs, list):
        return "unknown"
    if not parsed:
        return "unbuilt"
    true = lc.offsets[variant]
    if offs == true:
        return "ok"
    if any(offs == true[j:] for j in range(1, len(true) + 1)):
        return "built-from-cursor"  # table starts at the cursor position of the moment it was built, not at the file start
    return "other"


def apply_op(lc: LogCase, variant: str, reader: Any, cur: M.Cursor, op: tuple[Any, ...], hist: tuple[Any, ...], check: bool) -> None:
    """apply op to the real reader and to the model; compare when ``check``."""
    kind = op[0]
    n = lc.n
    hs = f" after {[list(h) for h in hist]}" if hist else ""
    case = {"variant": variant, "container": "plain", "history": [list(o) for o in hist], "op": list(op)}
    after = "|after=" + (hist[-1][0] if hist else "fresh")
    tbl_before = table_state(lc, variant, reader) if check else ""

    def fail(family: str, shape: str, msg: str) -> None:
        """family: which call failed; the signature names the history class when the failure depends on it."""
        if not check:
            return
        if "built-from-cursor" in (tbl_before, table_state(lc, variant, reader)):
            # a wrong current_record is the wrong line read just before: one consequence, one signature
            fam = "readline" if family == "current_record" else family
            lc.violate(
                f"C17|opseq|offset-table-built-from-cursor-position|{fam}",
                msg + " [the record-offset table was built while the cursor was not at the file start and lacks the records before it]",
                case,
            )
        else:
            lc.violate(f"C17|opseq|{family}|{shape}{after}", msg, case)

    if kind == "records":
        _, p, k, rev = op
        if not check:
            _drain(reader, p, k, rev)
            cur.after_records()
            return
        out = check_records(lc, variant, "plain", reader, p, k, rev, hs)
        cur.after_records()
        if out:
            shape, msg, direction, _ = out.split("\x00")
            if shape in lc.base[(variant, p, k, rev)]:
                # the call fails the same way without any history: signature of the single call
                empty = "|empty-log" if n == 0 else ""
                lc.violate(f"C17|records|{direction}|{M.offset_class(n, k)}|{shape}{empty}", msg, case)
            else:
                fail("records", f"{direction}|{M.offset_class(n, k)}|{shape}|history-dependent", msg)
        return
    if kind == "len":
        try:
            got = len(reader)
        except Exception as e:  # gallia call
            fail("len", f"raises-{type(e).__name__}", f"len(reader){hs} raised {e!r}")
            return
        if got != n:
            fail("len", "wrong", f"len(reader){hs} = {got}, log has {n} records")
        return
    if kind == "readline":
        want = cur.readline()
        try:
            got = reader.readline()
        except Exception as e:  # gallia call
            fail("readline", f"raises-{type(e).__name__}", f"readline(){hs} raised {e!r}")
            cur.pos = cur.last = None
            return
        if want is None:
            return
        exp = b"" if want == "eof" else lc.lines[variant][want]
        if got != exp:
            fail("readline", "wrong-line", f"readline(){hs} on {n} records returned {short(got)}, expected line {want} = {short(exp)}")
        return
    if kind == "current_record":
        try:
            rec = reader.current_record
        except Exception as e:  # gallia call
            if isinstance(cur.last, int):
                fail("current_record", f"raises-{type(e).__name__}", f"current_record{hs} raised {e!r}, expected record {cur.last}")
            return
        if isinstance(cur.last, int) and lc.index_of(rec) != cur.last:
            fail("current_record", "wrong-record", f"current_record{hs} is record {lc.index_of(rec)}, expected record {cur.last}")
        return
    # seeks
    if kind == "seek":
        specified = cur.seek_to_record(op[1])
        call = lambda: reader.seek_to_record(op[1])  # noqa: E731
    elif kind == "seek_cur":
        specified = cur.seek_to_current_record()
        call = reader.seek_to_current_record
    elif kind == "seek_next":
        specified = cur.seek_to_next_record()
        call = reader.seek_to_next_record
    elif kind == "seek_prev":
        specified = cur.seek_to_previous_record()
        call = reader.seek_to_previous_record
    else:
        raise Broken(f"harness: unknown op {op}")
    try:
        call()
    except Exception as e:  # gallia call
        if specified:
            fail("seek", f"{kind}|raises-{type(e).__name__}", f"{op}{hs} on {n} records raised {e!r}")
            cur.pos = cur.idx = None
        elif not isinstance(e, IndexError | ValueError):
            fail("seek", f"{kind}|out-of-range-raises-{type(e).__name__}", f"{op}{hs} on {n} records raised {e!r}")


def _drain(reader: Any, p: int, k: int, rev: bool) -> None:
    try:
        for _ in reader.records(G["gl"].PenlogPriority(p), k, rev):
            pass
    except Exception:  # noqa: S110  gallia call during history replay (its outcome was judged when that prefix was explored)
        pass


def bfs(lc: LogCase, variant: str, depth: int, prios: list[int]) -> None:
    files = lc.variants[variant]
    ops = op_alphabet(lc.n, prios)

    def fresh() -> tuple[Any, M.Cursor]:
        return files.open_reader("plain"), M.Cursor(lc.n)

    # failure shapes of every records() call without history (fresh reader; reader whose len() was taken)
    for op in ops:
        if op[0] != "records":
            continue
        _, p, k, rev = op
        shapes: set[str | None] = set()
        for with_len in (False, True):
            reader, _cur = fresh()
            try:
                if with_len:
                    try:
                        len(reader)
                    except Exception:  # noqa: S110  gallia call; judged by the 'len' op itself
                        pass
                out = check_records(lc, variant, "plain", reader, p, k, rev)
            finally:
                reader.close()
            shapes.add(out.split("\x00")[0] if out else None)
        lc.base[(variant, p, k, rev)] = shapes

    r0, c0 = fresh()
    attrs = set(vars(r0))
    known = {"path", "raw_file", "file_mmap", "_current_line", "_current_record", "_current_record_index", "_parsed", "_record_offsets"}
    for a in sorted(attrs - known):
        lc.res.uncovered.add(f"PenlogReader.{a} (attribute unknown to the harness; included in the state key by repr)")
    visited = {(reader_state(r0), c0.key())}
    r0.close()
    frontier: list[tuple[Any, ...]] = [()]
    for d in range(1, depth + 1):
        nxt: list[tuple[Any, ...]] = []
        for hist in frontier:
            for op in ops:
                reader, cur = fresh()
                try:
                    for h in hist:
                        apply_op(lc, variant, reader, cur, h, (), check=False)
                    lc.res.count("transitions")
                    lc.res.count("evaluations")
                    lc.res.seen("nontrivial", (lc.key, variant, hist, op))
                    apply_op(lc, variant, reader, cur, op, hist, check=True)
                    st = (reader_state(reader), cur.key())
                finally:
                    reader.close()
                if st not in visited:
                    visited.add(st)
                    lc.res.seen("states", (lc.key, variant, st))
                    if d < depth:
                        nxt.append((*hist, op))
        frontier = nxt
        lc.res.notes.setdefault("bfs_new_states", {})
        lc.res.notes["bfs_new_states"][f"n={lc.n},{variant},depth={d}"] = len(nxt) if d < depth else -1
    lc.res.count("op_sequences_covered", sum(len(ops) ** d for d in range(1, depth + 1)))


# -- one log ---------------------------------------------------------------------------------

ALL_THRESHOLDS: list[int | None] = [*M.ALL_PRIOS, None]
PROFILES: dict[str, dict[str, Any]] = {
    # per container ("*" = every other container), for both variants:
    #   sweep: thresholds of the records(p, k, reverse) sweep (all k, both directions)
    #   hr:    (thresholds passed with -p [None = default], -n values: "all" = {0,1,len-1,len,len+1,100}, "short" = {1,len+1},
    #           "forward-only" = plain forward mode only)
    #   extra: the additional file variants (mixed prefixed/unprefixed lines: "all" 2^n-2 masks or the 2 alternating ones;
    #          final newline stripped) with their containers / sweep / hr configuration
    "full": {
        "sweep": {"*": M.ALL_PRIOS},
        "hr": {"plain": (ALL_THRESHOLDS, "all"), "*": ([None], "short")},
        "extra": {"masks": "all", "containers": ["plain", "zst", "gz"], "sweep": {"plain": [8, 4], "*": [8]}, "hr": {"plain": ([8], "short"), "*": ([], "forward-only")}},
        "two_files": True,
    },
    # quick tier (and length-4 sequences of the thorough tier): as "full", but hr on the prefix-stripped plain file
    # with 4 instead of 10 thresholds
    "fullq": {
        "sweep": {"*": M.ALL_PRIOS},
        "hr": {"plain": (ALL_THRESHOLDS, "all"), "noprefix/plain": ([8, None, 4, 0], "all"), "*": ([None], "short")},
        "extra": {"masks": "all", "containers": ["plain", "zst", "gz"], "sweep": {"plain": [8, 4], "*": [8]}, "hr": {"plain": ([8], "short"), "*": ([], "forward-only")}},
        "two_files": True,
    },
    "text": {
        "sweep": {"plain": [8, 5], "*": [8]},
        "hr": {"plain": ([8], "all"), "*": ([8], "forward-only")},
        "extra": {"masks": "alt", "containers": ["plain", "gz"], "sweep": {"*": [8]}, "hr": {"plain": ([8], "forward-only"), "*": ([], "forward-only")}},
        "two_files": False,
    },
    "alpha": {
        "sweep": {"plain": M.ALL_PRIOS, "*": [8]},
        "hr": {"plain": ([8, None], "short"), "*": ([8], "forward-only")},
        "extra": {"masks": "alt", "containers": ["plain", "gz"], "sweep": {"*": [8]}, "hr": {"plain": ([8], "forward-only"), "*": ([], "forward-only")}},
        "two_files": False,
    },
}


def _pick(d: dict[str, Any], cont: str, variant: str = "") -> Any:
    if f"{variant}/{cont}" in d:
        return d[f"{variant}/{cont}"]
    return d.get(cont, d["*"])


def explore_variant(lc: LogCase, variant: str, conts: list[str], sweep: dict[str, Any], hr: dict[str, Any], baseline_ok: bool) -> bool:
    """open / round trip / records() sweep / hr for one file variant in the given containers; returns baseline_ok
    (set by the plain prefixed file, which is always explored first)."""
    files = lc.variants[variant]
    kind = M.variant_kind(variant)
    for cont in conts:
        is_base = (variant, cont) == ("prefix", "plain")
        lc.ev(variant, cont, "open")
        try:
            reader = files.open_reader(cont)
        except Exception as e:  # gallia call
            empty = "empty-log" if lc.n == 0 else f"n={lc.n}"
            only = "" if lc.n == 0 or not baseline_ok else f"|only-{kind}-{cont}"
            lc.violate(
                f"C17|open|{empty}|raises-{type(e).__name__}{only}",
                f"PenlogReader(<{variant}/{cont}>) on a log of {lc.n} records raised {e!r}",
                {"variant": variant, "container": cont, "op": "open"},
            )
            reader = None
        if reader is not None:
            try:
                ok = check_roundtrip(lc, variant, cont, reader, baseline_ok)
                if is_base:
                    baseline_ok = ok
                if baseline_ok:
                    sweep_records(lc, variant, cont, reader, _pick(sweep, cont))
            finally:
                reader.close()
        # hr needs the renderings of the verified baseline read to decode its output; for the empty log
        # nothing needs decoding
        if baseline_ok or lc.n == 0:
            if is_base and baseline_ok:
                check_render(lc)
            check_hr(lc, variant, cont, *_pick(hr, cont, variant))
    return baseline_ok


def check_log(
    res: Result, item: Any, d: Path, specs: list[M.RecSpec], profile: str, file_level: str = "TRACE",
    bfs_cfg: tuple[int, list[int]] | None = None, times_us: list[int] | None = None, time_labels: list[str] | None = None,
) -> None:
    prof = PROFILES[profile]
    res.count("logs")
    lc = LogCase(res, item, d, specs, file_level, times_us=times_us, time_labels=time_labels)
    if not lc.ok:
        return
    res.notes.setdefault("records_per_log", {})
    res.notes["records_per_log"][str(lc.n)] = res.notes["records_per_log"].get(str(lc.n), 0) + 1
    baseline_ok = False
    for variant in ("prefix", "noprefix"):
        baseline_ok = explore_variant(lc, variant, CONTAINERS, prof["sweep"], prof["hr"], baseline_ok)
    extra = prof["extra"]
    names = []
    if baseline_ok:
        # mixed prefixed/unprefixed lines, missing final newline (derived from the lines actually written)
        for mask, nonl in M.extra_variants(len(lc.raw_lines), extra["masks"]):
            name = lc.add_variant(mask, nonl)
            names.append(name)
            res.count("extra_variants")
            explore_variant(lc, name, extra["containers"], extra["sweep"], extra["hr"], baseline_ok)
    if prof["two_files"] and (baseline_ok or lc.n == 0):
        check_hr_two_files(lc)
    if bfs_cfg is not None and baseline_ok:
        alt = [v for v in names if v.startswith("mixed-") and not v.endswith("-nonl")][:1]
        for variant in ["prefix", "noprefix", *alt, *[v for v in names if v == "prefix-nonl"]]:
            bfs(lc, variant, *bfs_cfg)
    if lc.n and not baseline_ok:
        res.count("logs_without_baseline")


# -- hr with several FILE arguments ------------------------------------------------------------

T0_STEP_US = 400_000_000  # clocks of the logs of one multi-file case are 400 s apart (records of one log: 1001 s)


def multi_specs(n: int, phase: int) -> list[M.RecSpec]:
    order = ["NOTICE", "DEBUG", "ERROR", "INFO", "TRACE", "WARNING", "CRITICAL"]
    texts = ["ascii", "nl", "emoji", "prio", "ws", "surrmid", "empty"]
    return [(order[(i + phase) % 7], (i + phase) % 4, texts[(i + 2 * phase) % len(texts)], (i + phase) % 4 == 3) for i in range(n)]


def check_hr_multi(res: Result, item: Any, d: Path, lengths: list[int], thresholds: list[int | None]) -> None:
    """hr FILE FILE [FILE]: every mode x -n value x threshold; oracle = the single-file outputs one after the other."""
    lcs: list[LogCase] = []
    for j, n in enumerate(lengths):
        sub = d / f"log{j}"
        sub.mkdir()
        res.count("logs")
        lc = LogCase(res, item, sub, multi_specs(n, 3 * j + 1), "TRACE", t0_us=j * T0_STEP_US)
        if not lc.ok:
            return
        # verified baseline read of each log (gives the renderings the output is decoded with)
        if not explore_variant(lc, "prefix", ["plain"], {"*": []}, {"*": ([], "forward-only")}, False) and lc.n:
            res.count("logs_without_baseline")
            return
        lcs.append(lc)
    lc0 = lcs[0]
    renders = [(j, i, r) for j, lc in enumerate(lcs) for i, r in enumerate(lc.render)]
    if len({r for _, _, r in renders}) != len(renders):
        raise Broken("harness: renderings of the logs of a multi-file case are not pairwise distinct")
    # argument shapes: (log index, variant, container) per FILE argument
    a, b = 0, 1
    shapes = [
        [(a, "prefix", "zst"), (b, "noprefix", "gz")],
        [(b, "prefix", "plain"), (a, "prefix", "zst")],
        [(a, "noprefix", "plain"), (b, "prefix", "zst"), (a, "prefix", "gz")],
    ]
    cases = [("forward", None), ("reverse", None)] + [(m, ln) for m in ("head", "tail") for ln in M.multi_line_counts(lengths)]
    for shape in shapes:
        paths = [str(lcs[j].variants[v].paths[c]) for j, v, c in shape]
        prios_per_file = [lcs[j].prios for j, _, _ in shape]
        tag = "+".join(f"log{j}:{v}/{c}" for j, v, c in shape)
        for mode, ln in cases:
            for p in thresholds:
                argv: list[str] = [] if p is None else ["-p", M.PRIORITY_NAMES[p]]
                if mode == "reverse":
                    argv.append("--reverse")
                elif ln is not None:
                    argv += [f"--{mode}", "-n", str(ln)]
                lc0.ev("hr-multi", tag, mode, ln, p)
                code, text, crash = run_hr(lc0.variants["prefix"], "plain", [*argv, *paths])
                # (log, record) pairs: a log may be named by more than one argument
                admitted = [[(shape[q][0], i) for q, i in adm] for adm in M.expect_hr_multi(prios_per_file, 6 if p is None else p, mode, ln or 0)]
                obs: Any
                if crash is not None:
                    shape_s, obs = f"crash-{crash}", code
                elif code not in (0, None):
                    shape_s, obs = f"exit={code}", code
                else:
                    obs = []
                    pos = 0
                    while pos < len(text) and obs is not None:
                        for j, i, r in renders:
                            if text.startswith(r, pos):
                                obs.append((j, i))
                                pos += len(r)
                                break
                        else:
                            obs = None
                    if obs is None:
                        shape_s, obs = "undecodable-output", short(text, 120)
                    elif obs in admitted:
                        continue
                    else:
                        shape_s = "differs-from-the-single-file-outputs"
                lens = [lcs[j].n for j, _, _ in shape]
                lc0.violate(
                    f"C17|hr|multi-file|{mode}|{shape_s}",
                    f"hr {' '.join(argv)} <{tag}> on logs of {lens} records with severities {prios_per_file}: expected "
                    f"(log, record) {' or '.join(map(str, admitted))}, got {obs}",
                    {"hr": [*argv, *paths], "lengths": lengths},
                )


# -- daylight-saving zones ---------------------------------------------------------------------

_CHILD = (
    "import sys, json, pickle\n"
    "from vf.checks import c17\n"
    "r = c17.run_item(tuple(json.loads(sys.argv[1])))\n"
    "open(sys.argv[2], 'wb').write(pickle.dumps(r))\n"
)


def run_in_zone(item: tuple[Any, ...], tzstring: str, d: Path) -> Result:
    """run the item in a child interpreter whose TZ is set before gallia.log is imported."""
    out = d / "child-result.pkl"
    env = {**os.environ, "C17_TZ": tzstring}
    proc = subprocess.run(  # noqa: S603
        [sys.executable, "-c", _CHILD, json.dumps(item), str(out)], env=env, capture_output=True, text=True, timeout=1200, check=False
    )
    if proc.returncode != 0 or not out.exists():
        raise Broken(f"harness: child interpreter for zone {tzstring} failed ({proc.returncode}): {proc.stderr[-1500:]}")
    res: Result = pickle.loads(out.read_bytes())  # noqa: S301  (written by our own child)
    return res


def check_dst(res: Result, item: Any, d: Path, zone: str) -> None:
    """logs whose clock stands at the listed instants of a DST zone: each instant alone, every chronological pair, all."""
    _tzs, points = M.DST_ZONES[zone]
    idx = list(range(len(points)))
    seqs = [[i] for i in idx] + [list(c) for c in itertools.combinations(idx, 2)] + [idx]
    for k, seq in enumerate(seqs):
        sub = d / f"dst{k}"
        sub.mkdir()
        specs: list[M.RecSpec] = [(M.LEVEL_NAMES[(i + k) % 7], (i + k) % 4, ["ascii", "nl", "emoji", "ws"][(i + k) % 4], False) for i in seq]
        check_log(
            res, item, sub, specs, "text",
            times_us=[points[i][2] for i in seq],
            time_labels=[f"zone={zone}|{points[i][1]}" for i in seq],
        )
        shutil.rmtree(sub)
    res.count("dst_logs", len(seqs))


# -- bursts --------------------------------------------------------------------------------------


def check_burst(res: Result, item: Any, d: Path, count: int, stall: bool) -> None:
    """``count`` short records logged in one go, optionally while the file writer is stalled; every record must be in
    the file, in order."""
    res.count("logs")
    res.count("burst_records", count)
    events: list[Event] = [(M.LEVEL_NAMES[i % 7], f"burst record {i}", None, False, M.BASE_US + i * 1000) for i in range(count)]
    path = d / "burst.json.zst"
    mode = "writer-stalled" if stall else "writer-running"
    doc = {"item": item, "sig": "", "specs": [], "case": {"count": count, "stall": stall}}

    def bad(sig: str, msg: str) -> None:
        res.violate(sig, msg, {**doc, "sig": sig})

    for part, msg in write_events(path, events, "TRACE", stall_writer=stall):
        bad(f"C17|burst|{mode}|{part}", f"burst of {count} records: {msg}")
    res.count("evaluations")
    res.seen("nontrivial", ("burst", count, stall))
    try:
        with G["gl"].PenlogReader(path) as reader:
            n_obs = len(reader)
            recs = list(reader.records())
    except Exception as e:  # gallia call
        bad(f"C17|burst|{mode}|read-raises-{type(e).__name__}", f"reading back a burst of {count} records raised {e!r}")
        return
    if n_obs != count or len(recs) != count:
        texts = {r.data for r in recs}
        missing = next((i for i in range(count) if f"burst record {i}" not in texts), None)
        bad(
            f"C17|burst|{mode}|records-lost" if len(recs) < count else f"C17|burst|{mode}|count",
            f"{count} records logged in one burst ({mode}), len(reader)={n_obs}, {len(recs)} read back; first missing record: #{missing}",
        )
        return
    for i, (ev, rec) in enumerate(zip(events, recs, strict=True)):
        res.count("evaluations")
        obs = canon(rec)
        ref = {"text": ev[1], "prio": M.PRIO_OF_LEVEL[ev[0]], "levelno": M.LEVEL_NO[ev[0]], "tags": None, "ts_us": ev[4]}
        wrong = M.record_mismatches(ref, obs, None)
        if wrong:
            bad(f"C17|burst|{mode}|wrong-record|{wrong[0]}", f"record {i} of a burst of {count}: {wrong} differ: logged {ev[:2]} read back {short((obs['data'], obs['prio'], obs['dt']), 120)}")
            return


# -- items -----------------------------------------------------------------------------------

NT = len(M.TEXT_KEYS)


def lv_specs(levels: list[str], j: int) -> list[M.RecSpec]:
    return [(lv, (j // NT + i) % 4, M.TEXT_KEYS[(j + 3 * i) % NT], bool((j // (4 * NT) + i) % 2)) for i, lv in enumerate(levels)]


def tx_specs(texts: list[str], j: int) -> list[M.RecSpec]:
    return [(M.LEVEL_NAMES[(j + 2 * i) % 7], (j // 7 + i) % 4, t, bool((j // 28 + i) % 2)) for i, t in enumerate(texts)]


def bfs_specs(n: int) -> list[M.RecSpec]:
    # all seven levels in a non-monotonic order, texts incl. embedded newline / long line / look-alike prefix
    order = ["INFO", "TRACE", "CRITICAL", "DEBUG", "WARNING", "NOTICE", "ERROR"]
    texts = ["nl", "prio", "ascii", "long", "empty", "crlf"]
    return [(order[i % 7], i % 4, texts[i % len(texts)], i % 3 == 1) for i in range(n)]


def items(tier: str, seed: int) -> list[tuple[Any, ...]]:
    b = BOUNDS[tier]
    N = b["N"]
    out: list[tuple[Any, ...]] = []
    j = 0
    for n in range(0, N + 1):
        for lv in itertools.product(M.LEVEL_NAMES, repeat=n):
            out.append(("lvseq", list(lv), j, "full" if tier == "thorough" and n <= 3 else "fullq"))
            j += 1
    for level in M.LEVEL_NAMES:
        for tags_i in range(len(M.TAGS)):
            for exc in (False, True):
                out.append(("alpha", level, tags_i, exc))
    for n in range(0, N + 2):
        out.append(("bfs", n, b["bfs_depth"], b["bfs_prios"]))
    for la in range(0, b["multi_len"] + 1):
        for lb in range(0, b["multi_len"] + 1):
            out.append(("multi", [la, lb], b["multi_thresholds"]))
    for zone in M.DST_ZONES:
        out.append(("dst", zone))
    for count, stall in b["bursts"]:
        out.append(("burst", count, stall))
    for fl in ("DEBUG", "INFO", "WARNING", "CRITICAL"):
        for n in range(0, 3):
            for lv in itertools.product(M.LEVEL_NAMES, repeat=n):
                out.append(("flevel", list(lv), fl))
    j = 0
    seen_tx = set()
    for keys, upto in ((M.TEXT_KEYS, N - 1), (M.BRIEF_TEXT_KEYS, N)):
        for n in range(1, upto + 1):
            for tx in itertools.product(keys, repeat=n):
                if tx not in seen_tx:
                    seen_tx.add(tx)
                    out.append(("txseq", list(tx), j))
                    j += 1
    if b["pairs"]:
        lt = [(lv, t) for lv in M.LEVEL_NAMES for t in M.TEXT_KEYS]
        for j, ((l1, t1), (l2, t2)) in enumerate(itertools.product(lt, repeat=2)):
            out.append(("pair", [l1, j % 4, t1, bool(j % 2)], [l2, (j // 4) % 4, t2, bool((j // 2) % 2)]))
    return out


def run_item(item: tuple[Any, ...]) -> Result:
    worker_init()
    res = Result()
    d = Path(f"/dev/shm/log-{os.getpid()}")
    if d.exists():
        shutil.rmtree(d)
    d.mkdir()
    old_tmp = tempfile.tempdir
    tempfile.tempdir = str(d)
    threads_before = threading.active_count()
    G["leaked"] = 0
    try:
        fam = item[0]
        if fam == "lvseq":
            _, levels, j, profile = item
            specs = lv_specs(levels, j)
            check_log(res, item, d, specs, profile)
            if j in (40, 200):
                res.sample({"family": fam, "records": [list(s[:2]) + [s[2], s[3]] for s in specs], "evaluations": res.counters.get("evaluations")})
        elif fam == "txseq":
            _, texts, j = item
            check_log(res, item, d, tx_specs(texts, j), "text")
        elif fam == "alpha":
            _, level, tags_i, exc = item
            for k, t in enumerate(M.TEXT_KEYS):
                sub = d / f"a{k}"
                sub.mkdir()
                check_log(res, item, sub, [(level, tags_i, t, exc)], "alpha")
                shutil.rmtree(sub)
        elif fam == "pair":
            _, a, b = item
            check_log(res, item, d, [tuple(a), tuple(b)], "text")  # type: ignore[list-item]
        elif fam == "flevel":
            _, levels, fl = item
            check_log(res, item, d, lv_specs(levels, 5 + len(levels)), "text", file_level=fl)
        elif fam == "multi":
            _, lengths, thresholds = item
            check_hr_multi(res, item, d, lengths, thresholds)
        elif fam == "dst":
            _, zone = item
            tzstring = M.DST_ZONES[zone][0]
            if G["tz"] == tzstring:
                check_dst(res, item, d, zone)
            else:
                res = run_in_zone(item, tzstring, d)
        elif fam == "burst":
            _, count, stall = item
            check_burst(res, item, d, count, stall)
        elif fam == "bfs":
            _, n, depth, prios = item
            check_log(res, item, d, bfs_specs(n), "text", bfs_cfg=(depth, prios))
            res.sample({"family": fam, "n": n, "depth": depth, "transitions": res.counters.get("transitions", 0), "states": len(res.digests.get("states", ()))})
        else:
            raise Broken(f"unknown item {item!r}")
        res.notes.setdefault("items_per_family", {})
        res.notes["items_per_family"][fam] = 1
    finally:
        tempfile.tempdir = old_tmp
        shutil.rmtree(d, ignore_errors=True)
    if threading.active_count() > threads_before + G["leaked"]:  # threads gallia failed to stop are violations, not harness errors
        raise Broken("harness: a thread survived the item")
    return res


def replay(doc: dict[str, Any]) -> Result:
    item = doc["item"]
    item = tuple(item)
    full = run_item(item)
    res = Result()
    print(f"    item {item!r}: records {doc.get('specs')}")
    print(f"    case {doc.get('case')}")
    for v in full.violations:
        if v.sig == doc["sig"]:
            res.violations.append(v)
    n = full.notes.get("sig_counts", {}).get(doc["sig"], 0)
    print(f"    {n} failing cases with this signature in the item")
    return res


def finish(merged: Result, tier: str) -> dict[str, Any]:
    c = merged.counters
    if c.get("logs_without_baseline", 0) and not merged.violations:
        raise Broken("vacuous: logs could not be read back, yet no violation was reported")
    if not c.get("transitions") and not merged.violations:
        raise Broken("vacuous: no reader operation sequence explored")
    fams = set(merged.notes.get("items_per_family", {}))
    need = {"lvseq", "txseq", "alpha", "bfs", "flevel", "multi", "dst", "burst"} | ({"pair"} if BOUNDS[tier]["pairs"] else set())
    if fams != need:
        raise Broken(f"families run {sorted(fams)} != {sorted(need)}")
    b = BOUNDS[tier]
    return {
        "bound": {
            "sequence_length": b["N"],
            "record_alphabet": 7 * 4 * NT * 2,
            "bfs_depth": b["bfs_depth"],
            "bfs_log_lengths": list(range(0, b["N"] + 2)),
            "bfs_priorities": b["bfs_prios"],
            "containers": CONTAINERS,
            "variants": ["prefix", "noprefix", "mixed-<every 0/1 mask> (lvseq, bfs) / alternating masks (other families)", "<prefix|noprefix|alternating>-nonl"],
            "multi_file_log_lengths": list(range(0, b["multi_len"] + 1)),
            "dst_zones": {z: v[0] for z, v in M.DST_ZONES.items()},
            "bursts": [list(x) for x in b["bursts"]],
        }
    }
