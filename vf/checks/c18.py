"""C18 - settings resolve CLI > env > file > default; a stored config re-creates the run.

Engine B (bounded-exhaustive enumeration).  For every leaf command of
``load_commands()`` and every option of its CONFIG_TYPE the real parser is built
the way ``gallia`` builds it (``cli.gallia.create_parser`` on the command tree
pruned to that command, config read from a real ``gallia.toml`` via
``GALLIA_CONFIG``, environment through ``os.environ``) for every subset of the
sources the option is *declared* to have, and the parsed config is compared with
the reference precedence function.  Declarations are re-read from the class
sources (``vf/ref/c18_model.py``), not from ``model_fields``.
"""

from __future__ import annotations

import atexit
import contextlib
import io
import itertools
import json
import os
import shutil
from pathlib import Path
from typing import Any

from vf.engine.runner import Broken, Result
from vf.ref import c18_model as M

ID = "C18"
LEVEL = "exploration"
RULE = (
    "every leaf command of load_commands() x every non-hidden option of its CONFIG_TYPE x every subset of the "
    "sources the option is declared to have ({cli, env GALLIA_<NAME>, gallia.toml <section>.<name>}; the 4th source, "
    "the built-in default, exists or not per option) x value assignments from the per-kind alphabet (rotations so "
    "that every present source carries a different valid value; all assignments for two-valued kinds) x spellings "
    "(ints base 2/8/10/16, hex bytes, ranges, 2-D ranges, enums by name/value/hex value, URIs, paths, --x/--no-x, "
    "const form, short flag, multi-token lists); + the present-but-empty value \"\" in each source for every option "
    "whose type accepts it (alone and above non-empty lower sources); + one invalid value per source as the effective source; "
    "+ a value of every TOML shape (inline table, sub-section, array, nested array, bool, float, int, string) at the key of "
    "every file-configurable option: used as the model coerces it or rejected naming the file, never ignored; + JSON "
    "round trip of every accepted config; + META.json/Rerunner and run_meta(DB) re-load per command, in-process and "
    "(META.json) by gallia's Rerunner in a fresh interpreter, stored key set == model fields, META.json == DB; + --template "
    "keys. evaluation = one parse (or one reload/template key) judged by the oracle; non-trivial = distinct "
    "(command, option, set of providing sources, winning source, value, spelling) with at least one non-default source"
)
ASSUMPTIONS = [
    "pydantic, argparse and tomllib are trusted; pydantic-level facts (default, required, field order) are read from model_fields",
    "gallia specific metadata (positional/short/const/hidden/config section, Annotated helper kind) is re-read from the "
    "class source and re-evaluated in the defining module (declaration == what the author wrote)",
    "an option is env-configurable iff declared with gallia.command.config.Field, file-configurable iff additionally a "
    "config section is declared (own or class keyword); options without declared key have no file source",
    "validity of a value for one option (field constraints, cross-field validators) is established by direct model "
    "instantiation; the expected *value* of a spelling comes from the alphabet table, never from gallia",
    "other required options of the command are supplied on the command line in the form the built parser accepts",
    "an invalid value is only demanded to be rejected when it is the effective (highest priority present) source",
]

SHM = Path("/dev/shm/config-c18-unset")
G: dict[str, Any] = {}


# ---------------------------------------------------------------------------
# loading


def _load() -> None:
    if G:
        return
    for k in [k for k in os.environ if k.startswith("GALLIA_")]:
        del os.environ[k]
    import logging

    logging.disable(logging.CRITICAL)
    import gallia.command  # noqa: F401  (import order)
    from gallia.cli import gallia as cli
    from gallia.command.config import GalliaBaseModel
    from gallia.plugins.plugin import CommandTree, load_commands
    from pydantic import ValidationError

    # load_plugins() scans the installed distributions on every call (18 ms, once per validated `oem`): the set of
    # installed entry points is constant during a run
    import functools

    import gallia.plugins.plugin as plugin_mod

    plugin_mod.entry_points = functools.lru_cache(maxsize=None)(plugin_mod.entry_points)  # type: ignore[attr-defined]

    tree = load_commands()
    leaves = M.walk_commands(tree)
    G.update(
        cli=cli,
        tree=tree,
        CommandTree=CommandTree,
        ValidationError=ValidationError,
        GalliaBaseModel=GalliaBaseModel,
        leaves={p: c for p, c in leaves},
        order=[p for p, _ in leaves],
        opts={},
        ctx_cache={},
    )
    for p, c in leaves:
        G["opts"][p] = M.declared_options(c.CONFIG_TYPE)
    # scratch root of this run: created by the first process that loads (the runner's parent process, inherited by
    # the forked workers), removed by that process at exit / in finish()
    G["root"] = Path(f"/dev/shm/config-c18-{os.getpid()}")
    atexit.register(shutil.rmtree, G["root"], True)


def worker_init() -> None:
    global SHM
    _load()
    SHM = G["root"] / str(os.getpid())
    SHM.mkdir(parents=True, exist_ok=True)


def _pruned(path: tuple[str, ...]) -> dict[str, Any]:
    """the command tree reduced to the branch of one leaf (same node descriptions)"""
    CommandTree = G["CommandTree"]

    def rec(sub: Any, rest: tuple[str, ...]) -> dict[str, Any]:
        node = sub[rest[0]]
        if len(rest) == 1:
            return {rest[0]: node}
        return {rest[0]: CommandTree(node.description, rec(node.subtree, rest[1:]))}

    return rec(G["tree"], path)


# ---------------------------------------------------------------------------
# running the real code


def build_parser(commands: Any, file_entries: dict[str, Any], env: dict[str, str], raw_toml: str | None = None) -> Any:
    """gallia's own create_parser() with a real gallia.toml and a real environment"""
    SHM.mkdir(parents=True, exist_ok=True)
    cfg = SHM / "gallia.toml"
    cfg.write_text(raw_toml if raw_toml is not None else M.toml_doc(file_entries))
    os.environ["GALLIA_CONFIG"] = str(cfg)
    for k, v in env.items():
        os.environ[k] = v
    try:
        return G["cli"].create_parser(commands)
    finally:
        for k in env:
            os.environ.pop(k, None)
        os.environ.pop("GALLIA_CONFIG", None)


def parse(parser: Any, argv: list[str]) -> dict[str, Any]:
    err = io.StringIO()
    out = io.StringIO()
    try:
        with contextlib.redirect_stderr(err), contextlib.redirect_stdout(out):
            _, cfg = parser.parse_typed_args(list(argv))
    except SystemExit as e:
        return {"status": "exit", "code": e.code, "stderr": err.getvalue()}
    except Exception as e:  # noqa: BLE001  gallia raised something else than a usage error
        return {"status": "crash", "exc": f"{type(e).__name__}: {e}", "stderr": err.getvalue()}
    return {"status": "ok", "cfg": cfg, "stderr": err.getvalue()}


def leaf_actions(parser: Any, path: tuple[str, ...]) -> dict[str, Any]:
    p = parser
    for name in path:
        p = p._subcommands._name_parser_map[name]  # noqa: SLF001
    return {a.dest: a for a in p._actions}  # noqa: SLF001


# ---------------------------------------------------------------------------
# context: values for the *other* options such that the command line is acceptable


def _instantiable(ct: Any, kw: dict[str, Any]) -> bool:
    try:
        ct(**{k: M.materialise(v) for k, v in kw.items()})
    except G["ValidationError"]:
        return False
    except (ValueError, TypeError, AttributeError, KeyError):
        return False
    return True


def context(path: tuple[str, ...], fixed: dict[str, Any]) -> dict[str, M.Val] | None:
    """smallest assignment of other options (required ones + companions demanded by cross-field validators)
    under which CONFIG_TYPE accepts `fixed`; found by breadth first search with direct model instantiation"""
    key = (path, tuple(sorted((k, repr(M.canon_expected(v))) for k, v in fixed.items())))
    cache = G["ctx_cache"]
    if key in cache:
        return cache[key]
    ct = G["leaves"][path].CONFIG_TYPE
    opts = G["opts"][path]
    alph = {o.name: M.alphabet(o.kind) for o in opts if not o.hidden}
    required = [o for o in opts if o.required and o.name not in fixed]
    res: dict[str, M.Val] | None = None
    if all(alph.get(o.name) for o in required):
        base = {o.name: 0 for o in required}
        moves: list[tuple[str, int]] = []
        for o in required:
            moves += [(o.name, i) for i in range(1, len(alph[o.name]))]
        for o in opts:
            if o.hidden or o.required or o.name in fixed or not alph.get(o.name):
                continue
            idx = next((i for i, v in enumerate(alph[o.name]) if not M.same(v.expected, o.default)), None)
            if idx is not None:
                moves.append((o.name, idx))

        def attempt(assign: dict[str, int]) -> bool:
            kw: dict[str, Any] = {n: alph[n][i].expected for n, i in assign.items()}
            kw.update(fixed)
            return _instantiable(ct, kw)

        for depth in (0, 1, 2):
            for combo in itertools.combinations(moves, depth):
                if len({n for n, _ in combo}) != depth:
                    continue
                assign = dict(base)
                assign.update(dict(combo))
                if attempt(assign):
                    res = {n: alph[n][i] for n, i in assign.items()}
                    break
            if res is not None:
                break
    cache[key] = res
    return res


def spell_actual(action: Any, opt: M.Opt, val: M.Val) -> tuple[list[str], list[str]]:
    """(positional tokens, option tokens) for a context option in the form the built parser accepts"""
    if not action.option_strings:
        return list(val.cli[0]), []
    if val.flagform:
        want_no = val.expected is False
        for s in action.option_strings:
            if s.startswith("--") and s.startswith("--no-") == want_no:
                return [], [s]
        raise Broken(f"no boolean flag for {opt.name}")
    flag = next((s for s in action.option_strings if s.startswith("--")), action.option_strings[0])
    return [], [flag, *val.cli[0]]


def spell_declared(opt: M.Opt, val: M.Val, variant: int) -> tuple[list[str], list[str], str]:
    """(positional tokens, option tokens, form) for the option under test as DECLARED.
    variant enumerates: token spelling x {long, short, long=value}"""
    if val.flagform:
        return [], [opt.long_flag if val.expected else "--no-" + opt.long_flag[2:]], "flag"
    toks = val.cli[variant % len(val.cli)]
    form_i = variant // len(val.cli)
    if opt.positional:
        return list(toks), [], "positional"
    forms = ["long"]
    if opt.short:
        forms.append("short")
    if len(toks) == 1:
        forms.append("long=")
    form = forms[form_i % len(forms)]
    if form == "short":
        return [], ["-" + opt.short, *toks], "short"
    if form == "long=":
        return [], [f"{opt.long_flag}={toks[0]}"], "long="
    return [], [opt.long_flag, *toks], "long"


def n_cli_variants(opt: M.Opt, val: M.Val) -> int:
    if val.flagform:
        return 1
    forms = 1 + (1 if opt.short and not opt.positional else 0) + (0 if opt.positional else 1)
    return len(val.cli) * forms


def argv_for(
    path: tuple[str, ...],
    actions: dict[str, Any],
    ctx: dict[str, M.Val],
    under: tuple[M.Opt, list[str], list[str]] | None,
) -> list[str] | None:
    opts = G["opts"][path]
    pos: list[str] = []
    optl: list[str] = []
    for o in opts:
        if under is not None and o.name == under[0].name:
            pos += under[1]
            continue
        if o.name in ctx:
            act = actions.get(o.name)
            if act is None:
                return None
            p, q = spell_actual(act, o, ctx[o.name])
            pos += p
            optl += q
    if under is not None:
        optl += under[2]
    return [*path, *pos, *optl]


# ---------------------------------------------------------------------------
# oracle helpers


def stripped(opt: M.Opt) -> bool:
    """diagnosis only (never decides pass/fail): the declared gallia Field did not survive model construction"""
    return opt.gallia_field and opt.kind.top_annotated and opt.surviving_type not in ("ConfigArgFieldInfo",)


def names_source(opt: M.Opt, src: str, text: str) -> bool:
    if src == "cli":
        cands = [opt.name] if opt.positional else [opt.long_flag] + (["-" + opt.short] if opt.short else [])
        return any(c in text for c in cands)
    if src == "env":
        return opt.env_name in text
    if src == "file":
        return opt.name in text and ("config file" in text or "gallia.toml" in text or (opt.section or "\0") in text)
    return False


def classify_got(got: dict[str, Any], opt: M.Opt, provided: dict[str, M.Val]) -> str:
    if got["status"] != "ok":
        return "rejected" if got["status"] == "exit" else "crash"
    v = getattr(got["cfg"], opt.name)
    for s in M.SOURCES:
        if s in provided and M.canon(v) == M.canon_expected(provided[s].expected):
            return s
    if not opt.required and M.same(v, opt.default, lenient_numeric=True):
        return "default"
    return "other"


def sig_precedence(opt: M.Opt, want: str, got: str, form: str) -> str:
    if stripped(opt):
        if want == "env" and got != "env":
            return "C18|annotated-field-metadata-stripped|env-ignored"
        if want == "file" and got != "file":
            return "C18|annotated-field-metadata-stripped|file-ignored"
        if want == "cli" and got == "rejected" and form in ("positional", "short", "const"):
            return "C18|annotated-field-metadata-stripped|declared-cli-form-rejected"
    if opt.positional and want in ("env", "file"):
        return f"C18|positional-option|want={want}|got={got}"
    return f"C18|precedence|parser={opt.kind.parser}|want={want}|got={got}" + (f"|form={form}" if want == "cli" and form not in ("long", "flag") else "")


def _blame(ct: Any, doc: dict[str, Any], cfg: Any) -> list[str]:
    """diagnosis for signatures: fields whose dumped form alone makes the reload raise"""
    bad = []
    for f in doc:
        d2 = dict(doc)
        d2[f] = getattr(cfg, f)
        try:
            ct(**d2)
        except Exception:  # noqa: BLE001, S112
            continue
        bad.append(f)
    return bad


def roundtrip(path: tuple[str, ...], cfg: Any, res: Result, rp: dict[str, Any], where: str) -> None:
    ct = G["leaves"][path].CONFIG_TYPE
    kinds = {o.name: o.kind.label() for o in G["opts"][path]}
    res.count("evaluations")
    res.count("roundtrips")
    try:
        doc = json.loads(cfg.model_dump_json())
    except Exception as e:  # noqa: BLE001
        res.violate(f"C18|roundtrip|dump-raises|{type(e).__name__}", f"model_dump_json raised {type(e).__name__}: {e} {where}", rp)
        return
    try:
        cfg2 = ct(**doc)
    except G["ValidationError"] as e:
        locs = sorted({str(x["loc"][0]) if x["loc"] else "<model>" for x in e.errors()})
        for loc in locs[:2]:
            res.violate(
                f"C18|roundtrip|reload-rejected|{kinds.get(loc, loc)}",
                f"CONFIG_TYPE(**json.loads(cfg.model_dump_json())) rejected field {loc}: {str(e).splitlines()[2:3]} {where}",
                rp,
            )
        return
    except Exception as e:  # noqa: BLE001
        bad = _blame(ct, doc, cfg)
        res.violate(
            f"C18|roundtrip|reload-raises|{type(e).__name__}|{','.join(kinds.get(b, b) for b in bad) or '-'}",
            f"reload of the dumped config raised {type(e).__name__}: {e} (field {bad}) {where}",
            rp,
        )
        return
    for name in ct.model_fields:
        a, b = getattr(cfg, name), getattr(cfg2, name)
        if not M.equal_config_value(a, b):
            res.violate(
                f"C18|roundtrip|value-changed|{kinds.get(name, name)}",
                f"field {name}: {M.canon(a)!r} reloaded as {M.canon(b)!r} {where}",
                rp,
            )


# ---------------------------------------------------------------------------
# one option: all source subsets


def _pool(opt: M.Opt, usable: list[M.Val]) -> list[M.Val]:
    nondef = [v for v in usable if opt.required or not M.same(v.expected, opt.default)]
    return nondef if len(nondef) >= 3 else usable


def run_case(
    path: tuple[str, ...],
    opt: M.Opt,
    provided: dict[str, tuple[M.Val, int]],
    res: Result,
    invalid: tuple[str, Any] | None = None,
    const_form: bool = False,
    shape: int | None = None,
) -> None:
    """provided: source -> (value, spelling index).  invalid: (source, raw spelling) replaces that source's value."""
    vals = {s: v for s, (v, _) in provided.items()}
    want_src, want_val = M.resolve({s: v for s, v in vals.items()}, None)
    eff = vals.get(want_src)
    fixed = {opt.name: eff.expected} if eff is not None else {}
    if eff is None and not opt.required:
        fixed = {opt.name: opt.default}  # companions demanded by cross-field validators must fit the default
    if const_form:
        fixed = {opt.name: opt.const}
    if invalid is not None:
        # context must be acceptable once the invalid value is replaced by any valid one
        anyv = next(iter(vals.values()), None)
        fixed = {opt.name: anyv.expected} if anyv is not None else {}
    ctx = context(path, fixed)
    if ctx is None and not fixed and opt.required:
        # required option absent everywhere: any context that works with some value of it
        a = M.alphabet(opt.kind)
        ctx = next((c for c in (context(path, {opt.name: v.expected}) for v in a) if c is not None), None)
    if ctx is None:
        res.uncovered.add(f"{' '.join(path)} {opt.name}: no acceptable command line for value {fixed.get(opt.name)!r}")
        return
    ctx = {n: v for n, v in ctx.items() if n != opt.name}

    file_entries: dict[str, Any] = {}
    env: dict[str, str] = {}
    spelled: dict[str, Any] = {}
    if "file" in provided:
        v, i = provided["file"]
        raw = invalid[1] if invalid and invalid[0] == "file" else v.file[i % len(v.file)]
        file_entries[opt.file_key or ""] = raw
        spelled["file"] = raw
    if "env" in provided:
        v, i = provided["env"]
        raw = invalid[1] if invalid and invalid[0] == "env" else v.env[i % len(v.env)]
        env[opt.env_name] = raw
        spelled["env"] = raw
    rp = {
        "kind": "option",
        "path": list(path),
        "option": opt.name,
        "provided": {s: [v.idx, i] for s, (v, i) in provided.items()},
        "invalid": list(invalid) if invalid else None,
        "const_form": const_form,
        "shape": shape,
    }
    if shape is not None and invalid is not None:
        rp["invalid"] = ["file", "<shape>"]
    try:
        ck = (path, M.toml_doc(file_entries), repr(sorted(env.items())))
        if G.get("parser_cache", (None, None))[0] == ck:
            parser = G["parser_cache"][1]
        else:
            parser = build_parser(_pruned(path), file_entries, env)
            G["parser_cache"] = (ck, parser)
            res.count("parsers_built")
    except Exception as e:  # noqa: BLE001  (gallia failed while building the parser from file/env values)
        res.count("evaluations")
        res.violate(
            f"C18|parser-build-raises|{type(e).__name__}|parser={opt.kind.parser}",
            f"create_parser raised {type(e).__name__}: {e} for {' '.join(path)} {opt.name} file={file_entries} env={env}",
            rp,
        )
        return
    actions = leaf_actions(parser, path)
    under = None
    form = "-"
    if "cli" in provided:
        v, i = provided["cli"]
        if invalid and invalid[0] == "cli":
            v = M.Val(None, [list(invalid[1])], [], [])
        if const_form:
            p, q, form = [], [opt.long_flag], "const"
        else:
            p, q, form = spell_declared(opt, v, i)
        under = (opt, p, q)
        spelled["cli"] = p + q
    argv = argv_for(path, actions, ctx, under)
    if argv is None:
        res.uncovered.add(f"{' '.join(path)} {opt.name}: a context option has no command line form")
        return
    got = parse(parser, argv)
    res.count("evaluations")
    where = f"[{' '.join(argv)}] env={env} file={file_entries}"

    if invalid is not None:
        src = invalid[0]
        res.count("invalid_cases")
        if got["status"] == "exit" and got["code"] not in (0, None):
            if not names_source(opt, src, got["stderr"]):
                last = got["stderr"].strip().splitlines()[-1:] or [""]
                sig = f"C18|invalid|parser={opt.kind.parser}|src={src}|message-does-not-name-source"
                if stripped(opt) and src in ("env", "file"):
                    sig = f"C18|annotated-field-metadata-stripped|{src}-ignored"
                elif stripped(opt) and src == "cli" and form in ("positional", "short"):
                    sig = "C18|annotated-field-metadata-stripped|declared-cli-form-rejected"
                elif opt.positional and src in ("env", "file"):
                    sig = f"C18|positional-option|want={src}|got=rejected"
                res.violate(
                    sig,
                    f"invalid {src} value {invalid[1]!r} for {opt.name} rejected, but the message does not name the source: {last[0]!r} {where}",
                    rp,
                )
            else:
                res.count("invalid_rejected_naming_source")
        elif got["status"] == "ok":
            g = classify_got(got, opt, {s: v for s, v in vals.items() if s != src})
            if stripped(opt) and src in ("env", "file"):
                sig = f"C18|annotated-field-metadata-stripped|{src}-ignored"
            else:
                sig = f"C18|invalid|parser={opt.kind.parser}|src={src}|silently-ignored"
            res.violate(sig, f"invalid {src} value {invalid[1]!r} for {opt.name} not rejected (config took the {g} value) {where}", rp)
        else:
            res.violate(
                f"C18|invalid|parser={opt.kind.parser}|src={src}|{got['status']}",
                f"invalid {src} value {invalid[1]!r} for {opt.name}: {got.get('exc') or got.get('code')} {where}",
                rp,
            )
        return

    # ---- valid values: precedence
    if const_form:
        want_src, want_canon = "cli", M.canon(opt.const)
    elif eff is not None:
        want_canon = M.canon_expected(eff.expected)
    else:
        want_src, want_canon = "default", None
    nontrivial = (tuple(path), opt.name, tuple(sorted(provided)), want_src, repr(want_canon), repr(spelled.get(want_src)))
    if provided:
        res.seen("nontrivial", nontrivial)
    res.notes.setdefault("winner_histogram", {})
    hk = f"{''.join(s[0] for s in M.SOURCES if s in provided) or '-'}{'+d' if not opt.required else ''}->{want_src}"
    res.notes["winner_histogram"][hk] = res.notes["winner_histogram"].get(hk, 0) + 1
    res.notes.setdefault("kinds", {})
    res.notes["kinds"][opt.kind.label()] = res.notes["kinds"].get(opt.kind.label(), 0) + 1

    res.count("precedence_cases")
    if want_src == "default" and opt.required:
        # nothing provides a value: must be refused
        res.count("required_missing_cases")
        if got["status"] == "exit" and got["code"] not in (0, None):
            res.count("required_missing_rejected")
        else:
            res.violate(
                f"C18|required-missing|parser={opt.kind.parser}|{got['status']}",
                f"required option {opt.name} given by no source but parse result is {got['status']} {where}",
                rp,
            )
        return

    g = classify_got(got, opt, vals)
    ok = False
    if got["status"] == "ok":
        v = getattr(got["cfg"], opt.name)
        if want_src == "default":
            ok = M.same(v, opt.default, lenient_numeric=True)
        else:
            ok = M.canon(v) == want_canon
    if not ok:
        detail = ""
        if got["status"] == "ok":
            detail = f"got {getattr(got['cfg'], opt.name)!r}"
        elif got["status"] == "exit":
            detail = "rejected: " + (got["stderr"].strip().splitlines()[-1:] or [""])[0]
        else:
            detail = got["exc"]
        res.violate(
            sig_precedence(opt, want_src, g, form),
            f"{' '.join(path)} {opt.name} ({opt.kind.label()}): want the {want_src} value {want_canon!r}, {detail} {where}",
            rp,
        )
        return
    res.count("precedence_ok")
    if path == ("scan", "uds", "sessions") and opt.name in ("power_cycle_sleep", "verbose", "ecu_reset") and len(res.samples) < 1 and len(provided) == 3:
        res.sample({"argv": argv, "env": env, "file": file_entries, "winner": want_src, "value": repr(getattr(got["cfg"], opt.name))})
    roundtrip(path, got["cfg"], res, rp, where)


def run_option(path: tuple[str, ...], name: str, tier: str) -> Result:
    res = Result()
    opt = next(o for o in G["opts"][path] if o.name == name)
    res.count("options")
    if opt.hidden:
        res.count("options_hidden")
        return res
    alph = M.alphabet(opt.kind)
    if not alph:
        res.uncovered.add(f"kind {opt.kind.label()} has no value alphabet: {' '.join(path)} {name}")
        return res
    usable = [v for v in alph if context(path, {name: v.expected}) is not None]
    if not usable and opt.kind.name == "str" and isinstance(opt.default, str):
        # constrained string (e.g. oem must name an installed ECU): the default is the only spelling known to be valid
        d = opt.default
        usable = [M.Val(d, [[d]], [d], [d], idx=len(alph))]
    if not usable:
        if context(path, {}) is None:
            res.count("options_of_unparseable_commands")
            res.uncovered.add(f"{' '.join(path)}: no acceptable command line exists (a required option has no command line spelling); its options are not evaluated")
        else:
            res.uncovered.add(f"{' '.join(path)} {name}: no alphabet value accepted by the command")
        return res
    pool = _pool(opt, usable)
    if len([v for v in usable if opt.required or not M.same(v.expected, opt.default)]) == 0:
        res.count("options_single_valued")
        res.uncovered.add(f"option {name}: the only accepted value equals the default (constrained by a validator); precedence not observable")
    sources = opt.declared_sources()
    res.count(f"options_sources_{len(sources)}")
    # a source for which the kind has no valid spelling cannot provide a value
    avail = []
    for s in sources:
        if all(getattr(v, s) for v in pool):
            avail.append(s)
        else:
            res.uncovered.add(f"kind {opt.kind.label()} has no valid {s} spelling (source skipped)")
    # value per source *slot* (cli, env, file): present sources always carry pairwise different values when the pool
    # has >= 3 values (rotation r shifts which value sits in which slot); two-valued pools: every assignment.
    # Cases are ordered so that consecutive ones share (file, env) content and therefore one built parser.
    slots = {s: i for i, s in enumerate(M.SOURCES)}
    lower_srcs = [s for s in avail if s != "cli"]
    combo_i = 0
    done: set[Any] = set()
    for k in range(len(lower_srcs) + 1):
        for lows in itertools.combinations(lower_srcs, k):
            if len(pool) >= 3:
                rots = range(len(pool)) if tier == "thorough" else range(min(3, len(pool)))
                assigns = [({s: pool[(slots[s] + r) % len(pool)] for s in lows}, [pool[r % len(pool)]]) for r in rots]
            else:
                assigns = [(dict(zip(lows, t, strict=True)), list(pool)) for t in itertools.product(pool, repeat=len(lows))]
            for low_assign, cli_vals in assigns:
                sp_low = combo_i
                combo_i += 1
                clis: list[tuple[M.Val, int] | None] = [None]
                if "cli" in avail:
                    for v in cli_vals:
                        nv = n_cli_variants(opt, v)
                        idxs = range(nv) if tier == "thorough" else sorted({sp_low % nv, (sp_low + 1) % nv})
                        clis += [(v, i) for i in idxs]
                for cli in clis:
                    provided = {s: (low_assign[s], sp_low) for s in lows}
                    if cli is not None:
                        provided = {"cli": cli, **provided}
                    key = tuple((s, v.idx, i % 64) for s, (v, i) in sorted(provided.items()))
                    if key in done:
                        continue
                    done.add(key)
                    run_case(path, opt, provided, res)
                if tier == "thorough":
                    # every spelling of the winning lower source as well
                    for s in lows[:1]:
                        v = low_assign[s]
                        for i in range(len(getattr(v, s))):
                            provided = {x: (low_assign[x], i if x == s else sp_low) for x in lows}
                            key = tuple((x, w.idx, j % 64) for x, (w, j) in sorted(provided.items()))
                            if key not in done:
                                done.add(key)
                                run_case(path, opt, provided, res)
    # present-but-empty values: "" in a source is a value (CLI > env > file > default still holds)
    ev = M.empty_value(opt.kind)
    if ev is not None:
        ectx = context(path, {name: ev.expected})
        raw_ok = ectx is not None and _instantiable(
            G["leaves"][path].CONFIG_TYPE, {**{n: v.expected for n, v in ectx.items() if n != name}, name: ""}
        )
        if not raw_ok:
            res.count("options_not_accepting_empty_string")
        else:
            res.count("options_accepting_empty_string")
            nonempty = [v for v in pool if M.canon_expected(v.expected) != M.canon_expected(ev.expected)] or pool
            for si, s in enumerate(avail):
                lower = avail[si + 1 :]
                for lows in ((), tuple(lower)) if lower else ((),):
                    for sp in range(n_cli_variants(opt, ev) if s == "cli" else len(getattr(ev, s))):
                        provided = {s: (ev, sp)}
                        for i, l in enumerate(lows):
                            provided[l] = (nonempty[i % len(nonempty)], 0)
                        res.count("empty_value_cases")
                        run_case(path, opt, provided, res)
    # const form: --opt without a value
    if opt.const is not M.UNDEF and "cli" in avail:
        for lows in ((), tuple(lower_srcs)):
            provided = {"cli": (pool[0], 0)}
            for i, s in enumerate(lows):
                provided[s] = (pool[(i + 1) % len(pool)], 0)
            run_case(path, opt, provided, res, const_form=True)
    # invalid values: as the effective source, alone and above valid lower sources
    inv = M.invalid_values(opt.kind)
    for si, s in enumerate(avail):
        if s not in inv:
            continue
        lower = avail[si + 1 :]
        for lows in ((), tuple(lower)) if lower else ((),):
            provided = {s: (pool[0], 0)}
            for i, l in enumerate(lows):
                provided[l] = (pool[(i + 1) % len(pool)], 0)
            for raw in inv[s]:
                run_case(path, opt, provided, res, invalid=(s, raw))
    # file values of every TOML shape: used (where the model coerces them) or reported, never ignored
    if "file" in avail:
        for k in range(len(M.FILE_SHAPES)):
            run_shape(path, opt, k, pool, res)
    return res


def shape_reference(path: tuple[str, ...], opt: M.Opt, k: int, pool: list[M.Val]) -> tuple[str, Any, dict[str, M.Val] | None]:
    """what CONFIG_TYPE itself makes of TOML shape k at this option: ("invalid", None, ctx) | ("valid", value, ctx) |
    ("skip", reason, None)"""
    ct = G["leaves"][path].CONFIG_TYPE
    raw = M.FILE_SHAPES[k][1]
    ctx = context(path, {opt.name: pool[0].expected})
    if ctx is None:
        return "skip", "no context", None
    kw = {n: M.materialise(v.expected) for n, v in ctx.items() if n != opt.name}
    kw[opt.name] = dict(raw) if isinstance(raw, dict) else raw
    try:
        m = ct(**kw)
    except G["ValidationError"] as e:
        if all(x["loc"] and x["loc"][0] == opt.name for x in e.errors()):
            return "invalid", None, ctx
        return "skip", "cross-field validator", None
    except Exception:  # noqa: BLE001  a validator that raises something else: still not a usable value
        return "invalid", None, ctx
    return "valid", getattr(m, opt.name), ctx


def run_shape(path: tuple[str, ...], opt: M.Opt, k: int, pool: list[M.Val], res: Result) -> None:
    name, raw = M.FILE_SHAPES[k]
    verdict, value, _ = shape_reference(path, opt, k, pool)
    if verdict == "skip":
        res.count("file_shape_skipped")
        return
    res.count("file_shape_cases")
    res.count(f"file_shape_{verdict}")
    if verdict == "invalid":
        run_case(path, opt, {"file": (pool[0], 0)}, res, invalid=("file", raw), shape=k)
    else:
        v = M.Val(value, [], [], [raw], idx=M.SHAPE_IDX - k)
        if context(path, {opt.name: value}) is None:
            res.count("file_shape_skipped")
            return
        run_case(path, opt, {"file": (v, 0)}, res, shape=k)


# ---------------------------------------------------------------------------
# per command: full tree equivalence, Rerunner (META.json and DB)


def _rich_cli(path: tuple[str, ...]) -> tuple[dict[str, M.Val], dict[str, M.Val]] | None:
    """(baseline context, rich assignment: every option that accepts one more non-default value on top)"""
    ct = G["leaves"][path].CONFIG_TYPE
    base = context(path, {})
    if base is None:
        return None
    rich = dict(base)
    for o in G["opts"][path]:
        if o.hidden or o.name in rich:
            continue
        for v in M.alphabet(o.kind):
            if not o.required and M.same(v.expected, o.default):
                continue
            trial = {n: x.expected for n, x in rich.items()}
            trial[o.name] = v.expected
            if _instantiable(ct, trial):
                rich[o.name] = v
                break
    return base, rich


def run_command(path: tuple[str, ...], tier: str) -> Result:
    import asyncio

    res = Result()
    res.count("commands")
    cmd = G["leaves"][path]
    pair = _rich_cli(path)
    if pair is None:
        res.uncovered.add(f"{' '.join(path)}: no acceptable command line exists (a required option has no command line spelling); its options are not evaluated")
        return res
    base, rich = pair
    # 1. the real, complete command tree gives the same config as the pruned tree
    full = build_parser(G["tree"], {}, {})
    pruned = build_parser(_pruned(path), {}, {})
    cfgs = []
    for label, assign in (("baseline", base), ("rich", rich)):
        argv_f = argv_for(path, leaf_actions(full, path), assign, None)
        argv_p = argv_for(path, leaf_actions(pruned, path), assign, None)
        rp = {"kind": "command", "path": list(path)}
        if argv_f is None or argv_p is None:
            res.uncovered.add(f"{' '.join(path)}: {label} assignment has no command line form")
            continue
        gf, gp = parse(full, argv_f), parse(pruned, argv_p)
        res.count("evaluations", 2)
        if argv_f != argv_p or gf["status"] != gp["status"]:
            raise Broken(f"pruned tree is not representative for {' '.join(path)}: {argv_f} -> {gf['status']}, {argv_p} -> {gp['status']}")
        if gf["status"] != "ok":
            # a command line accepted by CONFIG_TYPE directly is refused by the parser; reported per option, here only noted
            res.uncovered.add(f"{' '.join(path)}: {label} command line refused by the parser ({(gf.get('stderr') or '').strip().splitlines()[-1:]})")
            continue
        for n in cmd.CONFIG_TYPE.model_fields:
            if M.canon(getattr(gf["cfg"], n)) != M.canon(getattr(gp["cfg"], n)):
                raise Broken(f"pruned tree differs from the full tree for {' '.join(path)} field {n}")
        cfgs.append((label, gf["cfg"], argv_f))
        if label == "baseline":
            res.count("commands_parsed")
        roundtrip(path, gf["cfg"], res, rp, f"[{' '.join(argv_f)}]")

    # 1b. all options at once, sources dealt round-robin (cross-option interference: e.g. env replacing file values)
    cand = [o for o in G["opts"][path] if o.name in rich and not o.hidden]
    for shift in range(3):
        assign: dict[str, tuple[str, M.Val]] = {}
        for i, o in enumerate(cand):
            v = rich[o.name]
            srcs = ["cli"] if (stripped(o) or o.positional) else _avail_sources(o, v)
            assign[o.name] = (srcs[(i + shift) % len(srcs)], v)
        run_multi(path, assign, res, "mixed", sp=shift)

    # 2. Rerunner: META.json written by the command object, read back by Rerunner.main(); run_meta row in a real DB
    from gallia.command.base import BaseCommand
    from gallia.commands.script.rerun import Rerunner, RerunnerConfig

    captured: list[Any] = []

    async def fake_entry_point(self: Any) -> int:
        captured.append(self)
        return 0

    orig = BaseCommand.entry_point
    for label, cfg, argv in cfgs:
        rp = {"kind": "command", "path": list(path)}
        where = f"({label}: {' '.join(argv)})"
        try:
            inst = cmd(cfg)
            meta_text = inst.run_meta.json()
        except Exception as e:  # noqa: BLE001
            res.count("evaluations")
            res.violate(f"C18|rerun|command-init-raises|{type(e).__name__}", f"{cmd.__name__}(config) / run_meta raised {e!r} {where}", rp)
            continue
        SHM.mkdir(parents=True, exist_ok=True)
        meta = SHM / "META.json"
        meta.write_text(meta_text + "\n")
        fields = set(cmd.CONFIG_TYPE.model_fields)
        full_doc = json.loads(cfg.model_dump_json())
        stored: dict[str, Any] = {"file": json.loads(meta_text).get("config")}
        G["db_doc"] = None
        # (b) a later *process* re-creates the run from META.json: defaults that are evaluated per process / platform
        # (random seed, platform switches) must come out as the original run had them
        res.count("evaluations")
        res.count("rerun_fresh_process")
        fresh = _rerun_fresh_process(meta)
        if "error" in fresh:
            res.violate(f"C18|rerun|fresh-process|fails|{fresh['error'].split(':')[0]}", f"re-creating {' '.join(path)} from META.json in a fresh interpreter failed: {fresh['error']} {where}", rp)
        else:
            kinds = {o.name: o.kind.label() for o in G["opts"][path]}
            if fresh["command"] != f"{cmd.__module__}.{cmd.__name__}":
                res.violate("C18|rerun|fresh-process|wrong-command", f"fresh interpreter re-created {fresh['command']} instead of {cmd.__name__} {where}", rp)
            for n in sorted(fields):
                if fresh["config"].get(n, "<absent>") != full_doc.get(n, "<absent>"):
                    res.violate(
                        f"C18|rerun|fresh-process|value-changed|{kinds.get(n, n)}",
                        f"{' '.join(path)} field {n}: the run had {full_doc.get(n)!r}, a fresh interpreter re-creates {fresh['config'].get(n)!r} from META.json {where}",
                        rp,
                    )
        for via in ("file", "db"):
            captured.clear()
            res.count("evaluations")
            res.count(f"rerun_{via}")
            BaseCommand.entry_point = fake_entry_point  # type: ignore[method-assign]
            outcome = "returned"
            try:
                if via == "file":
                    rr = Rerunner(RerunnerConfig(file=meta))
                    try:
                        asyncio.run(rr.main())
                    except SystemExit as e:
                        outcome = f"exit={e.code}"
                else:
                    outcome = asyncio.run(_rerun_via_db(inst, cfg))
            except Exception as e:  # noqa: BLE001
                outcome = f"{type(e).__name__}: {str(e).splitlines()[0] if str(e) else ''}"
                exc_name = type(e).__name__
                kinds = {o.name: o.kind.label() for o in G["opts"][path]}
                if isinstance(e, G["ValidationError"]):
                    bad = ",".join(sorted({kinds.get(str(x["loc"][0]), str(x["loc"][0])) if x["loc"] else "<model>" for x in e.errors()}))
                else:
                    bad = ",".join(kinds.get(b, b) for b in _blame(cmd.CONFIG_TYPE, json.loads(cfg.model_dump_json()), cfg)) or "-"
                res.violate(f"C18|rerun|{via}|raises|{exc_name}|{bad}", f"Rerunner ({via}) for {' '.join(path)}: {outcome} {where}", rp)
                continue
            finally:
                BaseCommand.entry_point = orig  # type: ignore[method-assign]
            if outcome != "exit=0" or len(captured) != 1:
                res.violate(f"C18|rerun|{via}|not-started", f"Rerunner ({via}) for {' '.join(path)}: {outcome}, commands started {len(captured)} {where}", rp)
                continue
            again = captured[0]
            if type(again) is not cmd:
                res.violate(f"C18|rerun|{via}|wrong-command", f"re-run created {type(again).__name__} instead of {cmd.__name__} {where}", rp)
                continue
            kinds = {o.name: o.kind.label() for o in G["opts"][path]}
            for n in cmd.CONFIG_TYPE.model_fields:
                a, b = getattr(cfg, n), getattr(again.config, n)
                if not M.equal_config_value(a, b):
                    res.violate(f"C18|rerun|{via}|value-changed|{kinds.get(n, n)}", f"{' '.join(path)} field {n}: {M.canon(a)!r} re-run with {M.canon(b)!r} {where}", rp)
            res.seen("nontrivial", ("rerun", via, tuple(path), label))
        # (a) what is stored names every field of the config model (also those left at their defaults); (c) both stores agree
        stored["db"] = G.get("db_doc")
        for via, doc in stored.items():
            res.count("evaluations")
            res.count("stored_configs_checked")
            if not isinstance(doc, dict):
                res.violate(f"C18|rerun|{via}|stored-config-missing", f"no config stored via {via} for {' '.join(path)} {where}", rp)
                continue
            missing, extra = sorted(fields - set(doc)), sorted(set(doc) - fields)
            if missing or extra:
                res.violate(
                    f"C18|rerun|{via}|stored-config-incomplete",
                    f"{' '.join(path)}: config stored via {via} lacks {len(missing)} of {len(fields)} fields {missing[:6]} (unknown keys: {extra[:3]}) {where}",
                    rp,
                )
        if isinstance(stored["file"], dict) and isinstance(stored["db"], dict):
            res.count("evaluations")
            res.count("meta_db_compared")
            if stored["file"] != stored["db"]:
                diff = sorted(k for k in set(stored["file"]) | set(stored["db"]) if stored["file"].get(k, "<absent>") != stored["db"].get(k, "<absent>"))
                res.violate("C18|rerun|meta-json-differs-from-db", f"{' '.join(path)}: META.json config and run_meta.config differ in {diff[:8]} {where}", rp)
    return res


_FRESH = r"""
import asyncio, json, sys
import gallia.command
from gallia.command.base import BaseCommand
from gallia.commands.script.rerun import Rerunner, RerunnerConfig
out = {}
async def entry_point(self):
    out["command"] = f"{type(self).__module__}.{type(self).__name__}"
    out["config"] = json.loads(self.config.model_dump_json())
    return 0
BaseCommand.entry_point = entry_point
try:
    try:
        asyncio.run(Rerunner(RerunnerConfig(file=sys.argv[1])).main())
    except SystemExit as e:
        if e.code not in (0, None):
            out["error"] = f"SystemExit: {e.code}"
except BaseException as e:
    out["error"] = f"{type(e).__name__}: {str(e)[:300]}"
if "config" not in out and "error" not in out:
    out["error"] = "NotStarted: command was not started"
print("\n" + json.dumps(out))
"""


def _rerun_fresh_process(meta: Path) -> dict[str, Any]:
    """gallia's own Rerunner on the META.json, in a new interpreter (same tree, same environment)"""
    import subprocess
    import sys

    p = subprocess.run([sys.executable, "-c", _FRESH, str(meta)], capture_output=True, text=True, timeout=300, check=False)  # noqa: S603
    last = p.stdout.strip().splitlines()[-1:] or [""]
    try:
        return json.loads(last[0])  # type: ignore[no-any-return]
    except ValueError:
        raise Broken(f"fresh interpreter gave no result: rc={p.returncode} {p.stderr[-400:]}") from None


async def _rerun_via_db(inst: Any, cfg: Any) -> str:
    """store the config through DBHandler.insert_run_meta (what entry_point does) and re-run it by id"""
    from datetime import UTC, datetime

    from gallia.commands.script.rerun import Rerunner, RerunnerConfig
    from gallia.db.handler import DBHandler

    db = SHM / "rerun.sqlite"
    db.unlink(missing_ok=True)
    h = DBHandler(db)
    await h.connect()
    try:
        await h.insert_run_meta(script=inst.run_meta.command, config=cfg, start_time=datetime.now(UTC).astimezone(), path=None)
        assert h.connection is not None
        cur = await h.connection.execute("SELECT config FROM run_meta WHERE id = ?", (h.meta,))
        row = await cur.fetchone()
        G["db_doc"] = json.loads(row[0]) if row is not None else None
        rr = Rerunner(RerunnerConfig(id=h.meta, db=db))
        rr.db_handler = h
        try:
            await rr.main()
        except SystemExit as e:
            return f"exit={e.code}"
        return "returned"
    finally:
        await h.disconnect()
        db.unlink(missing_ok=True)


def _avail_sources(opt: M.Opt, val: M.Val) -> list[str]:
    return [s for s in opt.declared_sources() if getattr(val, s)]


def run_multi(path: tuple[str, ...], assign: dict[str, tuple[str, M.Val]], res: Result, tag: str, sp: int = 0) -> None:
    """several options at once, each from its own single source; every one of them must be honoured"""
    opts = {o.name: o for o in G["opts"][path]}
    ctx = context(path, {n: v.expected for n, (_, v) in assign.items()})
    if ctx is None:
        res.count("multi_skipped_invalid_combination")
        return
    file_entries: dict[str, Any] = {}
    env: dict[str, str] = {}
    cli: dict[str, M.Val] = {n: v for n, v in ctx.items() if n not in assign}
    for n, (src, v) in assign.items():
        o = opts[n]
        if src == "file":
            file_entries[o.file_key or ""] = v.file[sp % len(v.file)]
        elif src == "env":
            env[o.env_name] = v.env[sp % len(v.env)]
        else:
            cli[n] = v
    rp = {"kind": tag, "path": list(path), "assign": {n: [src, v.idx] for n, (src, v) in assign.items()}, "sp": sp}
    ck = (path, repr(sorted(file_entries.items())), repr(sorted(env.items())))
    try:
        if G.get("parser_cache", (None, None))[0] == ck:
            parser = G["parser_cache"][1]
        else:
            parser = build_parser(_pruned(path), file_entries, env)
            G["parser_cache"] = (ck, parser)
            res.count("parsers_built")
    except Exception as e:  # noqa: BLE001
        res.count("evaluations")
        res.violate(f"C18|{tag}|parser-build-raises|{type(e).__name__}", f"create_parser raised {e!r} for {' '.join(path)} env={env} file={file_entries}", rp)
        return
    argv = argv_for(path, leaf_actions(parser, path), cli, None)
    if argv is None:
        res.count("multi_skipped_no_cli_form")
        return
    got = parse(parser, argv)
    res.count("evaluations")
    res.count(f"{tag}_cases")
    where = f"[{' '.join(argv)}] env={env} file={file_entries}"
    srcs = "+".join(sorted({src for src, _ in assign.values()}))
    if got["status"] != "ok":
        last = (got.get("stderr") or got.get("exc") or "").strip().splitlines()[-1:] or [""]
        blame = sorted({f"{opts[n].kind.parser}:{src}" for n, (src, _) in assign.items() if src != "cli"})
        res.violate(f"C18|{tag}|{got['status']}|{','.join(blame) or 'cli'}", f"{' '.join(path)}: valid values from {srcs} refused: {last[0]} {where}", rp)
        return
    good = True
    for n, (src, v) in assign.items():
        g = getattr(got["cfg"], n)
        if M.canon(g) != M.canon_expected(v.expected):
            good = False
            o = opts[n]
            res.violate(
                f"C18|{tag}|parser={o.kind.parser}|want={src}|not-honoured",
                f"{' '.join(path)} {n}: {src} value {v.expected!r} not honoured (got {g!r}) while other options come from {srcs} {where}",
                rp,
            )
    if good:
        res.count(f"{tag}_ok")
        res.seen("nontrivial", (tag, tuple(path), tuple(sorted((n, src, v.idx) for n, (src, v) in assign.items())), sp))
        roundtrip(path, got["cfg"], res, rp, where)


def run_pairs(path: tuple[str, ...], tier: str) -> Result:
    """thorough tier: every unordered pair of options of a command x every pair of (single) sources"""
    res = Result()
    if context(path, {}) is None:
        return res
    cands: list[tuple[M.Opt, M.Val]] = []
    for o in G["opts"][path]:
        if o.hidden or stripped(o) or o.positional:
            continue  # their env/file behaviour is decided per option; here they would only mask the partner
        for v in M.alphabet(o.kind):
            if (o.required or not M.same(v.expected, o.default)) and context(path, {o.name: v.expected}) is not None:
                cands.append((o, v))
                break
    # ordered so that consecutive cases share the (file, env) content
    for sa in ("file", "env", "cli"):
        for sb in ("file", "env", "cli"):
            for i, (a, va) in enumerate(cands):
                if sa not in _avail_sources(a, va):
                    continue
                for b, vb in cands[i + 1 :]:
                    if sb not in _avail_sources(b, vb):
                        continue
                    if sa == "cli" and sb == "cli":
                        continue
                    run_multi(path, {a.name: (sa, va), b.name: (sb, vb)}, res, "pair")
    return res


# ---------------------------------------------------------------------------
# --template


def run_template(tier: str, only: tuple[str, ...] | None = None) -> Result:
    """only=None: the registry keys are listed; only=<command>: the declared keys of that command are listed
    under their section and honoured when set in the template text"""
    import tomllib

    res = Result()
    out = io.StringIO()
    with contextlib.redirect_stdout(out):
        G["cli"].template()
    text = out.getvalue()
    rp: dict[str, Any] = {"kind": "template"}
    # listed keys: "[section]" headers followed by "name = v" or "# name = ..."
    listed: dict[str, str] = {}
    sec = ""
    lines = text.splitlines()
    for ln in lines:
        s = ln.strip()
        if s.startswith("[") and s.endswith("]"):
            sec = s[1:-1]
            continue
        body = s[1:].strip() if s.startswith("#") else s
        if "=" in body:
            nm = body.split("=", 1)[0].strip()
            if nm.isidentifier() and (not s.startswith("#") or body.endswith("...")):
                listed[f"{sec}.{nm}" if sec else nm] = s
    if only is None:
        res.count("evaluations")
        try:
            tomllib.loads(text)
        except tomllib.TOMLDecodeError as e:
            res.violate("C18|template|not-valid-toml", f"--template output is not valid TOML: {e}", rp)
        registry = dict(G["GalliaBaseModel"].registry())
        res.count("registry_keys", len(registry))
        for key in registry:
            res.count("evaluations")
            if key not in listed:
                res.violate("C18|template|registry-key-not-listed", f"registry key {key} is not listed under its section in --template", {**rp, "key": key})
        return res
    rp["path"] = list(only)
    # every declared file-configurable option of the command is listed under its real key, and honoured when set there
    for path in [only]:
        for opt in G["opts"][path]:
            if "file" not in opt.declared_sources():
                continue
            key = opt.file_key
            assert key is not None
            res.count("evaluations")
            res.count("template_keys")
            if key not in listed:
                res.violate(
                    "C18|template|declared-key-not-listed",
                    f"{' '.join(path)} {opt.name}: declared key {key} does not appear in --template",
                    {**rp, "path": list(path), "option": opt.name},
                )
                continue
            usable = [v for v in M.alphabet(opt.kind) if v.file and context(path, {opt.name: v.expected}) is not None]
            pool = [v for v in usable if opt.required or not M.same(v.expected, opt.default)] or usable
            if not pool:
                res.count("template_keys_without_usable_value")
                continue
            val = pool[0]
            # edit the template text itself: replace the line of this key inside its section
            new_lines = []
            sec = ""
            done = False
            for ln in lines:
                s = ln.strip()
                if s.startswith("[") and s.endswith("]"):
                    sec = s[1:-1]
                body = s[1:].strip() if s.startswith("#") else s
                if not done and sec == (opt.section or "") and "=" in body and body.split("=", 1)[0].strip() == opt.name and s == listed[key]:
                    new_lines.append(f"{opt.name} = {M.toml_value(val.file[0])}")
                    done = True
                else:
                    new_lines.append(ln)
            ctx = context(path, {opt.name: val.expected})
            assert ctx is not None
            ctx = {n: v for n, v in ctx.items() if n != opt.name}
            rpk = {**rp, "path": list(path), "option": opt.name}
            try:
                parser = build_parser(_pruned(path), {}, {}, raw_toml="\n".join(new_lines) + "\n")
            except Exception as e:  # noqa: BLE001
                res.violate(f"C18|template|edited-template-unusable|{type(e).__name__}", f"template with {key} set could not be loaded: {e}", rpk)
                continue
            argv = argv_for(path, leaf_actions(parser, path), ctx, None)
            if argv is None:
                res.uncovered.add(f"template: {' '.join(path)} {opt.name}: context without command line form")
                continue
            got = parse(parser, argv)
            okv = got["status"] == "ok" and M.canon(getattr(got["cfg"], opt.name)) == M.canon_expected(val.expected)
            if okv:
                res.count("template_value_honoured")
                res.seen("nontrivial", ("template", tuple(path), opt.name))
            else:
                g = classify_got(got, opt, {"file": val})
                if stripped(opt):
                    sig = "C18|annotated-field-metadata-stripped|file-ignored"
                elif opt.positional:
                    sig = f"C18|positional-option|want=file|got={g}"
                else:
                    sig = f"C18|template|value-not-honoured|parser={opt.kind.parser}|got={g}"
                res.violate(sig, f"{' '.join(path)}: {key} = {val.file[0]!r} set in the generated template is not honoured ({g}) [{' '.join(argv)}]", rpk)
    return res


# ---------------------------------------------------------------------------
# runner interface


def items(tier: str, seed: int) -> list[tuple[Any, ...]]:
    _load()
    out: list[tuple[Any, ...]] = [("template", tier, None)]
    for path in G["order"]:
        out.append(("command", path, tier))
        out.append(("template", tier, path))
    for path in G["order"]:
        for o in G["opts"][path]:
            out.append(("option", path, o.name, tier))
    if tier == "thorough":
        for path in G["order"]:
            out.append(("pairs", path, tier))
    return out


def run_item(item: tuple[Any, ...]) -> Result:
    G.pop("parser_cache", None)  # counters must not depend on which items share a worker
    if item[0] == "template":
        return run_template(item[1], tuple(item[2]) if item[2] is not None else None)
    if item[0] == "command":
        return run_command(tuple(item[1]), item[2])
    if item[0] == "pairs":
        return run_pairs(tuple(item[1]), item[2])
    return run_option(tuple(item[1]), item[2], item[3])


def replay(doc: dict[str, Any]) -> Result:
    worker_init()
    if doc["kind"] == "template":
        res = run_template("quick", tuple(doc["path"]) if doc.get("path") else None)
    elif doc["kind"] == "command":
        res = run_command(tuple(doc["path"]), "quick")
    elif doc["kind"] in ("pair", "mixed"):
        path = tuple(doc["path"])
        opts = {o.name: o for o in G["opts"][path]}
        res = Result()
        assign = {}
        for n, (src, vi) in doc["assign"].items():
            a = M.alphabet(opts[n].kind)
            assign[n] = (src, a[vi] if vi < len(a) else M.Val(opts[n].default, [[opts[n].default]], [opts[n].default], [opts[n].default], idx=vi))
        run_multi(path, assign, res, doc["kind"], sp=doc.get("sp", 0))
    else:
        path = tuple(doc["path"])
        opt = next(o for o in G["opts"][path] if o.name == doc["option"])
        alph = M.alphabet(opt.kind)
        def val_of(vi: int) -> M.Val:
            if vi <= M.SHAPE_IDX:
                k = M.SHAPE_IDX - vi
                usable = [v for v in alph if context(path, {opt.name: v.expected}) is not None]
                _, value, _ = shape_reference(path, opt, k, _pool(opt, usable))
                return M.Val(value, [], [], [M.FILE_SHAPES[k][1]], idx=vi)
            if vi == M.EMPTY_IDX:
                ev = M.empty_value(opt.kind)
                assert ev is not None
                return ev
            if vi >= len(alph):
                d = opt.default
                return M.Val(d, [[d]], [d], [d], idx=vi)
            return alph[vi]

        provided = {s: (val_of(vi), sp) for s, (vi, sp) in doc["provided"].items()}
        res = Result()
        inv = doc.get("invalid")
        if inv:
            inv = (inv[0], M.FILE_SHAPES[doc["shape"]][1] if doc.get("shape") is not None else inv[1])
        run_case(path, opt, provided, res, invalid=inv, const_form=bool(doc.get("const_form")), shape=doc.get("shape"))
    for v in res.violations:
        print("   ", v.sig, "::", v.msg)
    return res


def finish(merged: Result, tier: str) -> dict[str, Any]:
    c = merged.counters
    if c.get("commands", 0) < 30 or c.get("options", 0) < 800:
        raise Broken(f"vacuous: only {c.get('commands', 0)} commands / {c.get('options', 0)} options discovered")
    hist = merged.notes.get("winner_histogram", {})
    winners = {k.split("->")[1] for k in hist}
    if not {"cli", "env", "file", "default"} <= winners:
        raise Broken(f"vacuous: winning sources observed: {sorted(winners)}")
    combos = {k.split("->")[0] for k in hist}
    need_combos = {a + b for a in ("-", "c", "e", "f", "ce", "cf", "ef", "cef") for b in ("", "+d")}
    if not need_combos <= combos:
        raise Broken(f"vacuous: source combinations never exercised: {sorted(need_combos - combos)}")
    # guards count what was *attempted* (a tree that fails everywhere must end as VIOLATION, not as broken)
    if c.get("precedence_cases", 0) < 20000:
        raise Broken(f"vacuous: only {c.get('precedence_cases', 0)} precedence cases evaluated")
    if c.get("rerun_file", 0) < 30 or c.get("rerun_db", 0) < 30 or c.get("commands_parsed", 0) < 30:
        raise Broken("vacuous: rerun hardly exercised")
    if c.get("invalid_cases", 0) < 1500 or c.get("template_keys", 0) < 500 or c.get("registry_keys", 0) < 20:
        raise Broken("vacuous: invalid value / template clauses hardly exercised")
    if c.get("file_shape_cases", 0) < 3000 or c.get("file_shape_invalid", 0) < 1000 or c.get("file_shape_valid", 0) < 500:
        raise Broken(f"vacuous: TOML shape cases {c.get('file_shape_cases', 0)} (invalid {c.get('file_shape_invalid', 0)}, used {c.get('file_shape_valid', 0)})")
    if c.get("rerun_fresh_process", 0) < 30 or c.get("stored_configs_checked", 0) < 60 or c.get("meta_db_compared", 0) < 30:
        raise Broken("vacuous: fresh-process rerun / stored config clauses hardly exercised")
    if c.get("empty_value_cases", 0) < 1000:
        raise Broken(f"vacuous: only {c.get('empty_value_cases', 0)} present-but-empty value cases evaluated")
    if c.get("required_missing_cases", 0) < 30 or c.get("mixed_cases", 0) + c.get("mixed_attempts", 0) < 60:
        raise Broken("vacuous: required-missing / mixed-source cases hardly exercised")
    if not c.get("violating_cases") and c.get("roundtrips", 0) < 15000:
        raise Broken("vacuous: round trip hardly exercised although nothing failed")
    need_kinds = {"bool", "int", "autoint", "hexint", "float", "str?", "path?", "hexbytes", "uri", "uri?", "autoenum", "autoliteral", "literal", "ranges", "ranges2d", "int?"}
    missing = need_kinds - set(merged.notes.get("kinds", {}))
    if missing:
        raise Broken(f"vacuous: kinds never exercised: {sorted(missing)}")
    shutil.rmtree(G["root"], True)
    # structural sets behind the signature families (evidence only)
    lost = sorted(f"{' '.join(p)} {o.name}" for p in G["order"] for o in G["opts"][p] if stripped(o))
    positional = sorted(f"{' '.join(p)} {o.name}" for p in G["order"] for o in G["opts"][p] if o.positional and not stripped(o))
    return {
        "bound": {
            "tier": tier,
            "value_rotations": "all" if tier == "thorough" else 3,
            "spellings": "all for the winning source" if tier == "thorough" else "2 per case, cycled",
            "pairwise": tier == "thorough",
        },
        "options_whose_declared_field_metadata_did_not_survive": {"count": len(lost), "options": lost},
        "positional_options_with_surviving_metadata": positional,
    }
