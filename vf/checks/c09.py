"""C09 - the session scan reports exactly the sessions reachable within the depth limit.

The real ``SessionsScanner.entry_point()`` runs under the virtual-time loop against a model
ECU whose session transitions are an explicit directed graph.  ALL graphs on the default
session plus 2 (quick) / 3 (thorough) further sessions are enumerated, x depth x skip sets x
thorough x reset x refusal flavour; the oracle is a reference breadth-first search.
"""

from __future__ import annotations

import itertools
import re
from typing import Any

from vf.checks import scan_common
from vf.engine.runner import Broken, Result

ID = "C09"
LEVEL = "model_checking"
RULE = (
    "ECU models = all directed session-transition graphs on {0x01} + k further sessions (k=2 quick: all 256 graphs on ids (2,3), every 4th on (3,0x40); k=3 thorough: all 32768 graphs at depth 3, every 4th at depths 1/2/4), "
    "self-loop 1->1 fixed, x depth x skip subsets x thorough on/off x reset on/off x refusal flavour {0x12, 0x7E, 0x22} for absent edges; "
    "each configuration is one complete run of the real scanner (127 probes per visited stack) under virtual time. states = distinct "
    "(graph, config, scan result, exit code) tuples; transitions = requests handled by the model ECU"
)
ASSUMPTIONS = [
    "model ECU: DiagnosticSessionControl per graph, ECUReset 0x01 -> default session, TesterPresent, ReadDataByIdentifier F186 = active session; everything else serviceNotSupported",
    "benign schedule (replies arrive before timers); timing faults of the client are C04/C08",
    "if a reached session cannot re-enter the default session and --reset is off, the documented abort (exit code 1) is admitted instead of a result",
    "reported paths are read from the RESULT log lines ('via stack: ...')",
]

worker_init = scan_common.worker_init


class SessionModel:
    def __init__(self, nodes: tuple[int, ...], edges: frozenset[tuple[int, int]], flavour: int, tp_only_default: bool = False, latency: float = 0.0,
                 reset_refused: frozenset[int] = frozenset()) -> None:
        self.reset_refused = reset_refused  # sessions in which ECUReset is answered with conditionsNotCorrect
        self.nodes = nodes
        self.edges = edges
        self.flavour = flavour
        self.tp_only_default = tp_only_default  # TesterPresent is refused outside the default session
        self.latency = latency

    def respond(self, session: int, req: bytes) -> tuple[bytes | None, int]:
        sid = req[0]
        if sid == 0x3E and len(req) == 2:
            if self.tp_only_default and session != 1:
                return bytes([0x7F, 0x3E, 0x7F]), session  # negative responses are sent whatever the suppress bit says
            return (None if req[1] & 0x80 else bytes([0x7E, req[1] & 0x7F])), session
        if sid == 0x10 and len(req) == 2:
            t = req[1] & 0x7F
            if (session, t) in self.edges:
                return (None if req[1] & 0x80 else bytes([0x50, t, 0x00, 0x32, 0x01, 0xF4])), t
            if t not in self.nodes:
                return bytes([0x7F, 0x10, 0x12]), session
            return bytes([0x7F, 0x10, self.flavour]), session
        if sid == 0x11 and len(req) == 2:
            if session in self.reset_refused:
                return bytes([0x7F, 0x11, 0x22]), session
            return bytes([0x51, req[1] & 0x7F]), 1
        if sid == 0x22 and req[1:] == b"\xf1\x86":
            return bytes([0x62, 0xF1, 0x86, session]), session
        return bytes([0x7F, sid, 0x11]), session


def reference(edges: frozenset[tuple[int, int]], depth: int, skip: set[int]) -> set[int]:
    visited = {1}
    level = [1]
    result: set[int] = set()
    for _ in range(depth):
        nxt = []
        for s in level:
            for a, t in sorted(edges):
                if a == s and t not in skip:
                    result.add(t)
                    if t not in visited:
                        visited.add(t)
                        nxt.append(t)
        level = nxt
    return result


def parse_paths(records: list[tuple[int, str, str]]) -> list[tuple[int, list[int]]] | None:
    out: list[tuple[int, list[int]]] = []
    cur: int | None = None
    section = None
    for _lvl, name, msg in records:
        if name != "RESULT":
            continue
        if "Found the following sessions" in msg:
            section = "pos"
            continue
        if "could not be activated" in msg:
            section = "neg"
            continue
        m = re.match(r"\* Session (0x[0-9a-fA-F]+)", msg)
        if m:
            cur = int(m.group(1), 16)
            continue
        if "via stack:" in msg and section == "pos":
            if cur is None:
                return None
            names = {"defaultSession": 1, "programmingSession": 2, "extendedDiagnosticSession": 3, "safetySystemDiagnosticSession": 4}
            stack = []
            for tok in msg.split("via stack:")[1].split("(NRC")[0].split("->"):
                tok = tok.strip()
                if tok in names:
                    stack.append(names[tok])
                elif re.fullmatch(r"0x[0-9a-fA-F]+", tok):
                    stack.append(int(tok, 16))
                else:
                    return None
            out.append((cur, stack))
    return out


def refused_of(variant: str, nodes: Any) -> frozenset[int]:
    """variant 'rr<i><j>..': ECUReset is refused in the sessions nodes[i], nodes[j], .."""
    if not variant.startswith("rr"):
        return frozenset()
    return frozenset(nodes[int(ch)] for ch in variant[2:])


def run_case(item: tuple[Any, ...]) -> tuple[dict[str, Any], SessionModel]:
    nodes, edges, flavour, depth, skip, thorough, reset = item[:7]
    variant = item[8] if len(item) > 8 else ""
    model = SessionModel(tuple(nodes), frozenset(tuple(e) for e in edges), flavour,
                         tp_only_default=variant == "tp", latency=0.3 if variant == "tp" else 0.0, reset_refused=refused_of(variant, nodes))
    kw: dict[str, Any] = {"depth": depth, "skip": list(skip), "thorough": thorough}
    if reset:
        kw["reset"] = 1
    with_db = len(item) > 7 and bool(item[7])
    if variant == "db2":
        # an earlier, deeper scan of the same target into the same database
        scan_common.run_scanner("SessionsScanner", "SessionsScannerConfig", {"depth": 4, "skip": [], "thorough": False}, model, db=True)
    box = scan_common.run_scanner("SessionsScanner", "SessionsScannerConfig", kw, model, db=with_db, keep_db=variant == "db2")
    if with_db:
        import sqlite3

        con = sqlite3.connect(box["db_path"])
        try:
            box["transitions"] = con.execute(
                "select destination, steps from session_transition where run = (select max(id) from scan_run) order by rowid"
            ).fetchall()
            box["run_meta"] = con.execute("select end_time, exit_code from run_meta").fetchall()
            box["n_scan_result"] = con.execute("select count(*) from scan_result").fetchone()[0]
        finally:
            con.close()
    return box, model


def judge(item: tuple[Any, ...], box: dict[str, Any], model: SessionModel, res: Result) -> None:
    nodes, edges, flavour, depth, skip, thorough, reset = item[:7]
    edges = frozenset(tuple(e) for e in edges)
    rp = {"item": item}
    where = f"[nodes={[hex(n) for n in nodes]} edges={sorted(edges)} flavour={flavour:#x} depth={depth} skip={list(skip)} thorough={thorough} reset={reset}]"

    def v(sig: str, m: str) -> None:
        res.violate(f"C09|{sig}", m + " " + where, rp)

    if box["status"] != "done":
        v(f"no-termination|{box['status']}", f"scan did not terminate ({box['status']} after {box['iterations']} iterations, t={box['t']})")
        return
    if "exc" in box:
        v("entry-point-raised", f"entry_point raised {box['exc']}")
        return
    want = reference(edges, depth, set(skip))
    got = list(box["scanner"].result)
    trapped = [t for t in want if (t, 1) not in edges]
    code = box.get("exit")
    if code != 0:
        refused = refused_of(item[8] if len(item) > 8 else "", nodes)
        if code == 1 and trapped and (not reset or any(t in refused for t in trapped)):
            res.count("documented_aborts")
            return
        v(f"exit-code|{code}|trapped={'yes' if trapped else 'no'}|reset={'on' if reset else 'off'}", f"scan ended with exit code {code}; reference result {sorted(want)}")
        return
    if sorted(got) != sorted(want) or len(set(got)) != len(got):
        missing = sorted(set(want) - set(got))
        extra = sorted(set(got) - set(want))
        kind = "missing" if missing and not extra else "extra" if extra and not missing else "both"
        dist = "n/a"
        v(f"result-{kind}|thorough={'on' if thorough else 'off'}|reset={'on' if reset else 'off'}", f"result {[hex(x) for x in got]} != reachable within depth {[hex(x) for x in sorted(want)]} (missing {missing}, extra {extra}) {dist}")
        return
    # skipped sessions never requested
    for sess, req in box["log"]:
        if req[0] == 0x10 and len(req) == 2 and (req[1] & 0x7F) in skip:
            v("skipped-session-requested", f"DiagnosticSessionControl {req.hex()} sent although the session is in the skip list")
            return
    # reported paths are real
    paths = parse_paths(box["records"])
    if paths is None:
        res.uncovered.add("result log format not understood: paths unchecked")
    else:
        reported = {s for s, _ in paths}
        if got and reported != set(got):
            v("paths|sessions-without-path", f"sessions {sorted(set(got) - reported)} reported without a path (paths for {sorted(reported)})")
            return
        for sess, stack in paths:
            ok = bool(stack) and stack[0] == 1 and all((a, b) in edges for a, b in zip(stack, stack[1:], strict=False)) and (stack[-1], sess) in edges
            if not ok:
                v("paths|not-a-path", f"reported stack {stack} -> {sess:#x} is not a path in the ECU's transition graph")
                return
            if len(stack) > depth:
                v("paths|longer-than-depth", f"reported stack {stack} -> {sess:#x} uses more than depth={depth} session changes")
                return
    if "transitions" in box:
        # session_transition rows: one per reported session, each a real path from the default session
        import json as _json

        res.count("db_runs")
        rows = [(d, _json.loads(st)) for d, st in box["transitions"]]
        dests = [d for d, _ in rows]
        if sorted(set(dests)) != sorted(set(got)) and not any(n == "RESULT" and "could not be activated" in m for _l, n, m in box["records"]):
            v("db|session_transition-destinations", f"session_transition destinations {sorted(set(dests))} != result {sorted(got)}")
            return
        for dest, steps in rows:
            if dest in got:
                ok = bool(steps) and steps[0] == 1 and all((a, b) in edges for a, b in zip(steps, steps[1:], strict=False)) and (steps[-1], dest) in edges
                if not ok:
                    v("db|session_transition-not-a-path", f"session_transition row {steps} -> {dest:#x} is not a path in the ECU's graph")
                    return
        rm = box.get("run_meta")
        if not rm or rm[-1][0] is None or rm[-1][1] != 0:
            v("db|run-meta", f"run_meta row {rm} after a scan that returned exit code 0")
            return
        res.count("db_rows_checked", len(rows))
    if box["loop_exc"]:
        v("loop-exception-handler", f"{box['loop_exc'][:2]}")


def run_item(item: tuple[Any, ...]) -> Result:
    res = Result()
    box, model = run_case(item)
    res.count("executions")
    res.count("transitions", len(box["log"]))
    nodes, edges, flavour, depth, skip, thorough, reset = item[:7]
    res.seen("states", (nodes, tuple(sorted(edges)), flavour, depth, tuple(skip), thorough, reset, item[7:], tuple(box["scanner"].result), box.get("exit")))
    if len(item) > 8:
        res.count("variant_" + item[8])
    res.seen("results", (nodes, tuple(box["scanner"].result)))
    if box.get("exit") == 0 and len(box["scanner"].result) > 1:
        res.count("scans_finding_nondefault_sessions")
    want = reference(frozenset(tuple(e) for e in edges), depth, set(skip))
    full = reference(frozenset(tuple(e) for e in edges), 99, set(skip))
    if want != full:
        res.count("cases_where_depth_limit_cuts")
    judge(item, box, model, res)
    if len(edges) == 5 and depth == 2 and not skip and not thorough and not reset:
        res.sample({"nodes": nodes, "edges": sorted(edges), "depth": depth, "result": list(box["scanner"].result), "exit": box.get("exit"), "requests_seen_by_ecu": len(box["log"])}, cap=2)
    return res


def graphs(nodes: tuple[int, ...]) -> Any:
    pairs = [(a, b) for a in nodes for b in nodes if (a, b) != (1, 1)]
    for mask in range(1 << len(pairs)):
        yield frozenset([(1, 1)] + [p for i, p in enumerate(pairs) if mask >> i & 1])


def items(tier: str, seed: int) -> list[Any]:
    quick = tier == "quick"
    out: list[Any] = []
    if quick:
        for nodes in ((1, 2, 3), (1, 3, 0x40)):
            for gi, g in enumerate(graphs(nodes)):
                if nodes != (1, 2, 3) and gi % 4:
                    continue  # the second id placement only on every 4th graph in the quick tier
                e = tuple(sorted(g))
                for depth in (1, 2, 3) if nodes == (1, 2, 3) else (2,):
                    out.append((nodes, e, 0x12, depth, (), False, False))
                if nodes == (1, 2, 3):
                    out.append((nodes, e, 0x12, 3, (), False, True, True))  # with a scan database
                    if len(e) % 2 == 0:
                        # TesterPresent refused outside the default session, replies take 0.3 s (the keep-alive worker fires)
                        out.append((nodes, e, 0x12, 2, (), False, True, False, "tp"))
                    if len(e) % 4 == 1:
                        # a second scan into a database that already holds the transitions of a deeper scan
                        out.append((nodes, e, 0x7E, 1, (), False, True, True, "db2"))
                        out.append((nodes, e, 0x22, 2, (3,), False, True, True, "db2"))
                    out.append((nodes, e, 0x7E, 2, (), False, True))
                    # --reset with an ECU that refuses ECUReset in one / both non-default sessions
                    out.append((nodes, e, 0x12, 2, (), False, True, False, "rr1" if len(e) % 2 else "rr2"))
                    out.append((nodes, e, 0x12, 3, (), len(e) % 3 == 0, True, False, "rr12" if len(e) % 2 else "rr1"))
                    out.append((nodes, e, 0x22, 3, (), True, False))
                    out.append((nodes, e, 0x12, 3, (2,), False, False))
                    out.append((nodes, e, 0x7E, 5, (3,), True, True))
    else:
        flavours = (0x12, 0x7E, 0x22)
        for nodes in ((1, 2, 3), (1, 3, 0x40)):
            skips = ((), (nodes[1],), (nodes[2],), nodes[1:])
            for gi, g in enumerate(graphs(nodes)):
                e = tuple(sorted(g))
                if gi % 8 == 0:  # full configuration product on every 8th graph
                    for depth, fl, skip, th, rs in itertools.product((1, 2, 3, 5), flavours, skips, (False, True), (False, True)):
                        out.append((nodes, e, fl, depth, skip, th, rs))
                else:  # depth x thorough x reset in full, flavour and skip rotate with the graph
                    for k, (depth, th, rs) in enumerate(itertools.product((1, 2, 3, 5), (False, True), (False, True))):
                        out.append((nodes, e, flavours[(gi + k) % 3], depth, skips[(gi // 3 + k) % 4], th, rs))
                out.append((nodes, e, 0x12, 3, (), False, True, True))
                if nodes == (1, 2, 3):
                    # TesterPresent refused outside the default session + reply latency; a second scan into a used database
                    out.append((nodes, e, flavours[gi % 3], 2, (), False, True, False, "tp"))
                    out.append((nodes, e, flavours[gi % 3], 3, (), gi % 2 == 0, False, False, "tp"))
                    out.append((nodes, e, 0x7E, 1, (), False, True, True, "db2"))
                    out.append((nodes, e, 0x22, 2, (3,), False, True, True, "db2"))
                for rr in ("rr1", "rr2", "rr12"):
                    for depth, th in ((2, False), (3, False), (3, True)):
                        out.append((nodes, e, flavours[gi % 3], depth, (), th, True, False, rr))
        nodes4 = (1, 2, 3, 0x40)
        for gi, g in enumerate(graphs(nodes4)):
            e = tuple(sorted(g))
            out.append((nodes4, e, 0x12, 3, (), False, False))
            if gi % 4 == 0:
                for depth in (1, 2, 4):
                    out.append((nodes4, e, 0x12, depth, (), False, False))
            if gi % 16 == 5:
                out.append((nodes4, e, 0x7E, 3, (3,), False, True))
            if gi % 64 == 7:
                out.append((nodes4, e, 0x12, 4, (), False, True, True))
    return out


def replay(doc: dict[str, Any]) -> Result:
    it = doc["item"]
    item = (tuple(it[0]), tuple(tuple(e) for e in it[1]), it[2], it[3], tuple(it[4]), it[5], it[6], *it[7:])
    res = Result()
    box, model = run_case(item)
    print("    exit:", box.get("exit"), "result:", [hex(x) for x in box["scanner"].result], "status:", box["status"])
    print("    reference:", sorted(reference(frozenset(item[1]), item[3], set(item[4]))))
    dsc = [(s, r.hex()) for s, r in box["log"] if r[0] in (0x10, 0x11)]
    print("    DSC/reset requests seen by the ECU (session, request):", dsc[:60], "..." if len(dsc) > 60 else "")
    for lvl, name, msg in box["records"]:
        if name == "RESULT":
            print("    RESULT:", msg)
    judge(item, box, model, res)
    return res


def finish(merged: Result, tier: str) -> dict[str, Any]:
    c = merged.counters
    import shutil

    shutil.rmtree(f"/dev/shm/vf-scan-{__import__('os').getpid()}", ignore_errors=True)
    for k in ("scans_finding_nondefault_sessions", "cases_where_depth_limit_cuts", "documented_aborts", "db_rows_checked", "variant_tp", "variant_db2"):
        if not c.get(k):
            raise Broken(f"vacuous: {k} == 0")
    return {"exhaustive": True}
