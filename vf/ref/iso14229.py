"""Independent ISO 14229-1 message layout table (reference codec for C01, C02, C03).

This module does NOT import gallia.  It is a *table*: one ``Kind`` row per message
kind, each row two sequences of field descriptors (request parameters after the SID,
positive-response parameters after SID+0x40).  Everything else is derived generically
from the descriptors:

    encode_req / encode_rsp     values -> bytes              (reference encoder)
    decode_req / decode_rsp     bytes  -> values | Reject    (reference decoder = acceptance predicate)
    alphabet(...)               per-field boundary alphabets (in range / out of range)
    genuine_response(...)       request values -> response values through the echo relation

gallia class / attribute / method names occur only as *strings*; the checks map them to
the real classes by ``getattr`` on the imported module (introspection).  Field names are
the user-visible parameter names of gallia (constructor parameters == public attributes).

Layouts follow ISO 14229-1 (2013 numbering of sub-functions).  Where the standard makes a
parameter conditional on knowledge the wire does not carry (sessionParameterRecord,
powerDownTime, securitySeed, DTCExtDataRecord), the table is *lenient* (optional), so that
the acceptance predicate only rejects what every edition of the standard rejects.
"""

from __future__ import annotations

import itertools
from collections.abc import Iterator
from dataclasses import dataclass, field
from typing import Any


class Reject(Exception):
    """bytes do not comply with the layout (reason in args[0])."""


class OutOfRange(Exception):
    """a value cannot be encoded in its field."""


NEG_SID = 0x7F
RSP_OFFSET = 0x40

# negative response codes defined by ISO 14229-1 (Table A.1); everything else is ISOSAEReserved
ISO_NRC = frozenset(
    [0x10, 0x11, 0x12, 0x13, 0x14, 0x21, 0x22, 0x24, 0x25, 0x26, 0x31, 0x33, 0x34, 0x35, 0x36, 0x37, 0x38, 0x39, 0x3A]
    + list(range(0x50, 0x5E))
    + [0x70, 0x71, 0x72, 0x73, 0x78, 0x7E, 0x7F]
    + list(range(0x81, 0x8E))
    + list(range(0x8F, 0x95))
    + list(range(0xF0, 0xFF))
)

# ---------------------------------------------------------------------------
# alphabets


def uint_alphabet(width: int, tier: str) -> list[int]:
    top = (1 << (8 * width)) - 1
    mid = int.from_bytes(bytes([0x12, 0x34, 0x56, 0x78][:width]) if width <= 4 else b"\x5a" * width, "big")
    vals = [0, 1, mid, top - 1, top]
    if tier == "thorough":
        vals += [top >> 1, (top >> 1) + 1]
    out: list[int] = []
    for v in vals:
        if 0 <= v <= top and v not in out:
            out.append(v)
    return out


def uint_bad(width: int) -> list[int]:
    return [-1, 1 << (8 * width)]


LONG_RECORD = 4096  # one byte more than the 4095 bytes a single ISO-TP (classic CAN) message can carry


def bytes_alphabet(minlen: int, tier: str) -> list[bytes]:
    """record lengths 0, 1, 2, 300 and - beyond every 12-bit length limit - 4096 (thorough also 5000)."""
    vals = [b"", b"\x5a", b"\x00\xff", bytes(range(256)) + bytes(44)]
    if tier != "small":
        vals.append(bytes(i % 251 for i in range(LONG_RECORD)))
    if tier == "thorough":
        vals += [b"\x00", b"\xff\xff\xff", bytes((7 * i) % 256 for i in range(5000))]
    return [v for v in vals if len(v) >= minlen]


WIDTHS = {"quick": [1, 2, 4, 15], "thorough": list(range(1, 16)), "small": [1, 3]}


def width_values(w: int, tier: str) -> list[int]:
    """boundary values of an unsigned integer that is transmitted in exactly w bytes."""
    top = (1 << (8 * w)) - 1
    vals = [0, top]
    if w > 1:
        vals.append(1 << (8 * (w - 1)))  # smallest value that needs all w bytes
    else:
        vals.append(1)
    if tier == "thorough":
        vals.append(top - 1)
    return vals


def min_width(v: int) -> int:
    """documented rule for a computed format identifier: minimal byte length, at least one."""
    return max(1, (v.bit_length() + 7) // 8)


# ---------------------------------------------------------------------------
# field descriptors


class Field:
    names: tuple[str, ...] = ()

    def enc(self, vals: dict[str, Any], ctx: dict[str, Any]) -> bytes:
        raise NotImplementedError

    def dec(self, buf: bytes, pos: int, vals: dict[str, Any], ctx: dict[str, Any]) -> int:
        raise NotImplementedError


def _u(v: Any, width: int, what: str) -> bytes:
    if isinstance(v, bool) or not isinstance(v, int):
        raise OutOfRange(f"{what}: not an integer: {v!r}")
    if not 0 <= v < (1 << (8 * width)):
        raise OutOfRange(f"{what}: {v} does not fit {width} byte(s)")
    return v.to_bytes(width, "big")


def _take(buf: bytes, pos: int, n: int, what: str) -> bytes:
    if pos + n > len(buf):
        raise Reject(f"truncated:{what}")
    return buf[pos : pos + n]


@dataclass
class U(Field):
    """big-endian unsigned integer of fixed width"""

    name: str
    width: int = 1

    def __post_init__(self) -> None:
        self.names = (self.name,)

    def enc(self, vals, ctx):  # type: ignore[no-untyped-def]
        return _u(vals[self.name], self.width, self.name)

    def dec(self, buf, pos, vals, ctx):  # type: ignore[no-untyped-def]
        vals[self.name] = int.from_bytes(_take(buf, pos, self.width, self.name), "big")
        return pos + self.width

    def alphabet(self, tier: str) -> list[int]:
        return uint_alphabet(self.width, tier)

    def bad(self) -> list[int]:
        return uint_bad(self.width)


@dataclass
class E(U):
    """one byte with an enumerated value range; values outside ``valid`` are ISOSAEReserved: the table neither
    requires them to be accepted nor to be rejected (decode marks the message as 'open')."""

    valid: tuple[int, ...] = ()

    def dec(self, buf, pos, vals, ctx):  # type: ignore[no-untyped-def]
        pos = super().dec(buf, pos, vals, ctx)
        if vals[self.name] not in self.valid:
            ctx["#open"] = f"reserved:{self.name}"
        return pos

    def alphabet(self, tier: str) -> list[int]:
        return list(self.valid)

    def bad(self) -> list[int]:
        return [-1, 0x100]


@dataclass
class K(Field):
    """constant byte (e.g. inputOutputControlParameter of the convenience variants)"""

    value: int

    def enc(self, vals, ctx):  # type: ignore[no-untyped-def]
        return bytes([self.value])

    def dec(self, buf, pos, vals, ctx):  # type: ignore[no-untyped-def]
        if _take(buf, pos, 1, "const")[0] != self.value:
            raise Reject("const")
        return pos + 1


@dataclass
class SUBQ(Field):
    """request sub-function byte: bit 7 = suppressPosRspMsgIndicationBit, bits 6..0 = sub-function.

    ``name`` is the gallia parameter holding the 7-bit value (None when the value is fixed by the
    kind and not a parameter); ``fixed`` pins the value; ``parity`` 1/0 restricts to odd/even."""

    name: str | None = None
    fixed: int | None = None
    parity: int | None = None
    supp: str = "suppress_response"

    def __post_init__(self) -> None:
        self.names = ((self.name,) if self.name else ()) + (self.supp,)

    def value(self, vals: dict[str, Any]) -> int:
        v = vals[self.name] if self.name and self.name in vals else self.fixed
        if isinstance(v, bool) or not isinstance(v, int) or not 0 <= v <= 0x7F:
            raise OutOfRange(f"sub-function {v!r}")
        if self.fixed is not None and v != self.fixed:
            raise OutOfRange("sub-function differs from the kind's")
        if self.parity is not None and v % 2 != self.parity:
            raise OutOfRange("sub-function parity")
        return v

    def enc(self, vals, ctx):  # type: ignore[no-untyped-def]
        s = vals.get(self.supp, False)
        if not isinstance(s, bool):
            raise OutOfRange("suppress flag")
        return bytes([self.value(vals) | (0x80 if s else 0)])

    def dec(self, buf, pos, vals, ctx):  # type: ignore[no-untyped-def]
        b = _take(buf, pos, 1, "sub-function")[0]
        v = b & 0x7F
        if self.fixed is not None and v != self.fixed:
            raise Reject("sub-function")
        if self.parity is not None and v % 2 != self.parity:
            raise Reject("sub-function-parity")
        if self.name:
            vals[self.name] = v
        vals[self.supp] = bool(b & 0x80)
        return pos + 1

    def alphabet(self, tier: str) -> list[int]:
        if self.fixed is not None:
            return [self.fixed]
        # the boundaries 0x00 and 0x7F are part of every tier: combined with both suppress settings they give the
        # wire bytes 0x00, 0x80, 0x7F, 0xFF.  (For SecurityAccess they are ISOSAEReserved - see ``reserved`` - but
        # their layout is defined like that of any other value.)
        vals = [0, 1, 2, 0x3F, 0x40, 0x41, 0x7D, 0x7E, 0x7F] if tier == "thorough" else [0, 1, 2, 0x40, 0x41, 0x7D, 0x7E, 0x7F]
        if self.parity is not None:
            vals = [v for v in vals if v % 2 == self.parity]
        return vals

    def reserved(self) -> tuple[int, ...]:
        """values a constructor may refuse although they are encodable (ISOSAEReserved)"""
        return (0x00, 0x7F) if self.parity is not None else ()

    def bad(self) -> list[int]:
        out = [-1, 0x80, 0xFF]
        if self.parity is not None:
            out += [0x02 if self.parity else 0x01, 0x7E if self.parity else 0x7D]
        return out


@dataclass
class SUBR(Field):
    """response sub-function byte: echo of bits 6..0 of the request's sub-function, bit 7 = 0"""

    name: str | None = None
    fixed: int | None = None
    parity: int | None = None

    def __post_init__(self) -> None:
        self.names = (self.name,) if self.name else ()

    def enc(self, vals, ctx):  # type: ignore[no-untyped-def]
        v = vals[self.name] if self.name and self.name in vals else self.fixed
        if isinstance(v, bool) or not isinstance(v, int) or not 0 <= v <= 0x7F:
            raise OutOfRange(f"sub-function {v!r}")
        if self.fixed is not None and v != self.fixed:
            raise OutOfRange("sub-function differs from the kind's")
        return bytes([v])

    def dec(self, buf, pos, vals, ctx):  # type: ignore[no-untyped-def]
        b = _take(buf, pos, 1, "sub-function")[0]
        if b & 0x80:
            raise Reject("sub-function-bit7")
        if self.fixed is not None and b != self.fixed:
            raise Reject("sub-function")
        if self.parity is not None and b % 2 != self.parity:
            raise Reject("sub-function-parity")
        if self.name:
            vals[self.name] = b
        return pos + 1

    def alphabet(self, tier: str) -> list[int]:
        return SUBQ(self.name, self.fixed, self.parity).alphabet(tier)

    def bad(self) -> list[int]:
        return [-1, 0x80]


@dataclass
class NIB(Field):
    """one byte, two 4-bit parameters (dataFormatIdentifier: compression | encryption)"""

    hi: str
    lo: str

    def __post_init__(self) -> None:
        self.names = (self.hi, self.lo)

    def enc(self, vals, ctx):  # type: ignore[no-untyped-def]
        h, l = vals[self.hi], vals[self.lo]
        for v in (h, l):
            if isinstance(v, bool) or not isinstance(v, int) or not 0 <= v <= 0xF:
                raise OutOfRange(f"nibble {v!r}")
        return bytes([(h << 4) | l])

    def dec(self, buf, pos, vals, ctx):  # type: ignore[no-untyped-def]
        b = _take(buf, pos, 1, "nibbles")[0]
        vals[self.hi], vals[self.lo] = b >> 4, b & 0xF
        return pos + 1

    def alphabet(self, tier: str) -> list[int]:
        return [0, 1, 7, 0xE, 0xF] if tier != "small" else [0, 0xF]

    def bad(self) -> list[int]:
        return [-1, 0x10]


@dataclass
class ALFID(Field):
    """addressAndLengthFormatIdentifier: bits 7..4 = byte length of memorySize, bits 3..0 = byte length
    of memoryAddress, both 1..15.  The value None means 'computed' (documented: minimal lengths)."""

    name: str = "address_and_length_format_identifier"

    def __post_init__(self) -> None:
        self.names = (self.name,)

    def widths(self, v: Any) -> tuple[int, int]:
        if isinstance(v, bool) or not isinstance(v, int) or not 0 <= v <= 0xFF:
            raise OutOfRange(f"format identifier {v!r}")
        a, s = v & 0xF, v >> 4
        if a == 0 or s == 0:
            raise OutOfRange("format identifier with a zero nibble")
        return a, s

    def enc(self, vals, ctx):  # type: ignore[no-untyped-def]
        v = vals[self.name]
        ctx[self.name] = dict(zip(("addr", "size"), self.widths(v)))
        return bytes([v])

    def dec(self, buf, pos, vals, ctx):  # type: ignore[no-untyped-def]
        b = _take(buf, pos, 1, self.name)[0]
        try:
            ctx[self.name] = dict(zip(("addr", "size"), self.widths(b)))
        except OutOfRange as e:
            raise Reject("format-identifier-zero-nibble") from e
        vals[self.name] = b
        return pos + 1

    def bad(self) -> list[Any]:
        return [0x00, 0x01, 0x10, -1, 0x100]


@dataclass
class LFID(Field):
    """lengthFormatIdentifier of RequestDownload/Upload responses: bits 7..4 = byte length of
    maxNumberOfBlockLength (>= 1), bits 3..0 reserved.  None = computed (minimal length)."""

    name: str = "length_format_identifier"

    def __post_init__(self) -> None:
        self.names = (self.name,)

    def enc(self, vals, ctx):  # type: ignore[no-untyped-def]
        v = vals[self.name]
        if isinstance(v, bool) or not isinstance(v, int) or not 0 <= v <= 0xFF or v >> 4 == 0:
            raise OutOfRange(f"length format identifier {v!r}")
        ctx[self.name] = {"len": v >> 4}
        return bytes([v])

    def dec(self, buf, pos, vals, ctx):  # type: ignore[no-untyped-def]
        b = _take(buf, pos, 1, self.name)[0]
        if b >> 4 == 0:
            raise Reject("length-format-zero")
        ctx[self.name] = {"len": b >> 4}
        if b & 0x0F:
            ctx["#open"] = "reserved:low-nibble"
        vals[self.name] = b
        return pos + 1

    def bad(self) -> list[Any]:
        return [0x00, -1, 0x100]


@dataclass
class UV(Field):
    """unsigned integer whose byte length is given by a preceding format identifier"""

    name: str
    fmt: str
    part: str  # "addr" | "size" | "len"

    def __post_init__(self) -> None:
        self.names = (self.name,)

    def enc(self, vals, ctx):  # type: ignore[no-untyped-def]
        return _u(vals[self.name], ctx[self.fmt][self.part], self.name)

    def dec(self, buf, pos, vals, ctx):  # type: ignore[no-untyped-def]
        w = ctx[self.fmt][self.part]
        vals[self.name] = int.from_bytes(_take(buf, pos, w, self.name), "big")
        return pos + w


@dataclass
class B(Field):
    """byte record that extends to the end of the message"""

    name: str
    min: int = 0
    max: int | None = None

    def __post_init__(self) -> None:
        self.names = (self.name,)

    def enc(self, vals, ctx):  # type: ignore[no-untyped-def]
        v = vals[self.name]
        if not isinstance(v, bytes | bytearray):
            raise OutOfRange(f"{self.name}: not bytes")
        if len(v) < self.min or (self.max is not None and len(v) > self.max):
            raise OutOfRange(f"{self.name}: length {len(v)}")
        return bytes(v)

    def dec(self, buf, pos, vals, ctx):  # type: ignore[no-untyped-def]
        v = buf[pos:]
        if len(v) < self.min:
            raise Reject(f"truncated:{self.name}")
        if self.max is not None and len(v) > self.max:
            raise Reject(f"overlong:{self.name}")
        vals[self.name] = bytes(v)
        return len(buf)

    def alphabet(self, tier: str) -> list[bytes]:
        return [v for v in bytes_alphabet(self.min, tier) if self.max is None or len(v) <= self.max]

    def bad(self) -> list[bytes]:
        return [b""] if self.min > 0 else []


@dataclass
class OPT(Field):
    """optional trailing parameter: absent (value None) when the message ends before it"""

    inner: Any

    def __post_init__(self) -> None:
        self.names = self.inner.names

    def enc(self, vals, ctx):  # type: ignore[no-untyped-def]
        if all(vals.get(n) is None for n in self.names):
            return b""
        return self.inner.enc(vals, ctx)

    def dec(self, buf, pos, vals, ctx):  # type: ignore[no-untyped-def]
        if pos >= len(buf):
            for n in self.names:
                vals[n] = None
            return pos
        return self.inner.dec(buf, pos, vals, ctx)


@dataclass
class REP(Field):
    """group of fixed-size fields repeated until the end of the message.

    Without ``pairs`` every inner field name is a list parameter (parallel lists); with ``pairs`` the
    whole repetition is one parameter: the list of value tuples in wire order."""

    group: list[Any]
    min: int = 0
    max: int | None = None
    pairs: str | None = None

    def __post_init__(self) -> None:
        self.names = (self.pairs,) if self.pairs else tuple(n for f in self.group for n in f.names)

    def rows(self, vals: dict[str, Any]) -> list[tuple[Any, ...]]:
        if self.pairs:
            return [tuple(r) for r in vals[self.pairs]]
        cols = [vals[n] for n in self.names]
        if any(not isinstance(c, list | tuple) for c in cols) or len({len(c) for c in cols}) != 1:
            raise OutOfRange("repeated parameters differ in length")
        return list(zip(*cols))

    def enc(self, vals, ctx):  # type: ignore[no-untyped-def]
        rows = self.rows(vals)
        if len(rows) < self.min or (self.max is not None and len(rows) > self.max):
            raise OutOfRange(f"{len(rows)} repetitions")
        inner = [n for f in self.group for n in f.names]
        out = b""
        for r in rows:
            rv = dict(zip(inner, r))
            for f in self.group:
                out += f.enc(rv, ctx)
        return out

    def dec(self, buf, pos, vals, ctx):  # type: ignore[no-untyped-def]
        inner = [n for f in self.group for n in f.names]
        rows: list[tuple[Any, ...]] = []
        while pos < len(buf):
            rv: dict[str, Any] = {}
            for f in self.group:
                pos = f.dec(buf, pos, rv, ctx)
            rows.append(tuple(rv[n] for n in inner))
        if len(rows) < self.min:
            raise Reject("too-few-repetitions")
        if self.max is not None and len(rows) > self.max:
            raise Reject("too-many-repetitions")
        if self.pairs:
            vals[self.pairs] = rows
        else:
            for i, n in enumerate(inner):
                vals[n] = [r[i] for r in rows]
        return pos


@dataclass
class TUP(Field):
    """fixed group exposed as one tuple-valued parameter"""

    name: str
    group: list[Any]

    def __post_init__(self) -> None:
        self.names = (self.name,)

    def enc(self, vals, ctx):  # type: ignore[no-untyped-def]
        inner = [n for f in self.group for n in f.names]
        rv = dict(zip(inner, vals[self.name]))
        return b"".join(f.enc(rv, ctx) for f in self.group)

    def dec(self, buf, pos, vals, ctx):  # type: ignore[no-untyped-def]
        inner = [n for f in self.group for n in f.names]
        rv: dict[str, Any] = {}
        for f in self.group:
            pos = f.dec(buf, pos, rv, ctx)
        vals[self.name] = tuple(rv[n] for n in inner)
        return pos


@dataclass
class TAILMAP(Field):
    """optional trailing (record number, record bytes) exposed as list of (number, bytes) pairs.

    The wire does not delimit several records, so what follows the first record number is one record
    (this is also what gallia documents)."""

    name: str

    def __post_init__(self) -> None:
        self.names = (self.name,)

    def enc(self, vals, ctx):  # type: ignore[no-untyped-def]
        out = b""
        for k, v in vals[self.name]:
            out += _u(k, 1, "record number") + bytes(v)
        return out

    def dec(self, buf, pos, vals, ctx):  # type: ignore[no-untyped-def]
        vals[self.name] = [] if pos >= len(buf) else [(buf[pos], bytes(buf[pos + 1 :]))]
        if pos >= len(buf):
            ctx["#open"] = "conditional:no-record"  # DTCExtDataRecord is conditional; editions differ on its absence
        elif buf[pos] in (0x00, 0xFE, 0xFF):
            ctx["#open"] = "reserved:record-number"
        return len(buf)


# ---------------------------------------------------------------------------
# kinds


@dataclass
class Kind:
    name: str
    sid: int
    req: list[Any]
    rsp: list[Any]
    req_cls: str | None = None  # gallia request class (string, resolved by getattr)
    rsp_cls: str | None = None  # gallia response class
    client: str | None = None  # UDSClient service method
    sub: int | str | None = None  # sub-function the kind is selected by: int | "odd" | "even" | None
    # echo relation: (request parameter, response parameter, primary?)
    echo: list[tuple[str, str, bool]] = field(default_factory=list)
    dispatch: bool = True  # is this the kind the dynamic parsers select for its SID / sub-function?
    # parameters whose split is not determined by the wire: only their concatenation is comparable
    joined: list[tuple[str, ...]] = field(default_factory=list)
    # public attributes of the gallia object that are functions of the table values
    derived: dict[str, Any] = field(default_factory=dict)
    # predicate(request values, response values) for a request/response relation that is not an equality
    relation: Any = None
    # request values -> response values that satisfy ``relation`` (None if no genuine reply exists / too large)
    genuine_free: Any = None

    def fields(self, side: str) -> list[Any]:
        return self.req if side == "req" else self.rsp

    def first_byte(self, side: str) -> int:
        return self.sid if side == "req" else self.sid + RSP_OFFSET

    def selects(self, side: str, buf: bytes) -> bool:
        if not buf or buf[0] != self.first_byte(side):
            return False
        if self.sub is None:
            return True
        if len(buf) < 2:
            return False
        s = buf[1] & 0x7F if side == "req" else buf[1]
        if self.sub == "odd":
            return s % 2 == 1
        if self.sub == "even":
            return s % 2 == 0
        return s == self.sub


def resolve(kind: Kind, side: str, vals: dict[str, Any]) -> dict[str, Any]:
    """fill in 'computed' (None) format identifiers with the documented minimal lengths."""
    out = dict(vals)
    for f in kind.fields(side):
        if isinstance(f, ALFID) and out.get(f.name) is None:
            aw = sw = 0
            for g in _flat(kind.fields(side)):
                if isinstance(g, UV) and g.fmt == f.name:
                    vs = out[g.name]
                    for v in vs if isinstance(vs, list | tuple) else [vs]:
                        if isinstance(v, bool) or not isinstance(v, int) or v < 0:
                            raise OutOfRange(f"{g.name}: {v!r}")
                        if g.part == "addr":
                            aw = max(aw, min_width(v))
                        else:
                            sw = max(sw, min_width(v))
            if aw > 15 or sw > 15:
                raise OutOfRange("value needs more than 15 bytes")
            if aw == 0 or sw == 0:
                raise OutOfRange("no value to compute the format identifier from")
            out[f.name] = (sw << 4) | aw
        if isinstance(f, LFID) and out.get(f.name) is None:
            for g in kind.fields(side):
                if isinstance(g, UV) and g.fmt == f.name:
                    v = out[g.name]
                    if isinstance(v, bool) or not isinstance(v, int) or v < 0 or min_width(v) > 15:
                        raise OutOfRange(f"{g.name}: {v!r}")
                    out[f.name] = min_width(v) << 4
    return out


def _flat(fields: list[Any]) -> Iterator[Any]:
    for f in fields:
        yield f
        if isinstance(f, REP | TUP):
            yield from _flat(f.group)
        if isinstance(f, OPT):
            yield from _flat([f.inner])


def encode(kind: Kind, side: str, vals: dict[str, Any]) -> bytes:
    vals = resolve(kind, side, vals)
    ctx: dict[str, Any] = {}
    out = bytes([kind.first_byte(side)])
    for f in kind.fields(side):
        out += f.enc(vals, ctx)
    return out


def decode(kind: Kind, side: str, buf: bytes, info: dict[str, Any] | None = None) -> dict[str, Any]:
    """values the layout places at the byte positions of ``buf``; raises Reject if ill-formed.

    ``info`` (optional) receives 'open' (reason, if the message uses a reserved / conditional encoding the
    table takes no position on) and 'partial' (values decoded before a Reject)."""
    if not buf or buf[0] != kind.first_byte(side):
        raise Reject("service-id")
    ctx: dict[str, Any] = {}
    vals: dict[str, Any] = {}
    if info is not None:
        info["partial"] = vals
    pos = 1
    for f in kind.fields(side):
        pos = f.dec(buf, pos, vals, ctx)
    if pos != len(buf):
        raise Reject("trailing-bytes")
    if info is not None:
        info["open"] = ctx.get("#open")
    return vals


def accepts(kind: Kind, side: str, buf: bytes) -> bool:
    try:
        decode(kind, side, buf)
    except Reject:
        return False
    return True


# -- the table -----------------------------------------------------------------

_DTC_LIST = lambda **kw: REP([U("dtc", 3), U("status", 1)], pairs="dtc_and_status_record", **kw)  # noqa: E731


def _dtc_number(name: str, sub: int, cls: str, client: str | None) -> Kind:
    return Kind(
        f"ReadDTCInformation/{name}", 0x19, sub=sub,
        req=[SUBQ(fixed=sub), U("dtc_status_mask")],
        rsp=[SUBR(fixed=sub), U("dtc_status_availability_mask"), E("dtc_format_identifier", valid=(0, 1, 2, 3)), U("dtc_count", 2)],
        req_cls=cls + "Request", rsp_cls=cls + "Response", client=client, echo=[("#sub", "#sub", True)],
    )  # fmt: skip


def _dtc_by_mask(name: str, sub: int, cls: str, client: str | None) -> Kind:
    return Kind(
        f"ReadDTCInformation/{name}", 0x19, sub=sub,
        req=[SUBQ(fixed=sub), U("dtc_status_mask")],
        rsp=[SUBR(fixed=sub), U("dtc_status_availability_mask"), _DTC_LIST()],
        req_cls=cls + "Request", rsp_cls=cls + "Response", client=client, echo=[("#sub", "#sub", True)],
    )  # fmt: skip


def _dtc_plain(name: str, sub: int, req_cls: str, rsp_cls: str, maxrec: int | None) -> Kind:
    return Kind(
        f"ReadDTCInformation/{name}", 0x19, sub=sub,
        req=[SUBQ(fixed=sub)],
        rsp=[SUBR(fixed=sub), U("dtc_status_availability_mask"), _DTC_LIST(max=maxrec)],
        req_cls=req_cls, rsp_cls=rsp_cls, echo=[("#sub", "#sub", True)],
    )  # fmt: skip


def _routine(name: str, sub: int, cls: str, client: str) -> Kind:
    return Kind(
        f"RoutineControl/{name}", 0x31, sub=sub,
        req=[SUBQ("routine_control_type", fixed=sub), U("routine_identifier", 2), B("routine_control_option_record")],
        rsp=[SUBR("routine_control_type", fixed=sub), U("routine_identifier", 2), B("routine_status_record")],
        req_cls=cls + "Request", rsp_cls=cls + "Response", client=client,
        echo=[("#sub", "#sub", True), ("routine_identifier", "routine_identifier", True)],
    )  # fmt: skip


def _io_variant(name: str, iocp: int, cls: str, client: str, states_min: int | None) -> Kind:
    req: list[Any] = [U("data_identifier", 2), K(iocp)]
    if states_min is not None:
        req.append(B("control_states", min=states_min))
    req.append(B("control_enable_mask_record"))
    return Kind(
        f"InputOutputControlByIdentifier/{name}", 0x2F,
        req=req,
        rsp=[U("data_identifier", 2), K(iocp), B("control_states")],
        req_cls=cls + "Request", rsp_cls=cls + "Response", client=client, dispatch=False,
        echo=[("data_identifier", "data_identifier", True)],
        joined=[("control_states", "control_enable_mask_record")] if states_min is not None else [],
    )  # fmt: skip


def _updown(name: str, sid: int, client: str) -> Kind:
    return Kind(
        name, sid,
        req=[NIB("compression_method", "encryption_method"), ALFID(),
             UV("memory_address", "address_and_length_format_identifier", "addr"),
             UV("memory_size", "address_and_length_format_identifier", "size")],
        rsp=[LFID(), UV("max_number_of_block_length", "length_format_identifier", "len")],
        req_cls=name + "Request", rsp_cls=name + "Response", client=client,
    )  # fmt: skip


_AL = "address_and_length_format_identifier"

KINDS: list[Kind] = [
    Kind("DiagnosticSessionControl", 0x10,
         req=[SUBQ("diagnostic_session_type")],
         rsp=[SUBR("diagnostic_session_type"), B("session_parameter_record")],
         req_cls="DiagnosticSessionControlRequest", rsp_cls="DiagnosticSessionControlResponse",
         client="diagnostic_session_control", echo=[("diagnostic_session_type", "diagnostic_session_type", True)]),
    Kind("ECUReset", 0x11,
         req=[SUBQ("reset_type")],
         rsp=[SUBR("reset_type"), OPT(U("power_down_time"))],
         req_cls="ECUResetRequest", rsp_cls="ECUResetResponse",
         client="ecu_reset", echo=[("reset_type", "reset_type", True)]),
    Kind("SecurityAccess/requestSeed", 0x27, sub="odd",
         req=[SUBQ("security_access_type", parity=1), B("security_access_data_record")],
         rsp=[SUBR("security_access_type", parity=1), B("security_seed")],
         req_cls="RequestSeedRequest", rsp_cls="SecurityAccessResponse",
         client="security_access_request_seed", echo=[("security_access_type", "security_access_type", True)]),
    Kind("SecurityAccess/sendKey", 0x27, sub="even",
         req=[SUBQ("security_access_type", parity=0), B("security_key", min=1)],
         rsp=[SUBR("security_access_type", parity=0), B("security_seed")],
         req_cls="SendKeyRequest", rsp_cls="SecurityAccessResponse",
         client="security_access_send_key", echo=[("security_access_type", "security_access_type", True)]),
    Kind("CommunicationControl", 0x28,
         req=[SUBQ("control_type"), U("communication_type")],
         rsp=[SUBR("control_type")],
         req_cls="CommunicationControlRequest", rsp_cls="CommunicationControlResponse",
         client="communication_control", echo=[("control_type", "control_type", True)]),
    Kind("TesterPresent", 0x3E,
         req=[SUBQ(fixed=0)], rsp=[SUBR(fixed=0)],
         req_cls="TesterPresentRequest", rsp_cls="TesterPresentResponse",
         client="tester_present", echo=[("#sub", "#sub", True)]),
    Kind("ControlDTCSetting", 0x85,
         req=[SUBQ("dtc_setting_type"), B("dtc_setting_control_option_record")],
         rsp=[SUBR("dtc_setting_type")],
         req_cls="ControlDTCSettingRequest", rsp_cls="ControlDTCSettingResponse",
         client="control_dtc_setting", echo=[("dtc_setting_type", "dtc_setting_type", True)]),
    Kind("ReadDataByIdentifier", 0x22,
         req=[REP([U("data_identifiers", 2)], min=1)],
         # record lengths are not on the wire: first identifier + everything behind it
         rsp=[U("data_identifier", 2), B("data_record", min=1)],
         req_cls="ReadDataByIdentifierRequest", rsp_cls="ReadDataByIdentifierResponse",
         client="read_data_by_identifier", echo=[("data_identifiers[0]", "data_identifier", True)],
         derived={"data_identifiers": lambda v: [v["data_identifier"]], "data_records": lambda v: [v["data_record"]]}),
    Kind("ReadMemoryByAddress", 0x23,
         req=[ALFID(), UV("memory_address", _AL, "addr"), UV("memory_size", _AL, "size")],
         rsp=[B("data_record", min=1)],
         req_cls="ReadMemoryByAddressRequest", rsp_cls="ReadMemoryByAddressResponse",
         client="read_memory_by_address",
         relation=lambda q, r: len(r["data_record"]) == q["memory_size"],
         genuine_free=lambda q: {"data_record": bytes([0xA5]) * q["memory_size"]} if 0 < q["memory_size"] <= 4096 else None),
    Kind("DynamicallyDefineDataIdentifier/defineByIdentifier", 0x2C, sub=1,
         req=[SUBQ(fixed=1), U("dynamically_defined_data_identifier", 2),
              REP([U("source_data_identifiers", 2), U("positions_in_source_data_record"), U("memory_sizes")], min=1)],
         rsp=[SUBR(fixed=1), U("dynamically_defined_data_identifier", 2)],
         req_cls="DefineByIdentifierRequest", rsp_cls="DefineByIdentifierResponse", client="define_by_identifier",
         echo=[("#sub", "#sub", True),
               ("dynamically_defined_data_identifier", "dynamically_defined_data_identifier", False)]),
    Kind("DynamicallyDefineDataIdentifier/defineByMemoryAddress", 0x2C, sub=2,
         req=[SUBQ(fixed=2), U("dynamically_defined_data_identifier", 2), ALFID(),
              REP([UV("memory_addresses", _AL, "addr"), UV("memory_sizes", _AL, "size")], min=1)],
         rsp=[SUBR(fixed=2), U("dynamically_defined_data_identifier", 2)],
         req_cls="DefineByMemoryAddressRequest", rsp_cls="DefineByMemoryAddressResponse",
         client="define_by_memory_address",
         echo=[("#sub", "#sub", True),
               ("dynamically_defined_data_identifier", "dynamically_defined_data_identifier", False)]),
    Kind("DynamicallyDefineDataIdentifier/clear", 0x2C, sub=3,
         req=[SUBQ(fixed=3), OPT(U("dynamically_defined_data_identifier", 2))],
         rsp=[SUBR(fixed=3), OPT(U("dynamically_defined_data_identifier", 2))],
         req_cls="ClearDynamicallyDefinedDataIdentifierRequest",
         rsp_cls="ClearDynamicallyDefinedDataIdentifierResponse",
         client="clear_dynamically_defined_data_identifier",
         echo=[("#sub", "#sub", True),
               ("dynamically_defined_data_identifier", "dynamically_defined_data_identifier", False)]),
    Kind("WriteDataByIdentifier", 0x2E,
         req=[U("data_identifier", 2), B("data_record", min=1)],
         rsp=[U("data_identifier", 2)],
         req_cls="WriteDataByIdentifierRequest", rsp_cls="WriteDataByIdentifierResponse",
         client="write_data_by_identifier", echo=[("data_identifier", "data_identifier", True)]),
    Kind("WriteMemoryByAddress", 0x3D,
         req=[ALFID(), UV("memory_address", _AL, "addr"), UV("memory_size", _AL, "size"), B("data_record", min=1)],
         rsp=[ALFID(), UV("memory_address", _AL, "addr"), UV("memory_size", _AL, "size")],
         req_cls="WriteMemoryByAddressRequest", rsp_cls="WriteMemoryByAddressResponse",
         client="write_memory_by_address",
         echo=[(_AL, _AL, True), ("memory_address", "memory_address", True), ("memory_size", "memory_size", False)]),
    Kind("ClearDiagnosticInformation", 0x14,
         req=[U("group_of_dtc", 3)], rsp=[],
         req_cls="ClearDiagnosticInformationRequest", rsp_cls="ClearDiagnosticInformationResponse",
         client="clear_diagnostic_information"),
    _dtc_number("reportNumberOfDTCByStatusMask", 0x01, "ReportNumberOfDTCByStatusMask",
                "read_dtc_information_report_number_of_dtc_by_status_mask"),
    _dtc_by_mask("reportDTCByStatusMask", 0x02, "ReportDTCByStatusMask",
                 "read_dtc_information_report_dtc_by_status_mask"),
    Kind("ReadDTCInformation/reportDTCExtDataRecordByDTCNumber", 0x19, sub=0x06,
         req=[SUBQ(fixed=6), U("dtc_mask_record", 3), U("dtc_ext_data_record_number")],
         rsp=[SUBR(fixed=6), TUP("dtc_and_status_record", [U("dtc", 3), U("status")]),
              TAILMAP("dtc_ext_data_records")],
         req_cls="ReportDTCExtDataRecordByDTCNumberRequest", rsp_cls="ReportDTCExtDataRecordByDTCNumberResponse",
         client="report_dtc_extended_data_record_by_dtc_number", echo=[("#sub", "#sub", True)]),
    _dtc_plain("reportSupportedDTC", 0x0A, "ReportSupportedDTCRequest", "ReportSupportedDTCResponse", None),
    _dtc_plain("reportFirstTestFailedDTC", 0x0B, "ReportFirstTestFailedDTCRequest",
               "ReportFirstTestFailedDTCResponse", 1),
    _dtc_plain("reportFirstConfirmedDTC", 0x0C, "ReportFirstConfirmedDTCRequest",
               "ReportFirstConfirmedDTCResponse", 1),
    _dtc_plain("reportMostRecentTestFailedDTC", 0x0D, "ReportMostRecentFirstTestFailedDTCRequest",
               "ReportMostRecentTestFailedDTCResponse", 1),
    _dtc_plain("reportMostRecentConfirmedDTC", 0x0E, "ReportMostRecentConfirmedDTCRequest",
               "ReportMostrecentConfirmedDTCResponse", 1),
    _dtc_by_mask("reportMirrorMemoryDTCByStatusMask", 0x0F, "ReportMirrorMemoryDTCByStatusMask",
                 "read_dtc_information_report_mirror_memory_dtc_by_status_mask"),
    _dtc_number("reportNumberOfMirrorMemoryDTCByStatusMask", 0x11, "ReportNumberOfMirrorMemoryDTCByStatusMask",
                "read_dtc_information_report_number_of_mirror_memory_dtc_by_status_mask"),
    _dtc_number("reportNumberOfEmissionsRelatedOBDDTCByStatusMask", 0x12,
                "ReportNumberOfEmissionsRelatedOBDDTCByStatusMask",
                "read_dtc_information_report_number_of_emissions_related_obd_dtc_by_status_mask"),
    _dtc_by_mask("reportEmissionsRelatedOBDDTCByStatusMask", 0x13, "ReportEmissionsRelatedOBDDTCByStatusMask",
                 "read_dtc_information_report_emissions_related_obd_dtc_by_status_mask"),
    _dtc_plain("reportDTCWithPermanentStatus", 0x15, "ReportDTCWithPermanentStatusRequest",
               "ReportDTCWithPermanentStatusResponse", None),
    Kind("InputOutputControlByIdentifier", 0x2F,
         req=[U("data_identifier", 2), B("control_option_record", min=1), B("control_enable_mask_record")],
         rsp=[U("data_identifier", 2), B("control_status_record", min=1)],
         req_cls="InputOutputControlByIdentifierRequest", rsp_cls="InputOutputControlByIdentifierResponse",
         client="input_output_control_by_identifier", echo=[("data_identifier", "data_identifier", True)],
         joined=[("control_option_record", "control_enable_mask_record")]),
    _io_variant("returnControlToECU", 0x00, "ReturnControlToECU",
                "input_output_control_by_identifier_return_control_to_ecu", None),
    _io_variant("resetToDefault", 0x01, "ResetToDefault",
                "input_output_control_by_identifier_reset_to_default", None),
    _io_variant("freezeCurrentState", 0x02, "FreezeCurrentState",
                "input_output_control_by_identifier_freeze_current_state", None),
    _io_variant("shortTermAdjustment", 0x03, "ShortTermAdjustment",
                "input_output_control_by_identifier_short_term_adjustment", 1),
    _routine("startRoutine", 0x01, "StartRoutine", "routine_control_start_routine"),
    _routine("stopRoutine", 0x02, "StopRoutine", "routine_control_stop_routine"),
    _routine("requestRoutineResults", 0x03, "RequestRoutineResults", "routine_control_request_routine_results"),
    _updown("RequestDownload", 0x34, "request_download"),
    _updown("RequestUpload", 0x35, "request_upload"),
    Kind("TransferData", 0x36,
         req=[U("block_sequence_counter"), B("transfer_request_parameter_record")],
         rsp=[U("block_sequence_counter"), B("transfer_response_parameter_record")],
         req_cls="TransferDataRequest", rsp_cls="TransferDataResponse", client="transfer_data",
         echo=[("block_sequence_counter", "block_sequence_counter", True)]),
    Kind("RequestTransferExit", 0x37,
         req=[B("transfer_request_parameter_record")], rsp=[B("transfer_response_parameter_record")],
         req_cls="RequestTransferExitRequest", rsp_cls="RequestTransferExitResponse", client="request_transfer_exit"),
]  # fmt: skip

# negative response message: 7F <request SID> <NRC>, exactly three bytes
NEGATIVE = Kind("NegativeResponse", NEG_SID - RSP_OFFSET, req=[],
                rsp=[U("request_service_id"), U("response_code")], rsp_cls="NegativeResponse")  # fmt: skip

# services whose positive responses / requests are selected by a sub-function byte
SUBFUNCTION_DISPATCH = frozenset(k.sid for k in KINDS if k.sub is not None)
BY_NAME = {k.name: k for k in KINDS}
BY_REQ_CLS = {k.req_cls: k for k in KINDS if k.req_cls}
BY_CLIENT = {k.client: k for k in KINDS if k.client}
SIDS = sorted({k.sid for k in KINDS})


def rsp_kinds_by_cls() -> dict[str, list[Kind]]:
    out: dict[str, list[Kind]] = {}
    for k in KINDS + [NEGATIVE]:
        if k.rsp_cls:
            out.setdefault(k.rsp_cls, []).append(k)
    return out


def find(side: str, buf: bytes) -> Kind | None:
    """the kind the standard's dispatch (SID, then sub-function) selects for ``buf``"""
    if side == "rsp" and buf and buf[0] == NEG_SID:
        return NEGATIVE
    for k in KINDS:
        if k.dispatch and k.selects(side, buf):
            return k
    return None


def known_service(side: str, buf: bytes) -> bool:
    return bool(buf) and (buf[0] - (RSP_OFFSET if side == "rsp" else 0)) in SIDS


# -- echo relation ----------------------------------------------------------------


def _get(vals: dict[str, Any], side: str, kind: Kind, name: str) -> Any:
    if name == "#sub":
        f = kind.fields(side)[0]
        return f.fixed if f.name is None or f.name not in vals else vals[f.name]
    if name.endswith("[0]"):
        return vals[name[:-3]][0]
    return vals[name]


def echo_status(kind: Kind, qvals: dict[str, Any], rvals: dict[str, Any]) -> str:
    """'equal' | 'primary-differs' | 'secondary-differs' | 'relation-fails' for decoded request/response values."""
    sec = False
    for qn, rn, primary in kind.echo:
        if _get(qvals, "req", kind, qn) != _get(rvals, "rsp", kind, rn):
            if primary:
                return "primary-differs"
            sec = True
    if sec:
        return "secondary-differs"
    if kind.relation is not None and not kind.relation(qvals, rvals):
        return "relation-fails"
    return "equal"


def genuine_response(kind: Kind, qvals: dict[str, Any], free: dict[str, Any]) -> dict[str, Any]:
    """response values of the genuine positive reply: echoed parameters from the request, the rest from ``free``."""
    qvals = resolve(kind, "req", qvals)
    out = dict(free)
    for qn, rn, _ in kind.echo:
        if rn != "#sub":
            out[rn] = _get(qvals, "req", kind, qn)
        else:
            f = kind.rsp[0]
            if f.name:
                out[f.name] = _get(qvals, "req", kind, qn)
    return out


# -- alphabets -------------------------------------------------------------------


def _rep_rows(rep: REP, ctx_widths: dict[str, int] | None, tier: str, n: int, pat: int) -> list[tuple[Any, ...]]:
    rows = []
    for i in range(n):
        row = []
        for f in rep.group:
            if isinstance(f, UV):
                assert ctx_widths is not None
                top = (1 << (8 * ctx_widths[f.part])) - 1
            else:
                top = (1 << (8 * f.width)) - 1
            if pat <= 2:
                row.append([0, top, (top // 3) * (i + 1) % (top + 1) or 1][pat])
            else:
                # heterogeneous groups: the j-th field has its widest value in group (j + pat) mod n and a one-byte
                # value elsewhere, so the maxima of different fields sit in different groups
                j = len(row)
                row.append(top if (j + pat) % n == i else (i + 1) % 256)
        rows.append(tuple(row))
    return rows


def value_sets(kind: Kind, side: str, tier: str) -> Iterator[dict[str, Any]]:
    """Cartesian product of the in-range alphabets of all parameters of one side of a kind.

    tier: 'small' (2-3 values per field, for pairing/mutation bases), 'quick', 'thorough'."""
    fields = kind.fields(side)
    fmts = [f for f in fields if isinstance(f, ALFID | LFID)]
    maxrep = {"small": 2, "quick": 3, "thorough": 4}[tier]
    atier = "quick" if tier == "small" else tier

    def small(vals: list[Any]) -> list[Any]:
        if tier != "small" or len(vals) <= 2:
            return vals
        return [vals[0], vals[len(vals) // 2], vals[-1]] if len(vals) > 3 else vals

    def axis(f: Any, widths: dict[str, int] | None) -> list[dict[str, Any]]:
        if isinstance(f, K):
            return [{}]
        if isinstance(f, B):
            return [{f.name: v} for v in small(f.alphabet(tier))]
        if isinstance(f, U):
            return [{f.name: v} for v in small(f.alphabet(atier))]
        if isinstance(f, SUBQ):
            out = []
            for v in small(f.alphabet(atier)):
                for s in (False, True):
                    d: dict[str, Any] = {f.supp: s}
                    if f.name:
                        d[f.name] = v
                    out.append(d)
            return out
        if isinstance(f, SUBR):
            return [({f.name: v} if f.name else {}) for v in small(f.alphabet(atier))]
        if isinstance(f, NIB):
            return [{f.hi: h, f.lo: l} for h in f.alphabet(tier) for l in f.alphabet(tier)]
        if isinstance(f, UV):
            assert widths is not None
            return [{f.name: v} for v in small(width_values(widths[f.part], atier))]
        if isinstance(f, OPT):
            return [{n: None for n in f.names}] + axis(f.inner, widths)
        if isinstance(f, TUP):
            tops = [(1 << (8 * g.width)) - 1 for g in f.group]
            return [{f.name: tuple(0 for _ in tops)}, {f.name: tuple(tops)}, {f.name: tuple(t // 3 for t in tops)}]
        if isinstance(f, TAILMAP):
            recs = [b"", b"\x17", b"\x00\xff\x10"] + ([bytes(300)] if tier != "small" else [])
            return [{f.name: []}] + [{f.name: [(k, r)]} for k in small([1, 2, 0x7F, 0xFD]) for r in recs]
        if isinstance(f, REP):
            out = []
            lo = f.min
            hi = min(maxrep, f.max) if f.max is not None else maxrep
            for n in range(lo, hi + 1):
                pats = [0] if n == 0 else ([0, 1, 2] if n == 1 else [0, 1, 2, 3, 4])
                for p in pats:
                    rows = _rep_rows(f, widths, tier, n, p)
                    if f.pairs:
                        out.append({f.pairs: rows})
                    else:
                        out.append({nm: [r[i] for r in rows] for i, nm in enumerate(f.names)})
            if f.pairs and (f.max is None or f.max >= 2):
                out.append({f.pairs: [(0x123456, 0x01), (0x123456, 0x02)]})  # same DTC twice is representable on the wire
            return out
        raise AssertionError(f)

    if not fmts:
        axes = [axis(f, None) for f in fields]
        for combo in itertools.product(*axes):
            d: dict[str, Any] = {}
            for c in combo:
                d.update(c)
            yield d
        return
    fmt = fmts[0]
    ws = WIDTHS["small" if tier == "small" else tier]
    if isinstance(fmt, ALFID):
        combos = [((s << 4) | a, {"addr": a, "size": s}) for a in ws for s in ws]
    else:
        combos = [(w << 4, {"len": w}) for w in ws]
    for fv, widths in combos:
        axes = [axis(f, widths) for f in fields if f is not fmt]
        for combo in itertools.product(*axes):
            d = {}
            for c in combo:
                d.update(c)
            d[fmt.name] = fv
            yield d
            # the same values with a computed identifier, if they need exactly these widths
            probe = dict(d)
            probe[fmt.name] = None
            try:
                if resolve(kind, side, probe)[fmt.name] == fv:
                    yield probe
            except OutOfRange:
                pass


def bad_value_sets(kind: Kind, side: str) -> Iterator[tuple[str, str, dict[str, Any]]]:
    """(parameter, why, values): one parameter out of its range, everything else at a plain valid value."""
    base = next(iter(value_sets(kind, side, "small")))
    fmt = next((f for f in kind.fields(side) if isinstance(f, ALFID | LFID)), None)
    if fmt is not None:
        for cand in value_sets(kind, side, "small"):
            if cand.get(fmt.name) is not None:
                base = cand
                break
    for f in kind.fields(side):
        inner = f.inner if isinstance(f, OPT) else f
        if isinstance(inner, U | SUBQ | SUBR):
            if inner.names and getattr(inner, "name", None):
                for v in inner.bad():
                    d = dict(base)
                    d[inner.name] = v
                    yield inner.name, f"{v:#x}" if v >= 0 else "negative", d
        elif isinstance(inner, NIB):
            for nm in inner.names:
                for v in inner.bad():
                    d = dict(base)
                    d[nm] = v
                    yield nm, f"{v:#x}" if v >= 0 else "negative", d
        elif isinstance(inner, B):
            for v in inner.bad():
                d = dict(base)
                d[inner.name] = v
                yield inner.name, "empty", d
        elif isinstance(inner, ALFID | LFID):
            for v in inner.bad():
                d = dict(base)
                d[inner.name] = v
                why = "negative" if v < 0 else ("zero-nibble" if v <= 0xFF else "too-big")
                yield inner.name, why, d
        elif isinstance(inner, UV):
            w = (fmt.widths(base[fmt.name]) if isinstance(fmt, ALFID) else (base[fmt.name] >> 4,)) if fmt else ()
            width = {"addr": w[0], "size": w[-1], "len": w[0]}[inner.part]
            for v, why in ((1 << (8 * width), "exceeds-width"), (-1, "negative")):
                d = dict(base)
                d[inner.name] = v
                yield inner.name, why, d
            d = dict(base)
            d[inner.name] = 1 << 120
            d[fmt.name] = None
            yield inner.name, "needs-16-bytes-computed", d
            d = dict(base)
            d[inner.name] = -1
            d[fmt.name] = None
            yield inner.name, "negative-computed", d
        elif isinstance(inner, REP) and not inner.pairs:
            if inner.min > 0:
                d = dict(base)
                for nm in inner.names:
                    d[nm] = []
                yield inner.names[0], "empty-list", d
            for g in inner.group:
                if isinstance(g, U):
                    for v in g.bad():
                        d = dict(base)
                        n = max(1, len(base[g.name]))
                        for nm in inner.names:
                            d[nm] = (list(base[nm]) or [0])[:n]
                        d[g.name] = [v] + list(d[g.name])[1:]
                        yield g.name, f"{v:#x}" if v >= 0 else "negative", d
                elif isinstance(g, UV) and fmt is not None and base.get(fmt.name) is not None:
                    w = fmt.widths(base[fmt.name])
                    width = w[0] if g.part == "addr" else w[1]
                    for v, why in ((1 << (8 * width), "exceeds-width"), (-1, "negative")):
                        d = dict(base)
                        n = max(1, len(base[g.name]))
                        for nm in inner.names:
                            d[nm] = (list(base[nm]) or [0])[:n]
                        d[g.name] = [v] + list(d[g.name])[1:]
                        yield g.name, why, d
            if len(inner.names) > 1:
                d = dict(base)
                d[inner.names[0]] = list(base[inner.names[0]]) + [0]
                yield inner.names[0], "list-lengths-differ", d


# -- cross-check against worked examples of ISO 14229-1 ---------------------------------

EXAMPLES: list[tuple[str, str, str, dict[str, Any]]] = [
    ("DiagnosticSessionControl", "req", "1003", {"diagnostic_session_type": 3, "suppress_response": False}),
    ("DiagnosticSessionControl", "rsp", "5003003201f4",
     {"diagnostic_session_type": 3, "session_parameter_record": bytes.fromhex("003201f4")}),
    ("TesterPresent", "req", "3e80", {"suppress_response": True}),
    ("ReadDataByIdentifier", "req", "22f190", {"data_identifiers": [0xF190]}),
    ("ReadDataByIdentifier", "req", "22010a0110", {"data_identifiers": [0x010A, 0x0110]}),
    ("ReadDataByIdentifier", "rsp", "621234aa", {"data_identifier": 0x1234, "data_record": b"\xaa"}),
    ("ReadMemoryByAddress", "req", "2324204813920103",
     {_AL: 0x24, "memory_address": 0x20481392, "memory_size": 0x0103}),
    ("WriteMemoryByAddress", "req", "3d12204802008c",
     {_AL: 0x12, "memory_address": 0x2048, "memory_size": 2, "data_record": b"\x00\x8c"}),
    ("WriteMemoryByAddress", "rsp", "7d12204802", {_AL: 0x12, "memory_address": 0x2048, "memory_size": 2}),
    ("RequestDownload", "req", "341133602000" + "00ffff",
     {"compression_method": 1, "encryption_method": 1, _AL: 0x33, "memory_address": 0x602000, "memory_size": 0xFFFF}),
    ("RequestDownload", "rsp", "74200081", {"length_format_identifier": 0x20, "max_number_of_block_length": 0x81}),
    ("RoutineControl/startRoutine", "req", "31010201",
     {"routine_control_type": 1, "routine_identifier": 0x0201, "routine_control_option_record": b"",
      "suppress_response": False}),
    ("RoutineControl/startRoutine", "rsp", "7101020132",
     {"routine_control_type": 1, "routine_identifier": 0x0201, "routine_status_record": b"\x32"}),
    ("DynamicallyDefineDataIdentifier/defineByIdentifier", "req", "2c01f30112340102567801019abc0104",
     {"suppress_response": False, "dynamically_defined_data_identifier": 0xF301,
      "source_data_identifiers": [0x1234, 0x5678, 0x9ABC], "positions_in_source_data_record": [1, 1, 1],
      "memory_sizes": [2, 1, 4]}),
    ("DynamicallyDefineDataIdentifier/defineByIdentifier", "rsp", "6c01f301",
     {"dynamically_defined_data_identifier": 0xF301}),
    ("DynamicallyDefineDataIdentifier/defineByMemoryAddress", "req", "2c02f3021421091969" + "01" + "2109196b02",
     {"suppress_response": False, "dynamically_defined_data_identifier": 0xF302, _AL: 0x14,
      "memory_addresses": [0x21091969, 0x2109196B], "memory_sizes": [1, 2]}),
    ("DynamicallyDefineDataIdentifier/clear", "req", "2c03f303",
     {"suppress_response": False, "dynamically_defined_data_identifier": 0xF303}),
    ("ReadDTCInformation/reportNumberOfDTCByStatusMask", "rsp", "59012f010001",
     {"dtc_status_availability_mask": 0x2F, "dtc_format_identifier": 1, "dtc_count": 1}),
    ("ReadDTCInformation/reportDTCByStatusMask", "req", "190284", {"suppress_response": False, "dtc_status_mask": 0x84}),
    ("ReadDTCInformation/reportDTCByStatusMask", "rsp", "59027f0a9b17240805112f",
     {"dtc_status_availability_mask": 0x7F, "dtc_and_status_record": [(0x0A9B17, 0x24), (0x080511, 0x2F)]}),
    ("ReadDTCInformation/reportDTCExtDataRecordByDTCNumber", "req", "190612345605",
     {"suppress_response": False, "dtc_mask_record": 0x123456, "dtc_ext_data_record_number": 5}),
    ("ReadDTCInformation/reportDTCExtDataRecordByDTCNumber", "rsp", "5906123456240517",
     {"dtc_and_status_record": (0x123456, 0x24), "dtc_ext_data_records": [(5, b"\x17")]}),
    ("ReadDTCInformation/reportSupportedDTC", "req", "190a", {"suppress_response": False}),
    ("ClearDiagnosticInformation", "req", "14ffff33", {"group_of_dtc": 0xFFFF33}),
    ("SecurityAccess/requestSeed", "rsp", "67013657", {"security_access_type": 1, "security_seed": b"\x36\x57"}),
    ("SecurityAccess/sendKey", "req", "2702c9a9",
     {"security_access_type": 2, "security_key": b"\xc9\xa9", "suppress_response": False}),
    ("InputOutputControlByIdentifier/shortTermAdjustment", "req", "2f9b00033c",
     {"data_identifier": 0x9B00, "control_states": b"\x3c", "control_enable_mask_record": b""}),
    ("InputOutputControlByIdentifier/returnControlToECU", "req", "2f9b0000",
     {"data_identifier": 0x9B00, "control_enable_mask_record": b""}),
    ("TransferData", "req", "3601aabb", {"block_sequence_counter": 1, "transfer_request_parameter_record": b"\xaa\xbb"}),
    ("ControlDTCSetting", "req", "8582", {"dtc_setting_type": 2, "suppress_response": True,
                                          "dtc_setting_control_option_record": b""}),
    ("CommunicationControl", "req", "280302", {"control_type": 3, "communication_type": 2, "suppress_response": False}),
    ("ECUReset", "rsp", "51040f", {"reset_type": 4, "power_down_time": 0x0F}),
]  # fmt: skip

BAD_EXAMPLES: list[tuple[str, str, str]] = [
    ("ReadDataByIdentifier", "req", "22f1"),
    ("ReadDataByIdentifier", "rsp", "62f190"),
    ("WriteMemoryByAddress", "rsp", "7d110001ff"),
    ("DynamicallyDefineDataIdentifier/clear", "rsp", "6c03ab"),
    ("RequestDownload", "rsp", "742081"),
    ("ReadDTCInformation/reportDTCByStatusMask", "rsp", "59027f0a9b17"),
    ("ReadDTCInformation/reportFirstTestFailedDTC", "rsp", "590b7f0a9b1724080511 2f".replace(" ", "")),
    ("ECUReset", "rsp", "5181"),
    ("TesterPresent", "rsp", "7e01"),
    ("ReadMemoryByAddress", "req", "2301001000"),
]


def selftest() -> int:
    """the derived codec reproduces the worked examples; returns the number of examples checked."""
    n = 0
    for name, side, hx, vals in EXAMPLES:
        k = BY_NAME[name]
        raw = bytes.fromhex(hx)
        got = encode(k, side, vals)
        if got != raw:
            raise AssertionError(f"table self-test: {name}/{side} encodes to {got.hex()} instead of {hx}")
        dec = decode(k, side, raw)
        for a, b in vals.items():
            if a in dec and dec[a] != b:
                raise AssertionError(f"table self-test: {name}/{side} decodes {a}={dec[a]!r} instead of {b!r}")
        if k.dispatch and find(side, raw) is not k:
            raise AssertionError(f"table self-test: dispatch of {hx} does not select {name}")
        n += 1
    for name, side, hx in BAD_EXAMPLES:
        if accepts(BY_NAME[name], side, bytes.fromhex(hx)):
            raise AssertionError(f"table self-test: ill-formed {hx} accepted as {name}/{side}")
        n += 1
    if decode(NEGATIVE, "rsp", bytes.fromhex("7f2231")) != {"request_service_id": 0x22, "response_code": 0x31}:
        raise AssertionError("table self-test: negative response")
    return n + 1
