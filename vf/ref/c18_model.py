"""C18 reference: what gallia's config classes DECLARE, value alphabets, precedence.

Nothing in here looks at ``model_fields`` for gallia specific metadata: the
``Field(...)`` calls are re-read from the class source (AST) and re-evaluated in
the defining module, so the result is what the author wrote - independent of what
pydantic keeps after model construction.  (pydantic-level facts - default,
required - are taken from pydantic, which is trusted.)

Three parts
  1. declared_options(): per CONFIG_TYPE the list of options with declared
     positional/short/const/hidden/config section + a *kind* derived from the
     declared annotation,
  2. alphabet(): per kind a table of (expected python value, spellings per source),
     expected values are written down literally / derived with stdlib only (never
     with gallia's validators),
  3. resolve(): CLI > env > file > default.
"""

from __future__ import annotations

import ast
import enum
import inspect
import sys
import textwrap
import types
import typing
from dataclasses import dataclass, field
from pathlib import Path
from typing import Annotated, Any, Literal, Union, get_args, get_origin

SOURCES = ("cli", "env", "file")  # in order of precedence; "default" is the 4th


class _Undef:
    def __repr__(self) -> str:
        return "<undefined>"


UNDEF = _Undef()


# ---------------------------------------------------------------------------
# 1. declarations


@dataclass
class Kind:
    name: str  # bool int autoint hexint float str path hexbytes uri enum literal ranges ranges2d list dict unknown
    optional: bool = False
    cls: Any = None  # uri class / enum class
    auto: bool = False  # enum/literal wrapped by EnumArg/AutoLiteral
    members: tuple[Any, ...] = ()  # literal members
    elem: Kind | None = None  # list element
    arity: int = 0  # tuple element arity
    top_annotated: bool = False  # declared annotation is Annotated[...] at top level

    @property
    def parser(self) -> str:
        """which of gallia's five argparse field parsers is responsible (own classification)"""
        if self.name == "bool":
            return "boolean"
        if self.name in ("ranges", "ranges2d", "list", "dict"):
            return "container"
        if self.name == "literal":
            return "literal"
        if self.name == "enum":
            return "enum"
        return "standard"

    def label(self) -> str:
        s = self.name
        if self.name == "list" and self.elem is not None:
            s += f"[{self.elem.label()}]"
        if self.name in ("enum", "literal") and self.auto:
            s = "auto" + s
        return s + ("?" if self.optional else "")


@dataclass
class Opt:
    name: str
    owner: type
    ann: Any
    decl: Any  # re-evaluated right hand side (Field object / plain default / UNDEF)
    kind: Kind
    gallia_field: bool  # declared through gallia.command.config.Field -> env (and maybe file) configurable
    arg_field: bool
    positional: bool = False
    short: str | None = None
    const: Any = UNDEF
    hidden: bool = False
    section: str | None = None  # resolved config section ("" = top level), None = not file-configurable
    # pydantic level facts (trusted)
    required: bool = False
    default: Any = UNDEF
    # observation (never used by the oracle, only to classify signatures)
    surviving_type: str = ""

    @property
    def env_name(self) -> str:
        return f"GALLIA_{self.name.upper()}"

    @property
    def file_key(self) -> str | None:
        if self.section is None:
            return None
        return f"{self.section}.{self.name}" if self.section != "" else self.name

    @property
    def long_flag(self) -> str:
        return "--" + self.name.replace("_", "-")

    def declared_sources(self) -> tuple[str, ...]:
        if self.hidden:
            return ()
        out = ["cli"]
        if self.gallia_field:
            out.append("env")
            if self.section is not None:
                out.append("file")
        return tuple(out)


def walk_commands(tree: Any, path: tuple[str, ...] = ()) -> list[tuple[tuple[str, ...], Any]]:
    """leaf commands of a load_commands() mapping, in declaration order"""
    out: list[tuple[tuple[str, ...], Any]] = []
    for k, v in tree.items():
        if hasattr(v, "subtree"):
            out += walk_commands(v.subtree, (*path, k))
        else:
            out.append(((*path, k), v))
    return out


def _class_source(klass: type) -> ast.ClassDef | None:
    try:
        src = textwrap.dedent(inspect.getsource(klass))
    except (OSError, TypeError):
        return None
    node = ast.parse(src).body[0]
    return node if isinstance(node, ast.ClassDef) else None


def _ev(node: ast.expr, glob: dict[str, Any], loc: dict[str, Any]) -> Any:
    return eval(compile(ast.Expression(node), "<c18-declaration>", "eval"), glob, loc)  # noqa: S307


def classify(ann: Any, cfgmod: Any, uri_base: type) -> Kind:
    optional = False
    origin = get_origin(ann)
    if origin in (Union, types.UnionType):
        args = [a for a in get_args(ann) if a is not type(None)]
        if len(args) != len(get_args(ann)):
            optional = True
        if len(args) != 1:
            return Kind("unknown", optional)
        ann = args[0]
        origin = get_origin(ann)
    k = _classify_inner(ann, cfgmod, uri_base)
    k.optional = optional
    if not optional and get_origin(ann) is Annotated:
        k.top_annotated = True
    return k


def _classify_inner(ann: Any, cfgmod: Any, uri_base: type) -> Kind:
    origin = get_origin(ann)
    if origin is Annotated:
        if ann == cfgmod.AutoInt:
            return Kind("autoint")
        if ann == cfgmod.HexInt:
            return Kind("hexint")
        if ann == cfgmod.HexBytes:
            return Kind("hexbytes")
        if ann == cfgmod.Ranges:
            return Kind("ranges")
        if ann == cfgmod.Ranges2D:
            return Kind("ranges2d")
        base = get_args(ann)[0]
        inner = _classify_inner(base, cfgmod, uri_base)
        if inner.name in ("enum", "literal"):
            inner.auto = True
            return inner
        if inner.name in ("uri", "tuple"):
            return inner
        return Kind("unknown")
    if origin is Literal:
        return Kind("literal", members=tuple(get_args(ann)))
    if origin is list:
        (e,) = get_args(ann)
        return Kind("list", elem=_classify_inner(e, cfgmod, uri_base))
    if origin is tuple:
        a = get_args(ann)
        if a and all(x is int for x in a):
            return Kind("tuple", arity=len(a))
        return Kind("unknown")
    if origin is dict:
        return Kind("dict")
    if isinstance(ann, type):
        if ann is bool:
            return Kind("bool")
        if issubclass(ann, enum.Enum):
            return Kind("enum", cls=ann)
        if ann is int:
            return Kind("int")
        if ann is float:
            return Kind("float")
        if ann is str:
            return Kind("str")
        if ann is bytes:
            return Kind("bytes")
        if issubclass(ann, Path):
            return Kind("path")
        if issubclass(ann, uri_base):
            return Kind("uri", cls=ann)
    return Kind("unknown")


def declared_options(config_type: type) -> list[Opt]:
    """options of a CONFIG_TYPE as written in the source of the classes of its MRO"""
    import gallia.command.config as cfgmod
    from gallia.pydantic_argparse.utils.field import ArgFieldInfo
    from gallia.transports.base import TargetURI
    from pydantic import BaseModel
    from pydantic_core import PydanticUndefined

    found: dict[str, tuple[type, Any, Any, dict[str, Any]]] = {}
    for klass in reversed(config_type.__mro__):
        if klass in (object, BaseModel) or not (isinstance(klass, type) and issubclass(klass, BaseModel)):
            continue
        node = _class_source(klass)
        if node is None:
            continue
        glob = vars(sys.modules[klass.__module__])
        # names of enclosing classes (nested Behavior classes) resolve through the module as well
        kws = {k.arg: _ev(k.value, glob, {}) for k in node.keywords if k.arg}
        loc: dict[str, Any] = {}
        anns = vars(klass).get("__annotations__", {})
        for st in node.body:
            if not (isinstance(st, ast.AnnAssign) and isinstance(st.target, ast.Name)):
                continue
            name = st.target.id
            if name.startswith("_"):
                continue
            ann = anns.get(name, UNDEF)
            if isinstance(ann, str):
                ann = eval(ann, glob, dict(vars(klass)))  # noqa: S307
            if ann is UNDEF or get_origin(ann) is typing.ClassVar:
                continue
            val: Any = UNDEF
            if st.value is not None:
                val = _ev(st.value, glob, loc)
                loc[name] = val
            found[name] = (klass, ann, val, kws)

    out: list[Opt] = []
    mf = config_type.model_fields
    for name, info in mf.items():  # pydantic's field order == CLI order
        if name not in found:
            raise LookupError(f"{config_type.__name__}.{name}: declaration not found in source")
        klass, ann, val, kws = found[name]
        kind = classify(ann, cfgmod, TargetURI)
        is_arg = isinstance(val, ArgFieldInfo)
        is_cfg = isinstance(val, cfgmod.ConfigArgFieldInfo)
        o = Opt(name=name, owner=klass, ann=ann, decl=val, kind=kind, gallia_field=is_cfg, arg_field=is_arg)
        if is_arg:
            o.positional = bool(val.positional)
            o.short = val.short
            o.const = UNDEF if val.const is PydanticUndefined else val.const
            o.hidden = bool(val.hidden)
        if is_cfg:
            sec = val.config_section if val.config_section is not None else kws.get("config_section")
            o.section = sec
        o.required = info.is_required()
        if not o.required:
            o.default = info.get_default(call_default_factory=True)
        o.surviving_type = type(info).__name__
        out.append(o)
    return out


# ---------------------------------------------------------------------------
# 2. alphabets


@dataclass
class Val:
    """one valid value of an option: what the config must contain + how to write it in each source"""

    expected: Any
    cli: list[list[str]] = field(default_factory=list)  # token lists following the flag (or bare for positionals)
    env: list[str] = field(default_factory=list)
    file: list[Any] = field(default_factory=list)  # python values as they come out of tomllib
    flagform: bool = False  # bool: cli is expressed by --x / --no-x (no tokens)
    idx: int = -1  # position in alphabet(kind)


def canon(v: Any) -> Any:
    """comparable + printable form of a config value (type sensitive)"""
    if isinstance(v, enum.Enum):
        return ("enum", type(v).__name__, v.name)
    if hasattr(v, "raw") and hasattr(v, "url"):
        return ("uri", type(v).__name__, v.raw)
    if isinstance(v, bool):
        return ("bool", v)
    if isinstance(v, int):
        return ("int", v)
    if isinstance(v, float):
        return ("float", v)
    if isinstance(v, Path):
        return ("path", str(v))
    if isinstance(v, bytes | bytearray):
        return ("bytes", bytes(v).hex())
    if isinstance(v, str):
        return ("str", v)
    if isinstance(v, list | tuple):
        return (type(v).__name__, tuple(canon(x) for x in v))
    if isinstance(v, dict):
        return ("dict", tuple((canon(a), canon(b)) for a, b in v.items()))
    if v is None:
        return ("none",)
    return ("obj", repr(v))


def same(a: Any, b: Any, lenient_numeric: bool = False) -> bool:
    ca, cb = canon(a), canon(b)
    if ca == cb:
        return True
    if lenient_numeric and ca[0] in ("int", "float") and cb[0] in ("int", "float"):
        return bool(a == b)
    if ca[0] in ("list", "tuple") and cb[0] in ("list", "tuple") and lenient_numeric:
        return len(a) == len(b) and all(same(x, y, True) for x, y in zip(a, b, strict=True))
    return False


def equal_config_value(a: Any, b: Any) -> bool:
    """equality of two config field values as model equality sees it (python ==), URIs by their text"""
    if hasattr(a, "raw") and hasattr(b, "raw"):
        return type(a) is type(b) and a.raw == b.raw
    try:
        return bool(a == b)
    except Exception:  # noqa: BLE001
        return False


_INTS = [2, 3, 5, 16, 0x22, 0xF1, 0x1234]
_PLAIN_INTS = [1, 2, 3, 5, 7, 41, 250]
_FLOATS = [0.25, 0.75, 0.125, 1.5, 10.0]
_STRS = ["alpha", "beta gamma", "0x10", "true"]
_PATHS = ["/dev/shm/config-c18/p1.bin", "rel/dir/p2.json", "with space/p3"]
_HEX = [("00", b"\x00"), ("deadbeef", b"\xde\xad\xbe\xef"), ("0A1b", b"\x0a\x1b"), ("3e80", b"\x3e\x80")]
TARGET_URIS = [
    "tcp-lines://127.0.0.1:20162",
    "tcp-lines://[::1]:20163",
    "unix-lines:///dev/shm/config-c18.sock",
    "isotp://vcan0?src_addr=0x6f1&dst_addr=0x654&is_fd=false&is_extended=false",
    "can-raw://vcan0",
    "can-raw://vcan1?is_fd=true",
    "doip://127.0.0.1:13400?src_addr=0x0e00&target_addr=0x1d",
    "hsfz://127.0.0.1:6801?src_addr=0xf4&dst_addr=0x10&ack_timeout=100",
    "tcp://127.0.0.1:20164",
    "tcp://[::1]:20165",
]
POWER_URIS = [
    "http://127.0.0.1:8000/?id=1&channel=2",
    "http://[::1]:8001/?id=0x2&channel=1&channel=3",
    "http://power.example:80/?product_id=ABC",
]
_RANGES: list[tuple[list[int], list[list[str]], list[str], list[Any]]] = [
    ([1, 2, 3], [["1-3"], ["1,2,3"], ["1", "2", "3"], ["0x1-0x3"]], ["1-3", "1,2,3", "1 2 3", "0b1,0o2-0x3"], [[1, 2, 3], "1-3", ["1", "2-3"]]),
    ([5], [["5"], ["0x5"]], ["5", "0o5"], [[5], "5", ["0x5"]]),
    ([16, 17, 32], [["0x10-0x11,32"], ["16", "17", "0x20"]], ["16,17,32", "0x10-0x11 0x20"], [[16, 17, 32], "16-17,32"]),
    ([7, 9], [["7,9"], ["9", "7"]], ["9,7", "7 9"], [[7, 9], ["7", "9"]]),
]
_RANGES2D: list[tuple[dict[int, Any], list[list[str]], list[str], list[Any]]] = [
    ({1: [2, 3], 4: None}, [["1:2,3", "4"], ["1:2-3", "0x4"]], ["1:2,3 4", "0x1:0x2-0x3 4"], ["1:2,3 4", ["1:2-3", "4"]]),
    ({16: [1]}, [["0x10:1"], ["16:1"]], ["0x10:1", "16:0b1"], ["16:1", ["0x10:1"]]),
    ({2: None, 3: None}, [["2-3"], ["2", "3"]], ["2-3", "2 3"], ["2,3", ["2", "3"]]),
]


def _int_spellings(v: int, bases: str) -> list[str]:
    out = []
    for b in bases:
        out.append({"d": str(v), "x": hex(v), "X": "0X" + format(v, "X"), "o": oct(v), "b": bin(v), "h": format(v, "x"), "H": format(v, "02X")}[b])
    return out


def _enum_vals(cls: Any, members: list[Any], auto: bool) -> list[Val]:
    out = []
    for m in members:
        sp: list[str] = []
        fl: list[Any] = []
        if auto:
            sp.append(m.name)
            fl.append(m.name)
        if isinstance(m.value, int):
            sp.append(str(m.value))
            fl.append(m.value)
            if auto:
                sp.append(hex(m.value))
                fl.append(hex(m.value))
        else:
            sp.append(str(m.value))
            fl.append(m.value)
        out.append(Val(m, [[s] for s in sp], list(sp), fl))
    return out


def alphabet(kind: Kind) -> list[Val]:
    """valid values of a kind, simplest first.  Values that a particular option does not
    accept (field constraints, cross-field validators) are filtered by the caller."""
    out = _alphabet(kind)
    for i, v in enumerate(out):
        v.idx = i
    return out


def _alphabet(kind: Kind) -> list[Val]:
    n = kind.name
    if n == "bool":
        return [
            Val(True, [[]], ["true", "1", "yes", "on"], [True, "true"], flagform=True),
            Val(False, [[]], ["false", "0", "no", "off"], [False, "false"], flagform=True),
        ]
    if n == "int":
        return [Val(v, [[str(v)]], [str(v)], [v, str(v)]) for v in _PLAIN_INTS]
    if n == "autoint":
        out = []
        for v in _INTS:
            sp = _int_spellings(v, "dxob")
            out.append(Val(v, [[s] for s in sp], sp, [v, *sp[1:]]))
        return out
    if n == "hexint":
        out = []
        for v in _INTS:
            sp = _int_spellings(v, "hxH")
            out.append(Val(v, [[s] for s in sp], sp, [v, *sp]))
        return out
    if n == "float":
        out = []
        for v in _FLOATS:
            sp = [repr(v), format(v, "e")]
            out.append(Val(v, [[s] for s in sp], sp, [v, repr(v)]))
        return out
    if n == "str":
        return [Val(s, [[s]], [s], [s]) for s in _STRS]
    if n == "path":
        return [Val(Path(s), [[s]], [s], [s]) for s in _PATHS]
    if n == "hexbytes":
        return [Val(b, [[s]], [s], [s]) for s, b in _HEX]
    if n == "uri":
        from gallia.transports.base import TargetURI

        pool = TARGET_URIS if kind.cls is TargetURI else POWER_URIS
        return [Val(_URI(kind.cls, s), [[s]], [s], [s]) for s in pool]
    if n == "enum":
        return _enum_vals(kind.cls, list(kind.cls)[:6], kind.auto)
    if n == "literal":
        out = []
        for m in kind.members:
            if isinstance(m, enum.Enum):
                out += _enum_vals(type(m), [m], kind.auto)
            elif isinstance(m, str):
                out.append(Val(m, [[m]], [m], [m]))
            elif isinstance(m, int):
                sp = _int_spellings(m, "dx") if kind.auto else [str(m)]
                out.append(Val(m, [[s] for s in sp], sp, [m]))
        return out
    if n == "ranges":
        return [Val(e, c, v, f) for e, c, v, f in _RANGES]
    if n == "ranges2d":
        return [Val(e, c, v, f) for e, c, v, f in _RANGES2D]
    if n == "list" and kind.elem is not None:
        e = kind.elem
        if e.name == "int":
            groups = [[1, 2], [443], [80, 8080, 3]]
            return [Val(g, [[str(x) for x in g]], [], [g]) for g in groups]
        if e.name == "autoint":
            groups = [[1, 2], [0x10], [3, 0x22, 5]]
            return [Val(g, [[str(x) for x in g], [hex(x) for x in g]], [], [g, [hex(x) for x in g]]) for g in groups]
        if e.name == "enum":
            ms = list(e.cls)
            groups = [ms[0:2], ms[2:3], ms[1:4]]
            out = []
            for g in groups:
                cl = [[str(m.value) for m in g]]
                if e.auto:
                    cl.insert(0, [m.name for m in g])
                out.append(Val(g, cl, [], [[m.value for m in g]]))
            return out
        if e.name == "tuple":
            base = [tuple(range(1 + i, 1 + i + e.arity)) for i in (0, 0x10, 0x1200)]
            groups = [[base[0]], [base[1], base[0]], [base[2]]]
            return [
                Val(g, [[":".join(str(x) for x in t) for t in g], [":".join(hex(x) for x in t) for t in g]], [], [[":".join(str(x) for x in t) for t in g]])
                for g in groups
            ]
    return []


class _URI:
    """expected URI value: a <cls> whose .raw is the spelling (TargetURI has no __eq__)"""

    def __init__(self, cls: type, raw: str) -> None:
        self.cls = cls
        self.raw = raw
        self.url = None  # duck-typing marker for canon()

    def build(self) -> Any:
        return self.cls(self.raw)

    def __repr__(self) -> str:
        return f"{self.cls.__name__}({self.raw!r})"


def canon_expected(v: Any) -> Any:
    if isinstance(v, _URI):
        return ("uri", v.cls.__name__, v.raw)
    if isinstance(v, list):
        return ("list", tuple(canon_expected(x) for x in v))
    return canon(v)


def materialise(v: Any) -> Any:
    """expected value -> object usable for direct model instantiation"""
    if isinstance(v, _URI):
        return v.build()
    return v


EMPTY_IDX = -2


class SubSection(dict):  # type: ignore[type-arg]
    """a TOML table written as its own [section.key] block instead of an inline table"""


# values of every TOML shape; offered at the key of every file-configurable option.  What a shape means for a given
# option (invalid, or coerced to which value) is decided by direct model instantiation; the oracle is only
# "a value that is present in the file is either used or reported - never dropped in favour of the default".
FILE_SHAPES: list[tuple[str, Any]] = [
    ("inline-table", {"seconds": 7}),
    ("sub-section", SubSection({"seconds": 7})),
    ("array", [7, 9]),
    ("nested-array", [[7], [9]]),
    ("bool", True),
    ("float", 7.5),
    ("integral-float", 7.0),
    ("int", 7),
    ("string", "zz"),
]
SHAPE_IDX = -100  # Val.idx of shape k is SHAPE_IDX - k


def empty_value(kind: Kind) -> Val | None:
    """the present-but-empty value: an empty string in a source is a value, not absence.  Only for kinds whose type
    can take "" at all; whether a particular option accepts it is decided by the caller (direct instantiation with
    the raw "" as well as with the expected value).  Expected values are written down here, not computed by gallia."""
    n = kind.name
    if n == "str":
        return Val("", [[""]], [""], [""], idx=EMPTY_IDX)
    if n == "path":
        return Val(Path(""), [[""]], [""], [""], idx=EMPTY_IDX)
    if n == "hexbytes":
        return Val(b"", [[""]], [""], [""], idx=EMPTY_IDX)
    if n == "uri":
        return Val(_URI(kind.cls, ""), [[""]], [""], [""], idx=EMPTY_IDX)
    if n == "ranges":
        return Val([], [[""], []], [""], ["", []], idx=EMPTY_IDX)
    if n == "ranges2d":
        return Val({}, [[""]], [""], [""], idx=EMPTY_IDX)
    return None


def invalid_values(kind: Kind) -> dict[str, list[Any]]:
    """invalid spellings per source (absent key: every spelling of that source is valid / no spelling exists).
    file: a malformed string and a value of the wrong TOML type"""
    n = kind.name
    if n == "bool":
        return {"env": ["maybe"], "file": ["maybe", [1]]}
    if n in ("int", "autoint", "hexint"):
        return {"cli": [["zz"]], "env": ["zz"], "file": ["zz", 1.5]}
    if n == "float":
        return {"cli": [["zz"]], "env": ["zz"], "file": ["zz", [1]]}
    if n in ("str", "path"):
        return {"file": [[1, 2]]}
    if n == "hexbytes":
        return {"cli": [["xyz"]], "env": ["xyz"], "file": ["xyz", 5]}
    if n == "uri":
        return {"file": [5]}
    if n in ("enum", "literal"):
        return {"cli": [["__nope__"]], "env": ["__nope__"], "file": ["__nope__", 1.5]}
    if n == "ranges":
        return {"cli": [["a-b"]], "env": ["a-b"], "file": ["a-b", 1.5]}
    if n == "ranges2d":
        return {"cli": [["x:y"]], "env": ["x:y"], "file": ["x:y", 1.5]}
    if n == "list":
        return {"cli": [["zz"]], "env": ["zz"], "file": [["zz"]]}
    return {}


# ---------------------------------------------------------------------------
# 3. precedence


def resolve(provided: dict[str, Any], default: Any) -> tuple[str, Any]:
    """the property: command line, otherwise environment, otherwise file, otherwise default"""
    for src in SOURCES:
        if src in provided:
            return src, provided[src]
    return "default", default


# ---------------------------------------------------------------------------
# TOML writer (only what the alphabets need)


def toml_value(v: Any) -> str:
    import json

    if isinstance(v, bool):
        return "true" if v else "false"
    if isinstance(v, int):
        return str(v)
    if isinstance(v, float):
        return repr(v)
    if isinstance(v, str):
        return json.dumps(v)
    if isinstance(v, list | tuple):
        return "[" + ", ".join(toml_value(x) for x in v) + "]"
    if isinstance(v, dict):
        return "{ " + ", ".join(f"{k} = {toml_value(x)}" for k, x in v.items()) + " }"
    raise TypeError(f"no TOML spelling for {v!r}")


def toml_doc(entries: dict[str, Any]) -> str:
    """{dotted key: value} -> TOML text with one [section] per key prefix"""
    by_sec: dict[str, list[tuple[str, Any]]] = {}
    for key, v in entries.items():
        sec, _, name = key.rpartition(".")
        by_sec.setdefault(sec, []).append((name, v))
    out = []
    tables = []
    for sec in sorted(by_sec):
        if sec:
            out.append(f"[{sec}]")
        for name, v in by_sec[sec]:
            if isinstance(v, SubSection):
                tables.append((f"{sec}.{name}" if sec else name, v))
                continue
            out.append(f"{name} = {toml_value(v)}")
        out.append("")
    for key, v in tables:
        out.append(f"[{key}]")
        out += [f"{k} = {toml_value(x)}" for k, x in v.items()]
        out.append("")
    return "\n".join(out)
