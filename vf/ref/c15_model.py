"""C15 reference: the case space of the command lifecycle and what the property demands of each case.

Pure data / pure functions, no gallia import.  Written from the property statement
(/verif/properties.jsonl C15), docs/config.md (hook environment) and the comments in
exitcodes.py; it does not look at how entry_point() is implemented.

One *case* = (command kind, exit kind, lifecycle point, artifacts on/off, database on/off,
lock file on/off, hook variant).
"""

from __future__ import annotations

from dataclasses import dataclass, field

# documented exit-code mapping -------------------------------------------------------------
OK = 0
SOFTWARE = 70  # unexpected exception, sys.exit(<non-int>)
IOERR = 74  # expected (CATCHED_EXCEPTIONS) connection / UDS error of a scanner
SIGINT = 130  # 128 + SIGINT

CMDS = ("plain", "scanner", "uds")

# lifecycle points inside run(): "early" = before super().setup()/teardown(), "late" = after it.
# For the plain AsyncScript the base setup()/teardown() are empty, early == late, only one is enumerated.
RUN_POINTS = {
    "plain": ("setup-early", "main", "teardown-early"),
    "scanner": ("setup-early", "setup-late", "main", "teardown-early", "teardown-late"),
    "uds": ("setup-early", "setup-late", "main", "teardown-early", "teardown-late"),
}
# exit kinds that user code can produce inside setup/main/teardown
RUN_KINDS = ("exit0", "exit1", "exit3", "exit-text", "conn", "uds", "unexpected", "sigint")
# crash points outside run(): what can happen there
OUTSIDE = (
    ("lockfault", "lock"),  # the lock file cannot be taken (real fault: its directory does not exist -> OSError)
    ("sigint", "pre-hook"),  # Ctrl-C while the pre-hook runs (the hook process signals gallia)
    # database set-up, one point per await that can be hit (the cancellation is delivered AT that await of gallia's code)
    ("sigint", "db-open:connect"),  # ... while aiosqlite.connect() is awaited
    ("sigint", "db-open:schema"),  # ... inside DBHandler.connect() after the connection exists (schema version query)
    ("sigint", "db-open:insert"),  # ... while the run row is inserted
    ("dbfault", "db-open:connect"),  # database cannot be opened (real fault: parent of the db path is a file)
    # database completion (BaseCommand._db_finish_run_meta), again one point per await
    ("sigint", "db-close:complete-execute"),  # ... at the UPDATE of complete_run_meta()
    ("sigint", "db-close:complete-commit"),  # ... at the commit of complete_run_meta()
    ("sigint", "db-close:disconnect-executor"),  # ... in disconnect() while the executor task is joined / cancelled
    ("sigint", "db-close:disconnect-commit"),  # ... at the final commit of disconnect()
    ("sigint", "db-close:disconnect-close"),  # ... while the connection is closed
    ("dbfault", "db-close:complete-execute"),  # completing the run row fails (sqlite OperationalError)
    ("dbfault", "db-close:disconnect-commit"),  # the final commit fails
    ("dbfault", "db-close:disconnect-close"),  # closing the connection reports an error
    ("sigint", "post-hook"),  # Ctrl-C while the post-hook runs
)
HOOK_VARIANTS = ("off", "ok", "pre-fail", "post-fail", "both-fail")

PHASE = {
    "none": "run",
    "lock": "before-run",
    "pre-hook": "before-run",
    "db-open:connect": "before-run",
    "db-open:schema": "before-run",
    "db-open:insert": "before-run",
    "setup-early": "run",
    "setup-late": "run",
    "main": "run",
    "teardown-early": "run",
    "teardown-late": "run",
    "db-close:complete-execute": "after-run",
    "db-close:complete-commit": "after-run",
    "db-close:disconnect-executor": "after-run",
    "db-close:disconnect-commit": "after-run",
    "db-close:disconnect-close": "after-run",
    "post-hook": "after-run",
}


def scenarios(cmd: str) -> list[tuple[str, str]]:
    """(exit kind, point) pairs of one command kind, simplest first."""
    out = [("normal", "none")]
    for p in RUN_POINTS[cmd]:
        for k in RUN_KINDS:
            out.append((k, p))
    out += list(OUTSIDE)
    return out


def nested_scenarios(cmd: str) -> list[tuple[str, str]]:
    """(exit kind, point) of the INNER command when an outer command awaits its entry_point() (like `script rerun`)."""
    return [("normal", "none")] + [(k, p) for p in RUN_POINTS[cmd] for k in RUN_KINDS]


def reachable(kind: str, point: str, db: bool, hv: str, lock: bool = True) -> bool:
    if point == "lock" and not lock:
        return False
    if point in ("pre-hook", "post-hook") and hv == "off":
        return False
    if point.startswith("db-") and not db:
        return False
    return True


@dataclass
class Expect:
    codes: list[int]  # admissible exit codes; process, META and DB must all agree on ONE of them
    # endings the statement's mapping does not list (lock / database cannot be opened): any non-zero status is
    # admissible, but everything that exists afterwards must be consistent with it: a run directory that was created
    # has a META.json carrying the process status, its log is closed and detached, a run row that exists is complete
    unlisted: bool = False
    run_started: bool = True  # False: gallia gives up before the run proper (no hooks, no lock file demanded)
    db_row: str = "complete"  # complete | optional (run may end before the row exists) | any (db itself is faulty)
    notes: list[str] = field(default_factory=list)


def base_code(cmd: str, kind: str) -> int:
    if kind in ("normal", "exit0"):
        return OK
    if kind == "exit1":
        return 1
    if kind == "exit3":
        return 3
    if kind == "exit-text":
        return SOFTWARE
    if kind in ("conn", "uds"):
        # "expected" only for commands that declare them (Scanner and below); for a plain
        # script they are ordinary unexpected exceptions
        return IOERR if cmd in ("scanner", "uds") else SOFTWARE
    if kind == "unexpected":
        return SOFTWARE
    if kind == "sigint":
        return SIGINT
    raise KeyError(kind)


def expect(cmd: str, kind: str, point: str) -> Expect:
    if kind == "lockfault":
        return Expect(codes=[], unlisted=True, db_row="optional", run_started=False)
    if kind == "dbfault" and point.startswith("db-open"):
        return Expect(codes=[], unlisted=True, db_row="any")
    if kind == "dbfault" and point == "db-close:complete-execute":
        # the run itself ended normally; a database that refuses the final update cannot carry the record
        return Expect(codes=[OK], db_row="any")
    if kind == "dbfault" and point.startswith("db-close"):
        # the run row was completed before the connection reported the error: everything must be in place
        return Expect(codes=[OK])
    if kind == "sigint":
        if PHASE[point] == "after-run":
            # the run's own outcome (0) was already fixed when the signal arrived: either reading is
            # admissible as long as every record and the process agree on it
            return Expect(codes=[SIGINT, OK], db_row="complete")
        if PHASE[point] == "before-run":
            return Expect(codes=[SIGINT], db_row="optional")
        return Expect(codes=[SIGINT])
    return Expect(codes=[base_code(cmd, kind)])


# documented hook environment (docs/config.md) ----------------------------------------------
HOOK_ENV_ALWAYS = ("GALLIA_HOOK", "GALLIA_ARTIFACTS_DIR", "GALLIA_INVOCATION")
HOOK_ENV_POST = ("GALLIA_EXIT_CODE", "GALLIA_META")


def python_process_code(fate: str, value: object) -> int:
    """What `sys.exit(asyncio.run(cmd.entry_point()))` makes of the outcome of asyncio.run (CPython rules)."""
    if fate == "return":
        if value is None:
            return 0
        if isinstance(value, bool):
            return int(value)
        if isinstance(value, int):
            return value & 0xFF
        return 1
    if fate == "raise:SystemExit":
        if value is None:
            return 0
        if isinstance(value, int):
            return value & 0xFF
        return 1
    if fate == "raise:KeyboardInterrupt":
        return SIGINT  # CPython re-raises SIGINT with the default action; shells report 130
    return 1  # uncaught exception: traceback, status 1
