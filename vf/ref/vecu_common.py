"""Shared harness for C13 / C14 / C16: building virtual ECUs from the real gallia classes, a virtual
wall clock, controlled entropy for SecurityAccess seeds, a coroutine runner, model grids, request
alphabets and symbolic histories.

Seams (monkey patches inside the harness process, no source hooks):
  gallia.services.uds.server.time  -> CLOCK (virtual wall clock owned by the harness)
  gallia.services.uds.server.RNG   -> subclass whose *unseeded* construction (RNG(), used only for
                                      SecurityAccess seeds) draws from a harness chosen entropy value;
                                      seeded construction is untouched.
"""

from __future__ import annotations

import copy
from typing import Any

from vf.ref import c13_model as ref

G: dict[str, Any] = {}

T0 = 1_000_000.0
TARGET = "tcp://127.0.0.1:20162"


class Clock:
    """virtual wall clock; `step` is added on every reading (0 = only the harness moves time)."""

    def __init__(self) -> None:
        self.now = T0
        self.calls = 0
        self.step = 0.0
        self.n = 0  # readings since the harness last reset it
        self.jump_every = 0  # after every jump_every-th reading ...
        self.jump = 0.0  # ... this much extra time passes (idle gap between two requests if jump_every is even)

    def __call__(self) -> float:
        self.calls += 1
        self.n += 1
        t = self.now
        self.now += self.step
        if self.jump_every and self.n % self.jump_every == 0:
            self.now += self.jump
        return t

    def schedule(self, step: float = 0.0, jump_every: int = 0, jump: float = 0.0) -> None:
        self.step, self.jump_every, self.jump, self.n = step, jump_every, jump, 0


CLOCK = Clock()
ENTROPY = [0]  # current entropy choice for unseeded RNG()
# draws of the per-reply generators while a request is handled: the harness can log them and force
# one of them to an end of its range (environment answer; every value of the range is drawn by some model)
DRAWS: dict[str, Any] = {"active": False, "log": [], "force": None, "depth": 0}


def _draw(kind: str, lo: Any, hi: Any, natural: Any) -> Any:
    i = len(DRAWS["log"])
    DRAWS["log"].append(kind)
    f = DRAWS["force"]
    if f is not None and f[0] == i:
        return lo if f[1] == "lo" else hi
    return natural


def load() -> dict[str, Any]:
    """Import gallia (idempotent), install the two seams, silence logging."""
    if G:
        return G
    import logging

    import gallia.command  # noqa: F401  (import order)
    from gallia.services.uds import helpers
    from gallia.services.uds import server as S
    from gallia.services.uds.core import service
    from gallia.services.uds.core.constants import UDSIsoServices
    from gallia.transports import TargetURI

    from vf.engine.runner import Broken

    logging.disable(logging.CRITICAL)
    from vf.engine import seams

    # whatever the import style in server.py (`from time import time` or `import time`), the name is rebound
    if seams.bind_clock(S, CLOCK) == 0:
        raise Broken("seam gone: gallia.services.uds.server does not bind the wall clock under any known name")
    if not (isinstance(getattr(S, "RNG", None), type)):
        raise Broken("seam gone: gallia.services.uds.server.RNG")
    orig_rng = S.RNG

    class HarnessRNG(orig_rng):  # type: ignore[misc, valid-type]
        def set_seeds(self, *args: Any) -> None:
            if len(args) == 0:
                self.seeds = []
                self.seed(f"vf-entropy|{ENTROPY[0]}")
            else:
                super().set_seeds(*args)

        def _top(self, kind: str, lo: Any, hi: Any, fn: Any) -> Any:
            if not DRAWS["active"] or DRAWS["depth"]:
                return fn()
            DRAWS["depth"] += 1
            try:
                natural = fn()  # always advances the generator: later draws stay those of the natural run
            finally:
                DRAWS["depth"] -= 1
            return _draw(kind, lo, hi, natural)

        def random(self) -> float:
            return self._top("random", 0.0, 1.0 - 2**-53, lambda: orig_rng.random(self))  # type: ignore[no-any-return]

        def randint(self, a: int, b: int) -> int:
            return self._top("randint", a, b, lambda: orig_rng.randint(self, a, b))  # type: ignore[no-any-return]

        def expovariate(self, lambd: float = 1.0) -> float:
            # upper end: 8 x the mean (probability e^-8 per draw: rare but drawn by real models)
            return self._top("expovariate", 0.0, 8.0 / lambd, lambda: orig_rng.expovariate(self, lambd))  # type: ignore[no-any-return]

    HarnessRNG.__name__ = orig_rng.__name__
    S.RNG = HarnessRNG  # type: ignore[misc]
    G.update(
        S=S,
        service=service,
        helpers=helpers,
        UDSIsoServices=UDSIsoServices,
        TargetURI=TargetURI,
        orig_rng=orig_rng,
        target=TargetURI(TARGET),
    )
    fields = [f for f in S.UDSServer.Behavior.model_fields if f.startswith("default_response_if_")]
    want = ["default_response_if_" + s for s in ref.SWITCHES]
    missing = [f for f in want if f not in fields]
    if missing:
        raise Broken(f"behaviour switches missing in UDSServer.Behavior: {missing}")
    G["extra_switches"] = [f for f in fields if f not in want]
    G["entropies"] = find_entropies()
    return G


def drive(coro: Any) -> Any:
    """Run a coroutine that performs no real I/O to completion (no event loop needed)."""
    try:
        coro.send(None)
    except StopIteration as e:
        return e.value
    coro.close()
    raise RuntimeError("coroutine suspended: the virtual ECU awaited something the harness does not provide")


def find_entropies() -> dict[int, bytes]:
    """Two entropy choices for the seed generator: 0 -> a non-empty seed, 1 -> an empty seed (both happen in
    reality: the seed length is int(expovariate(1/8) + 0.5))."""
    S = G["S"]
    out: dict[int, bytes] = {}
    real: dict[str, int] = {}
    for i in range(0, 4000):
        ENTROPY[0] = i
        b = S.RNG().random_payload()
        kind = "empty" if len(b) == 0 else ("short" if 1 <= len(b) <= 4 else "")
        if kind and kind not in real:
            real[kind] = i
        if len(real) == 2:
            break
    if len(real) != 2:
        from vf.engine.runner import Broken

        raise Broken("could not find entropy values for an empty and a short non-empty SecurityAccess seed")
    for choice, kind in ((0, "short"), (1, "empty")):
        ENTROPY[0] = real[kind]
        out[choice] = S.RNG().random_payload()
    G["entropy_real"] = {0: real["short"], 1: real["empty"]}
    ENTROPY[0] = real["short"]
    return out


def behavior(mask: int) -> Any:
    S = G["S"]
    kw = {"default_response_if_" + name: bool(mask >> i & 1) for i, name in enumerate(ref.SWITCHES)}
    return S.UDSServer.Behavior(**kw)


# ---------------------------------------------------------------------------
# model grid


def hand_models() -> dict[str, dict[int, dict[int, list[int] | None]]]:
    """Small hand-built models (only sub-function sets RandomUDSServer.randomize can produce)."""
    return {
        "minimal": {1: {0x10: [1]}},
        "three": {
            1: {0x10: [1, 2, 3], 0x3E: [0], 0x22: None, 0x27: [1, 2], 0x11: [1, 2, 3], 0x85: [1, 2], 0x31: [1, 2, 3],
                0x19: [2], 0x2C: [1, 2, 3], 0x28: [1, 2, 3], 0x87: None},
            2: {0x10: [1, 2], 0x3E: [0], 0x27: [1, 2, 3, 4], 0x2E: None, 0x22: None, 0x14: None, 0x2F: None,
                0x85: [2, 5], 0x11: [4]},
            3: {0x10: [1], 0x11: [1], 0x23: None, 0x3D: None, 0x34: None, 0x35: None, 0x36: None, 0x37: None,
                0x2C: [4], 0x05: None, 0x27: []},
        },  # fmt: skip
        "chain": {
            1: {0x10: [1, 0x40], 0x22: None},
            0x40: {0x10: [1, 0x41], 0x27: [0x11, 0x12], 0x31: [1, 2, 3]},
            0x41: {0x10: [1, 0x41, 0x7E], 0x27: [0x11, 0x12, 0x7D, 0x7E], 0x3E: [0], 0x19: [2]},
            0x7E: {0x10: [1], 0x11: [1, 0x7F], 0x28: [0x7F, 1]},
        },
    }


def configs(tier: str, prop: str) -> list[dict[str, Any]]:
    """Deterministic list of model configurations (simplest first)."""
    out: list[dict[str, Any]] = []
    quick = tier == "quick"
    for name in hand_models():
        out.append({"kind": "hand", "name": name, "seed": 0, "params": {}, "entropies": [0, 1], "wide": not quick})
    if prop == "C13":
        nseeds = 6 if quick else 48
    else:
        nseeds = 3 if quick else 48
    for s in range(nseeds):
        # quick: the empty-seed branch of requestSeed is explored on the hand-built and grid models only
        out.append({"kind": "rng", "name": f"default/{s}", "seed": s, "params": {}, "entropies": [0] if quick else [0, 1], "wide": not quick})
    grid: list[tuple[str, dict[str, Any]]] = [
        ("only-default-session/all-services", {"p_session": 0.0, "p_service": 1.0}),
        ("no-optional", {"optional_sessions": [], "optional_services": [], "p_session": 1.0, "p_service": 1.0}),
        (
            "three-mandatory",
            {
                "mandatory_sessions": [1, 2, 3],
                "optional_sessions": [],
                "p_session": 0.5,
                "mandatory_services": [0x10, 0x27, 0x3E, 0x11, 0x22],
                "optional_services": [0x2E, 0x31, 0x85],
                "p_service": 0.5,
                "p_sub_function": 0.06,
            },
        ),
        (
            "dense-sessions",
            {"mandatory_sessions": [1], "optional_sessions": [2, 3, 0x7E], "p_session": 1.0, "p_service": 0.05},
        ),
        ("always-identifiers", {"p_identifier": 1.0, "p_correct_payload_format": 1.0, "p_dtc_status_mask": 1.0, "p_service": 1.0, "p_session": 0.0}),
        ("never-identifiers", {"p_identifier": 0.0, "p_correct_payload_format": 0.0, "p_dtc_status_mask": 0.0, "p_service": 1.0, "p_session": 0.0}),
        ("no-mandatory-service", {"mandatory_services": [], "p_service": 0.3}),
    ]
    gseeds = (0,) if quick else tuple(range(4))
    for name, params in grid:
        for s in gseeds:
            # C14 quick: the empty-seed branch of requestSeed is explored on the hand-built models only
            ent = [0] if (quick and prop != "C13") else [0, 1]
            out.append({"kind": "rng", "name": f"{name}/{s}", "seed": s, "params": params, "entropies": ent, "wide": not quick})
    return out


def wide(cfg: dict[str, Any]) -> bool:
    return bool(cfg.get("wide", True))


class Ecu:
    """One real RandomUDSServer + UDSServerTransport pair on the virtual clock."""

    def __init__(self, cfg: dict[str, Any], mask: int = ref.ALL) -> None:
        S = G["S"]
        params = S.RandomUDSServer.RandomnessParameters(**cfg.get("params", {}))
        self.cfg = cfg
        self.srv = S.RandomUDSServer(cfg["seed"], params, behavior(mask))
        drive(self.srv.setup())
        if cfg["kind"] == "hand":
            U = G["UDSIsoServices"]
            self.srv.services = {
                sess: {U(sid): (None if sfs is None else list(sfs)) for sid, sfs in d.items()}
                for sess, d in hand_models()[cfg["name"]].items()
            }
        CLOCK.now = T0
        self.tr = S.UDSServerTransport(self.srv, G["target"])
        self.model_snapshot = self.model_dict()
        self.attr_names = (sorted(vars(self.srv)), sorted(vars(self.tr)))

    def model_dict(self) -> dict[int, dict[int, list[int] | None]]:
        return {
            int(sess): {int(sid): (None if sfs is None else [int(x) for x in sfs]) for sid, sfs in d.items()}
            for sess, d in self.srv.supported_services.items()
        }

    def set_mask(self, mask: int) -> None:
        self.srv.behavior = behavior(mask)

    def request(self, pdu: bytes, gap: float = 1.0, entropy: int = 0, force: tuple[int, str] | None = None, log: bool = False) -> bytes | None:
        CLOCK.now += gap
        ENTROPY[0] = G["entropy_real"][entropy]
        if force is None and not log:
            reply, _dt = drive(self.tr.handle_request(pdu))
            return reply
        DRAWS.update(active=True, log=[], force=force, depth=0)
        try:
            reply, _dt = drive(self.tr.handle_request(pdu))
        finally:
            DRAWS.update(active=False, force=None)
        return reply

    def snapshot(self) -> tuple[Any, ...]:
        return (copy.deepcopy(self.srv.state), self.tr.last_time_active, CLOCK.now)

    def restore(self, snap: tuple[Any, ...]) -> None:
        self.srv.state = copy.deepcopy(snap[0])
        self.tr.last_time_active = snap[1]
        CLOCK.now = snap[2]

    def concrete(self) -> tuple[Any, ...]:
        """Everything the server keeps between requests, canonicalised generically."""
        return tuple((k, _enc(v)) for k, v in sorted(vars(self.srv.state).items()))

    def abstract(self) -> tuple[Any, ...]:
        st = self.srv.state
        last = getattr(st, "last_sa_response", None)
        pending = None
        if last is not None and last.security_access_type % 2 == 1:
            pending = (last.security_access_type, bytes(last.security_seed))
        return (st.session, st.security_access_level, pending)

    def unknown_state_fields(self) -> list[str]:
        return sorted(set(vars(self.srv.state)) - {"session", "security_access_level", "last_sa_response"})

    def intact(self) -> str | None:
        """The harness restores only `state` and `last_time_active`; anything else must be immutable."""
        if self.model_dict() != self.model_snapshot:
            return "model changed during requests"
        if (sorted(vars(self.srv)), sorted(vars(self.tr))) != self.attr_names:
            return "server/transport grew attributes during requests"
        return None

    # symbolic history events -------------------------------------------------
    def play(self, hist: list[Any]) -> list[tuple[bytes, bytes | None]]:
        """Execute a symbolic history; returns the (request, reply) pairs."""
        out: list[tuple[bytes, bytes | None]] = []
        last_seed = b""
        for ev in hist:
            ev = tuple(ev)
            ent = 0
            if ev[0] == "dsc":
                pdu = bytes([0x10, ev[1]])
            elif ev[0] == "seed":
                pdu = bytes([0x27, ev[1]])
                ent = ev[2]
            elif ev[0] == "key":
                pdu = bytes([0x27, ev[1]]) + last_seed
            elif ev[0] == "raw":
                pdu = bytes.fromhex(ev[1])
            else:
                raise ValueError(ev)
            reply = self.request(pdu, entropy=ent)
            if ev[0] == "seed" and reply is not None and reply[:1] == b"\x67":
                last_seed = reply[2:]
            out.append((pdu, reply))
        return out


def _enc(v: Any) -> Any:
    if v is None or isinstance(v, bool | int | float | str | bytes):
        return v
    pdu = getattr(v, "pdu", None)
    if isinstance(pdu, bytes | bytearray):
        return ("pdu", bytes(pdu).hex())
    return repr(v)


# ---------------------------------------------------------------------------
# request alphabets

A8 = (0x00, 0x01, 0x02, 0x03, 0x7F, 0x80, 0x81, 0xFF)


def first_bytes(m: ref.Model, sid: int) -> list[int]:
    s = set(A8)
    for sf in m.sf_any.get(sid, ()):
        s.add(sf)
        s.add(sf | 0x80)
    return sorted(s)


def short_alphabet(m: ref.Model, wide: bool = True, two_for_unknown: bool = True) -> list[bytes]:
    """every SID 0x00..0xFF x payloads of length 0..2 (first byte: boundary bytes + every sub-function the
    model knows for that SID, with and without suppress bit; second byte: boundary bytes - for SIDs that neither
    the model nor the ISO format table knows only {00, FF} unless `wide`)."""
    out: list[bytes] = []
    for sid in range(256):
        out.append(bytes([sid]))
        fb = first_bytes(m, sid)
        for a in fb:
            out.append(bytes([sid, a]))
        known = sid in m.anywhere or sid in ref.FORMAT_SIDS
        second: tuple[int, ...] = A8 if (wide or known) else (0x00, 0xFF)
        if not known and not two_for_unknown:
            second = ()
        for a in fb:
            for b in second:
                out.append(bytes([sid, a, b]))
    return out


def structured(m: ref.Model) -> list[bytes]:
    """A few well formed (and nearly well formed) longer requests per service, written from ISO 14229-1."""
    h = bytes.fromhex
    out = [
        h("22f186"), h("221234"), h("22f187"), h("22f1861234"), h("221234f186"), h("22f186f186"), h("22f18612"),
        h("2ef18601"), h("2e1234aa"), h("2e1234"), h("2e1234" + "aa" * 20),
        h("2f123400"), h("2f123403aa"), h("2f1234"), h("2f12340355ff"),
        h("14ffffff"), h("14000000"), h("14ffff"), h("14ffffff01"),
        h("1902ff"), h("1982ff"), h("190200"), h("1902"), h("1902ffff"), h("1901ff"), h("190a"), h("19060000010f"),
        h("31010203"), h("31810203"), h("3102020355"), h("3103ffff"), h("31040203"), h("310102"), h("3101"),
        h("23110001"), h("2324000000000010"), h("2311"), h("23010001"), h("231000"), h("2311000100"),
        h("3d110001aa"), h("3d110002aabb"), h("3d1100"), h("3d110002aa"),
        h("3400110001"), h("34001100"), h("3500110001"), h("350022000100ff"), h("3601aa"), h("3601"), h("37"), h("37aa"),
        h("2c01f20012340101"), h("2c01f2001234010156780201"), h("2c01f200123401"), h("2c02f200110001"),
        h("2c02f2001100"), h("2c03"), h("2c03f200"), h("2c83f200"), h("2c03f2"),
        h("850100"), h("8581aabb"), h("280101"), h("28810101"), h("2803030001"),
        h("1001"), h("1081"), h("3e00"), h("3e80"), h("1101"), h("1181"),
    ]  # fmt: skip
    # SecurityAccess: every pair the model offers, with data record / keys of several lengths
    for t in sorted(t for t in m.sf_any.get(ref.SA, ()) if t % 2 == 1):
        out += [bytes([0x27, t, 0xAA, 0xBB]), bytes([0x27, t + 1, 0xAA, 0xBB, 0xCC]), bytes([0x27, (t + 1) | 0x80, 0x00])]
    seen: set[bytes] = set()
    res = []
    for p in out:
        if p not in seen:
            seen.add(p)
            res.append(p)
    return res


def dynamic(m: ref.Model, abstract_state: tuple[Any, ...]) -> list[bytes]:
    """Requests that depend on the state: keys for the pending seed."""
    _session, _level, pending = abstract_state
    if pending is None:
        return []
    t, seed = pending
    out = [
        bytes([0x27, t + 1]) + seed,
        bytes([0x27, (t + 1) | 0x80]) + seed,
        bytes([0x27, t + 1]) + seed + b"\x00",
        bytes([0x27, t + 1]) + bytes(x ^ 0xFF for x in seed),
    ]
    if t + 3 <= 0x7E:
        out.append(bytes([0x27, t + 3]) + seed)
    return [p for p in dict.fromkeys(out)]


def long_alphabet(m: ref.Model, wide: bool = True) -> list[bytes]:
    """payloads of 3..8 bytes: SIDs the model or the ISO table knows x every first byte of first_bytes() x three
    fill patterns; every other SID x first byte {00, 81} x fills {00.., FF..}."""
    out: list[bytes] = []
    lengths = (3, 4, 5, 6, 7, 8)
    for sid in range(256):
        known = sid in m.anywhere or sid in ref.FORMAT_SIDS
        if known:
            for a in first_bytes(m, sid):
                for n in lengths:
                    out.append(bytes([sid, a]) + bytes(n - 1))
                    out.append(bytes([sid, a]) + b"\xff" * (n - 1))
                    out.append(bytes([sid, a]) + bytes(range(1, n)))
        else:
            for a in (0x00, 0x81):
                for n in lengths if wide else (3, 8):
                    out.append(bytes([sid, a]) + bytes(n - 1))
                    out.append(bytes([sid, a]) + b"\xff" * (n - 1))
    return out


def boundary_lengths(m: ref.Model) -> list[bytes]:
    """4095 byte requests (lengths 1 and 2 are part of the short alphabet)."""
    out: list[bytes] = []
    for sid in range(256):
        out.append(bytes([sid]) + bytes(4094))
        if sid in m.anywhere or sid in ref.FORMAT_SIDS:
            out.append(bytes([sid]) + b"\xff" * 4094)
            for sf in sorted(m.sf_any.get(sid, ()))[:2]:
                out.append(bytes([sid, sf]) + b"\x55" * 4093)
                out.append(bytes([sid, sf | 0x80]) + b"\x55" * 4093)
    return out


def length_ladder(m: ref.Model) -> list[bytes]:
    """request lengths around every power of two up to the ISO-TP maximum, for a few services."""
    out: list[bytes] = []
    lens = sorted({n + d for k in range(4, 12) for n in (2**k,) for d in (-1, 0, 1)} | {3000, 4094})
    sids = [0x3E, 0x22, 0x2E, 0x36] + [sid for sid in sorted(m.anywhere) if sid not in (0x3E, 0x22, 0x2E, 0x36)][:2]
    for sid in sids:
        for n in lens:
            out.append(bytes([sid]) + bytes((i * 7 + n) & 0xFF for i in range(n - 1)))
    return out


class _Captured(Exception):
    pass


def capture_stream_server(transport: Any) -> tuple[Any, int, str]:
    """Run the transport's own ``run()`` up to its ``asyncio.start_server`` / ``start_unix_server`` call and return
    (client_connected_cb, StreamReader limit it asks for, which function) - so the harness reads requests with
    exactly the stream parameters the real server would use."""
    import asyncio

    got: list[Any] = []

    def fake(which: str) -> Any:
        async def start(cb: Any, *a: Any, limit: int = 2**16, **kw: Any) -> Any:
            got.append((cb, limit, which))
            raise _Captured

        return start

    saved = (asyncio.start_server, asyncio.start_unix_server)
    fakes = {id(saved[0]): fake("start_server"), id(saved[1]): fake("start_unix_server")}
    asyncio.start_server, asyncio.start_unix_server = fakes[id(saved[0])], fakes[id(saved[1])]  # type: ignore[assignment]
    # (also where the server module bound the functions under names of its own: `from asyncio import start_server`)
    rebound: list[tuple[dict[str, Any], str, Any]] = []
    md = G["S"].__dict__
    for attr, val in list(md.items()):
        if id(val) in fakes and val in saved:
            rebound.append((md, attr, val))
            md[attr] = fakes[id(val)]
    try:
        try:
            drive(transport.run())
        except _Captured:
            pass
    finally:
        asyncio.start_server, asyncio.start_unix_server = saved  # type: ignore[assignment]
        for d, attr, val in rebound:
            d[attr] = val
    if not got:
        from vf.engine.runner import Broken

        raise Broken(f"{type(transport).__name__}.run() no longer goes through asyncio.start_server / start_unix_server")
    return got[0]


_GEN_ARGS: dict[str, list[tuple[Any, ...]]] = {
    "ClearDiagnosticInformationRequest": [(0xFFFFFF,), (0,)],
    "ClearDynamicallyDefinedDataIdentifierRequest": [(0xF200,), (None,), (0xF200, True)],
    "CommunicationControlRequest": [(0, 1), (3, 3, True)],
    "ControlDTCSettingRequest": [(1,), (2, b"\xaa"), (1, b"", True)],
    "DefineByIdentifierRequest": [(0xF200, 0x1234, 1, 1), (0xF200, [0x1234, 0x5678], [1, 2], [1, 4]), (0xF200, 0x1234, 1, 1, True)],
    "DefineByMemoryAddressRequest": [(0xF200, 0x1000, 4), (0xF200, [0x1000, 0x2000], [4, 8]), (0xF200, 0x10, 1, 0x11, True)],
    "DiagnosticSessionControlRequest": [(1,), (2,), (3, True), (0x7F,), (0,)],
    "ECUResetRequest": [(1,), (4,), (1, True), (0x7F,)],
    "FreezeCurrentStateRequest": [(0x1234,), (0x1234, b"\xff")],
    "InputOutputControlByIdentifierRequest": [(0x1234, b"\x00"), (0x1234, b"\x03\xaa", b"\xff")],
    "ReadDataByIdentifierRequest": [(0xF186,), (0x1234,), ([0x1234, 0xF186, 0xFFFF],), ([0xF186, 0x1234],), (list(range(0x100, 0x120)),)],
    "ReadMemoryByAddressRequest": [(0x1000, 16), (0, 1, 0x11), (0xFFFFFFFF, 0xFFFF, 0x24)],
    "ReportDTCExtDataRecordByDTCNumberRequest": [(0x123456, 1), (b"\x12\x34\x56", 0xFF, True)],
    "RequestDownloadRequest": [(0x1000, 0x100), (0, 1, 1, 1, 0x11)],
    "RequestUploadRequest": [(0x1000, 0x100), (0, 1, 1, 1, 0x11)],
    "RequestRoutineResultsRequest": [(0x1234,), (0xFFFF, b"\xaa\xbb"), (0x1234, b"", True)],
    "StartRoutineRequest": [(0x1234,), (0xFFFF, b"\xaa\xbb"), (0x1234, b"", True)],
    "StopRoutineRequest": [(0x1234,), (0xFFFF, b"\xaa\xbb"), (0x1234, b"", True)],
    "RequestSeedRequest": [(1,), (0x7D, b"\xaa"), (1, b"", True)],
    "SendKeyRequest": [(2, b"\x00"), (0x7E, b"\xaa\xbb", True)],
    "RequestTransferExitRequest": [(), (b"\xaa",)],
    "ResetToDefaultRequest": [(0x1234,), (0x1234, b"\xff")],
    "ReturnControlToECURequest": [(0x1234,), (0x1234, b"\xff")],
    "ShortTermAdjustmentRequest": [(0x1234, b"\xaa"), (0x1234, b"\xaa\xbb", b"\xff")],
    "TesterPresentRequest": [(), (True,)],
    "TransferDataRequest": [(1,), (0xFF, b"\xaa" * 10)],
    "WriteDataByIdentifierRequest": [(0x1234, b"\xaa"), (0xF186, b"\x01" * 4)],
    "WriteMemoryByAddressRequest": [(0x1000, b"\xaa\xbb"), (0, b"\x01", 1, 0x11)],
}
_STATUS_MASK_ARGS: list[tuple[Any, ...]] = [(0xFF,), (0,), (0xFF, True)]
_GEN_SKIP = {"RawRequest", "RoutineControlRequest"}


def codec_generated() -> tuple[list[bytes], list[str]]:
    """Requests serialised by gallia's own request classes (every concrete UDSRequest subclass found by
    introspection).  Returns (pdus, notes about classes that are unknown here or cannot be serialised)."""
    if "codec_generated" in G:
        return G["codec_generated"]
    import inspect

    service = G["service"]
    pdus: list[bytes] = []
    notes: list[str] = []
    for name, cls in sorted(inspect.getmembers(service, inspect.isclass)):
        if not (issubclass(cls, service.UDSRequest) and not inspect.isabstract(cls)) or name.startswith("_") or name in _GEN_SKIP:
            continue
        args = _GEN_ARGS.get(name)
        if args is None:
            params = list(inspect.signature(cls.__init__).parameters)
            if params[1:2] == ["dtc_status_mask"]:
                args = _STATUS_MASK_ARGS
            else:
                notes.append(f"codec-generator-unknown-class:{name}")
                continue
        for a in args:
            try:
                pdus.append(bytes(cls(*a).pdu))
            except Exception as e:  # noqa: BLE001 - codec defects are C01's subject, here the request is just not available
                notes.append(f"codec-generator-unserialisable:{name}{a!r}:{type(e).__name__}")
    pdus = list(dict.fromkeys(pdus))
    G["codec_generated"] = (pdus, notes)
    return pdus, notes


def state_items(cfg: dict[str, Any], m: ref.Model) -> list[tuple[tuple[Any, ...], list[Any]]]:
    """(abstract state, shortest history) for every state the reference predicts reachable; states with an
    unlocked level are listed twice (the server still remembers / has forgotten the sendKey reply)."""
    out: list[tuple[tuple[Any, ...], list[Any]]] = []
    for st, hist in ref.reachable_states(m, {e: G["entropies"][e] for e in cfg["entropies"]}):
        out.append((st, hist))
        if st[1] is not None and st[2] is None:
            out.append((st, hist + [("raw", "00")]))
    return out


def ser(st: tuple[Any, ...]) -> list[Any]:
    s, lvl, p = st
    return [s, lvl, None if p is None else [p[0], p[1].hex()]]


def de(st: list[Any]) -> tuple[Any, ...]:
    s, lvl, p = st
    return (s, lvl, None if p is None else (p[0], bytes.fromhex(p[1])))


class FakeWriter:
    """the part of asyncio.StreamWriter that handle_client uses."""

    def __init__(self) -> None:
        self.chunks: list[bytes] = []
        self.drains = 0

    def write(self, data: bytes) -> None:
        self.chunks.append(bytes(data))

    async def drain(self) -> None:
        self.drains += 1

    def close(self) -> None:
        pass

    def get_extra_info(self, name: str, default: Any = None) -> Any:
        return default
