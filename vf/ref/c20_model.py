"""C20 reference models, written from the property statement only (no gallia import).

* URI model: a target is the tuple (scheme, host, port, {parameter: text}).  Hosts are
  compared as *hosts* (IP literals by address value, names case-insensitively), ports and
  parameter texts exactly.  The textual form is RFC 3986: IPv6 literals in brackets.
* Integer notation: decimal, 0x hex, 0o octal, 0b binary.
* Range model: a 1-D expression is a list of tokens, a token being one number or an inclusive
  range (first, last); it denotes the sorted union.  A 2-D expression is a list of groups
  (outer tokens, inner tokens | None); per outer key the sorted union of the inner tokens of all
  groups naming that key, ``None`` (= all) as soon as one bare group names it.

The checks build inputs from these abstract forms and render them to text themselves, so the
reference never parses text that gallia parses.
"""

from __future__ import annotations

import functools
import ipaddress
from typing import Any

# -- hosts / URIs -----------------------------------------------------------------


@functools.lru_cache(maxsize=4096)
def host_class(host: str) -> str:
    if ":" in host:
        return "ipv6"
    try:
        ipaddress.IPv4Address(host)
        return "ipv4"
    except ValueError:
        return "dns"


@functools.lru_cache(maxsize=4096)
def norm_host(host: str | None) -> Any:
    """canonical value of a host: the address for IP literals, the lower-cased name otherwise"""
    if host is None:
        return None
    try:
        return ipaddress.ip_address(host)
    except ValueError:
        return host.lower()


def ref_hostport(host: str, port: int | None) -> str:
    h = f"[{host}]" if ":" in host else host
    return h if port is None else f"{h}:{port}"


def ref_uri(scheme: str, host: str, port: int | None, args: dict[str, Any]) -> tuple[Any, ...]:
    return (scheme, norm_host(host), port, {str(k): str(v) for k, v in args.items()})


def nearest_ms(seconds: float) -> int:
    """the whole number of milliseconds nearest to the exact value of the float passed (no float arithmetic)"""
    from fractions import Fraction

    return round(Fraction(seconds) * 1000)


# -- integer notations ----------------------------------------------------------

SPELLINGS = ("dec", "hex", "oct", "bin")


def spell(value: int, how: str) -> str:
    if how == "dec":
        return str(value)
    if how == "hexu":  # upper-case hex digits, lower-case prefix
        return "0x" + spell(value, "hex")[2:].upper()
    digits = {"hex": "0123456789abcdef", "oct": "01234567", "bin": "01"}[how]
    base = len(digits)
    n, out = value, ""
    while True:
        out = digits[n % base] + out
        n //= base
        if n == 0:
            break
    return {"hex": "0x", "oct": "0o", "bin": "0b"}[how] + out


def numeral_value(text: str) -> int:
    t = text.strip().lower()
    for prefix, base in (("0x", 16), ("0o", 8), ("0b", 2)):
        if t.startswith(prefix):
            return int(t[2:], base)
    return int(t, 10)


# -- ranges ---------------------------------------------------------------------
# token: int  |  (first, last)


def eval_1d(tokens: list[Any]) -> list[int]:
    out: set[int] = set()
    for t in tokens:
        if isinstance(t, int):
            out.add(t)
        else:
            first, last = t
            out.update(range(first, last + 1))  # inclusive; first > last denotes nothing
    return sorted(out)


def eval_2d(groups: list[tuple[list[Any], list[Any] | None]]) -> dict[int, list[int] | None]:
    listed: dict[int, set[int]] = {}
    everything: set[int] = set()
    for outer, inner in groups:
        for key in eval_1d(outer):
            listed.setdefault(key, set())
            if inner is None:
                everything.add(key)
            else:
                listed[key].update(eval_1d(inner))
    return {k: None if k in everything else sorted(listed[k]) for k in sorted(listed)}
