"""C20 reference models, written from the property statement only (no gallia import).

* URI model: a target is the tuple (scheme, host, port, {parameter: text}).  Hosts are
  compared as *hosts* (IP literals by address value, names case-insensitively), ports and
  parameter texts exactly.  The textual form is RFC 3986: IPv6 literals in brackets.
* Integer notation: decimal, 0x hex, 0o octal, 0b binary.
* Range model: a 1-D expression is a list of tokens, a token being one number or an inclusive
  range (first, last); it denotes the sorted union.  A 2-D expression is a list of groups
  (outer tokens, inner tokens | None); per outer key the sorted union of the inner tokens of all
  groups naming that key, ``None`` (= all) as soon as one bare group names it.

The checks build inputs from these abstract forms and render them to text themselves, so the
reference never parses text that gallia parses.
"""

from __future__ import annotations

import functools
import ipaddress
from typing import Any

# -- hosts / URIs -----------------------------------------------------------------


@functools.lru_cache(maxsize=4096)
def host_class(host: str) -> str:
    if ":" in host:
        return "ipv6"
    try:
        ipaddress.IPv4Address(host)
        return "ipv4"
    except ValueError:
        return "dns"


@functools.lru_cache(maxsize=4096)
def norm_host(host: str | None) -> Any:
    """canonical value of a host: the address for IP literals, the lower-cased name otherwise"""
    if host is None:
        return None
    try:
        return ipaddress.ip_address(host)
    except ValueError:
        return host.lower()


def ref_hostport(host: str, port: int | None) -> str:
    h = f"[{host}]" if ":" in host else host
    return h if port is None else f"{h}:{port}"


def ref_uri(scheme: str, host: str, port: int | None, args: dict[str, Any]) -> tuple[Any, ...]:
    return (scheme, norm_host(host), port, {str(k): str(v) for k, v in args.items()})


def nearest_ms(seconds: float) -> int:
    """the whole number of milliseconds nearest to the exact value of the float passed (no float arithmetic)"""
    from fractions import Fraction

    return round(Fraction(seconds) * 1000)


# -- integer notations ----------------------------------------------------------

SPELLINGS = ("dec", "hex", "oct", "bin")


def spell(value: int, how: str) -> str:
    if how == "dec":
        return str(value)
    if how == "hexu":  # upper-case hex digits, lower-case prefix
        return "0x" + spell(value, "hex")[2:].upper()
    digits = {"hex": "0123456789abcdef", "oct": "01234567", "bin": "01"}[how]
    base = len(digits)
    n, out = value, ""
    while True:
        out = digits[n % base] + out
        n //= base
        if n == 0:
            break
    return {"hex": "0x", "oct": "0o", "bin": "0b"}[how] + out


def numeral_value(text: str) -> int:
    t = text.strip().lower()
    for prefix, base in (("0x", 16), ("0o", 8), ("0b", 2)):
        if t.startswith(prefix):
            return int(t[2:], base)
    return int(t, 10)


# -- ranges ---------------------------------------------------------------------
# token: int  |  (first, last)


def eval_1d(tokens: list[Any]) -> list[int]:
    out: set[int] = set()
    for t in tokens:
        if isinstance(t, int):
            out.add(t)
        else:
            first, last = t
            out.update(range(first, last + 1))  # inclusive; first > last denotes nothing
    return sorted(out)


def eval_2d(groups: list[tuple[list[Any], list[Any] | None]]) -> dict[int, list[int] | None]:
    listed: dict[int, set[int]] = {}
    everything: set[int] = set()
    for outer, inner in groups:
        for key in eval_1d(outer):
            listed.setdefault(key, set())
            if inner is None:
                everything.add(key)
            else:
                listed[key].update(eval_1d(inner))
    return {k: None if k in everything else sorted(listed[k]) for k in sorted(listed)}


# -- what reaches the socket (Linux SocketCAN ABI: linux/can.h, linux/can/isotp.h, linux/can/raw.h) ---------

CAN_EFF_FLAG = 0x80000000
CAN_SFF_MASK = 0x000007FF
CAN_EFF_MASK = 0x1FFFFFFF
SOL_CAN_BASE = 100
SOL_CAN_RAW = SOL_CAN_BASE + 1  # CAN_RAW == 1
SOL_CAN_ISOTP = SOL_CAN_BASE + 6  # CAN_ISOTP == 6
CAN_RAW_FD_FRAMES = 5
CAN_ISOTP_OPTS = 1
CAN_ISOTP_LL_OPTS = 5
ISOTP_FLAG = {"ext_address": 0x002, "tx_padding": 0x004, "rx_padding": 0x008, "rx_ext_address": 0x200}
CANFD_MTU = 72


def decode_isotp_opts(data: bytes) -> dict[str, int]:
    """struct can_isotp_options { u32 flags; u32 frame_txtime; u8 ext_address, txpad, rxpad, rx_ext_address; }"""
    import struct

    flags, txtime, ext, txpad, rxpad, rxext = struct.unpack("@IIBBBB", data[:12])
    return {"flags": flags, "frame_txtime": txtime, "ext_address": ext, "tx_padding": txpad, "rx_padding": rxpad, "rx_ext_address": rxext}


def can_id_on_wire(can_id: int, extended: bool) -> int:
    return (can_id & CAN_EFF_MASK) | CAN_EFF_FLAG if extended else can_id & CAN_SFF_MASK


def isotp_wire_mismatches(iface: str, want: dict[str, Any], sock_log: list[tuple[Any, ...]]) -> list[tuple[str, str]]:
    """compare the numeric settings of an isotp:// URI (``want``: field -> number | None = absent, booleans for
    is_fd / is_extended) with what the transport did to its socket; returns [(field, what)]"""
    import struct

    out: list[tuple[str, str]] = []
    opts = [e for e in sock_log if e[0] == "opt" and e[1] == SOL_CAN_ISOTP and e[2] == CAN_ISOTP_OPTS]
    binds = [e for e in sock_log if e[0] == "bind"]
    if len(opts) != 1 or not isinstance(opts[0][3], bytes | bytearray) or len(opts[0][3]) < 12:
        return [("CAN_ISOTP_OPTS", f"expected exactly one setsockopt(SOL_CAN_ISOTP, CAN_ISOTP_OPTS, 12 bytes), saw {opts!r}")]
    got = decode_isotp_opts(bytes(opts[0][3]))
    for field, bit in ISOTP_FLAG.items():
        present = want.get(field) is not None
        if present and not got["flags"] & bit:
            out.append((field, f"flag-not-set: URI says {field}={want[field]:#x} but flag {bit:#x} is clear (flags={got['flags']:#x})"))
        elif not present and got["flags"] & bit:
            out.append((field, f"flag-spurious: URI has no {field} but flag {bit:#x} is set"))
        elif present and got[field] != want[field]:
            out.append((field, f"wrong-value: URI says {field}={want[field]:#x}, socket option carries {got[field]:#x}"))
    if got["frame_txtime"] != want["frame_txtime"]:
        out.append(("frame_txtime", f"wrong-value: URI says {want['frame_txtime']}, socket option carries {got['frame_txtime']}"))
    ll = [e for e in sock_log if e[0] == "opt" and e[1] == SOL_CAN_ISOTP and e[2] == CAN_ISOTP_LL_OPTS]
    if want["is_fd"]:
        if len(ll) != 1 or len(ll[0][3]) < 3:
            out.append(("is_fd", f"wrong-value: is_fd=true but CAN_ISOTP_LL_OPTS set {len(ll)} times"))
        else:
            mtu, tx_dl, _flags = struct.unpack("@BBB", bytes(ll[0][3])[:3])
            if mtu != CANFD_MTU:
                out.append(("is_fd", f"wrong-value: is_fd=true but link layer mtu={mtu}"))
            if tx_dl != want["tx_dl"]:
                out.append(("tx_dl", f"wrong-value: URI says tx_dl={want['tx_dl']}, link layer option carries {tx_dl}"))
    elif ll and struct.unpack("@BBB", bytes(ll[0][3])[:3])[0] == CANFD_MTU:
        out.append(("is_fd", "wrong-value: is_fd=false but CAN FD link layer options are set"))
    rx = can_id_on_wire(want["dst_addr"], want["is_extended"])
    tx = can_id_on_wire(want["src_addr"], want["is_extended"])
    if len(binds) != 1 or tuple(binds[0][1]) != (iface, rx, tx):
        out.append(("bind", f"wrong-value: expected bind(({iface!r}, rx={rx:#x}, tx={tx:#x})), saw {[b[1] for b in binds]!r}"))
    return out


# -- integer literals per entry-point family (None = not a numeral of that family) ------------------------


def ref_base0(text: str) -> int | None:
    """decimal (no leading zero), 0x hex, 0o octal, 0b binary"""
    t = text.lower()
    for prefix, digits in (("0x", "0123456789abcdef"), ("0o", "01234567"), ("0b", "01")):
        if t.startswith(prefix):
            body = t[2:]
            return int(body, len(digits)) if body and all(c in digits for c in body) else None
    if t.isdigit() and t.isascii() and (t == "0" or not t.startswith("0")):
        return int(t, 10)
    return None


def ref_base16(text: str) -> int | None:
    """hex digits with an optional 0x prefix (fields declared as hex)"""
    t = text.lower()
    if t.startswith("0x"):
        t = t[2:]
    return int(t, 16) if t and all(c in "0123456789abcdef" for c in t) else None
