"""Reference model for C13: ISO 14229-1 general server response behaviour, as a decision list.

Everything here is computed from the server's *model* (session -> service -> sub-functions), the
request bytes and the abstract server state (session, unlocked level, pending seed).  It does not
import gallia and does not look at the responder code.

Three small tables carry the ISO knowledge:

  SUBFUNC      services whose second byte is a sub-function (bit 7 = suppressPosRspMsgIndicationBit)
  FORMAT       per service: is this byte string a well formed request?  True / False / None
               (None = the reference does not decide: reserved values, edition dependent layouts)
  state rules  positive DiagnosticSessionControl, positive SecurityAccess sendKey, positive ECUReset

decide() is the decision list of the property statement, in its priority order, parameterised by the
set of enabled behaviour switches so that "switching one behaviour off only removes that rule" is the
same list with one entry skipped.
"""

from __future__ import annotations

from typing import Any

# behaviour switches, in the order of the statement / of UDSServer.Behavior -----------------------

SWITCHES = [
    "service_not_supported",
    "missing_sub_function",
    "sub_function_not_supported",
    "incorrect_format",
    "session_change",
    "session_read",
    "tester_present",
    "none",
    "suppress",
]
SNS, MSF, SFNS, IFMT, SCHG, SREAD, TP, NONE, SUPP = (1 << i for i in range(9))
ALL = (1 << 9) - 1

NRC_SNS = 0x11  # serviceNotSupported
NRC_SFNS = 0x12  # subFunctionNotSupported
NRC_IMLOIF = 0x13  # incorrectMessageLengthOrInvalidFormat
NRC_GR = 0x10  # generalReject
NRC_RSE = 0x24  # requestSequenceError
NRC_IK = 0x35  # invalidKey
NRC_SFNSIAS = 0x7E  # subFunctionNotSupportedInActiveSession
NRC_SNSIAS = 0x7F  # serviceNotSupportedInActiveSession

DSC, ER, CDI, RDTC, RDBI, RMBA, SA, CC, DDDI, WDBI, IOCBI, RC = (
    0x10, 0x11, 0x14, 0x19, 0x22, 0x23, 0x27, 0x28, 0x2C, 0x2E, 0x2F, 0x31,
)  # fmt: skip
RD, RU, TD, RTE, WMBA, TPS, CDTCS = 0x34, 0x35, 0x36, 0x37, 0x3D, 0x3E, 0x85

# ISO 14229-1 services with a sub-function parameter whose rules this reference evaluates
SUBFUNC = frozenset({DSC, ER, RDTC, SA, CC, DDDI, RC, TPS, CDTCS})
# ... and those it knows of but does not evaluate (no sub-function lists in the server model)
SUBFUNC_UNMODELLED = frozenset({0x29, 0x83, 0x86, 0x87})

DID_ACTIVE_SESSION = 0xF186

# ReadDTCInformation request lengths per sub-function (ISO 14229-1:2013 table 264 ff.)
_RDTC_LEN = {
    0x01: 3, 0x02: 3, 0x03: 2, 0x04: 6, 0x05: 3, 0x06: 6, 0x07: 4, 0x08: 4, 0x09: 5, 0x0A: 2,
    0x0B: 2, 0x0C: 2, 0x0D: 2, 0x0E: 2, 0x0F: 3, 0x10: 6, 0x11: 3, 0x12: 3, 0x13: 3, 0x14: 2,
    0x15: 2, 0x16: 3, 0x17: 4, 0x18: 7, 0x19: 7, 0x42: 5, 0x55: 3,
}  # fmt: skip


def _alfid(b: int) -> tuple[int, int] | None:
    """addressAndLengthFormatIdentifier -> (address bytes, size bytes); None if a nibble is 0."""
    size, addr = b >> 4, b & 0x0F
    if size == 0 or addr == 0:
        return None
    return addr, size


def wellformed(pdu: bytes) -> bool | None:
    """True: well formed request of a service this table covers.  False: wrong length / format.
    None: not decided here (service without table row, reserved or edition dependent layout)."""
    sid, n = pdu[0], len(pdu)
    if sid in (DSC, ER):
        return n == 2
    if sid == TPS:
        if n != 2:
            return False
        return True if pdu[1] & 0x7F == 0 else None  # only zeroSubFunction is defined
    if sid == CDTCS:
        return n >= 2
    if sid == SA:
        if n < 2:
            return False
        sf = pdu[1] & 0x7F
        if sf in (0x00, 0x7F):
            return None  # reserved
        return True if sf % 2 == 1 else n >= 3  # sendKey carries a key
    if sid == CC:
        if n < 2:
            return False
        sf = pdu[1] & 0x7F
        if sf in (4, 5):
            return None  # nodeIdentificationNumber variants (edition dependent)
        return n == 3
    if sid == RDBI:
        return n >= 3 and n % 2 == 1
    if sid in (WDBI, IOCBI):
        return n >= 4
    if sid == CDI:
        if n == 5:
            return None  # MemorySelection (2020 edition)
        return n == 4
    if sid == RC:
        if n < 2:
            return False
        if pdu[1] & 0x7F not in (1, 2, 3):
            return None  # reserved routineControlType
        return n >= 4
    if sid == RDTC:
        if n < 2:
            return False
        if pdu[1] & 0x7F != 0x02:
            return None  # the server model can only offer reportDTCByStatusMask; the other layouts are not judged
        return n == _RDTC_LEN[0x02]
    if sid == RMBA:
        if n < 2:
            return False
        f = _alfid(pdu[1])
        if f is None:
            return False
        return n == 2 + f[0] + f[1]
    if sid == WMBA:
        if n < 2:
            return False
        f = _alfid(pdu[1])
        if f is None:
            return False
        if n < 2 + f[0] + f[1] + 1:
            return False
        size = int.from_bytes(pdu[2 + f[0] : 2 + f[0] + f[1]], "big")
        return True if n - (2 + f[0] + f[1]) == size else None  # record length vs memorySize
    if sid in (RD, RU):
        if n < 3:
            return False
        f = _alfid(pdu[2])
        if f is None:
            return False
        return n == 3 + f[0] + f[1]
    if sid == TD:
        return n >= 2
    if sid == RTE:
        return n >= 1
    if sid == DDDI:
        if n < 2:
            return False
        sf = pdu[1] & 0x7F
        if sf == 1:
            return n >= 8 and (n - 4) % 4 == 0
        if sf == 2:
            if n < 5:
                return False
            f = _alfid(pdu[4])
            if f is None:
                return False
            return n > 5 and (n - 5) % (f[0] + f[1]) == 0
        if sf == 3:
            return n in (2, 4)
        return None
    return None


FORMAT_SIDS = frozenset({DSC, ER, TPS, CDTCS, SA, CC, RDBI, WDBI, IOCBI, CDI, RC, RDTC, RMBA, WMBA, RD, RU, TD, RTE, DDDI})


class Model:
    """session -> service id -> sorted tuple of sub-functions | None."""

    def __init__(self, services: dict[int, dict[int, Any]]) -> None:
        self.services: dict[int, dict[int, tuple[int, ...] | None]] = {}
        for sess, d in services.items():
            self.services[int(sess)] = {
                int(sid): (None if sfs is None else tuple(sorted(int(x) for x in sfs))) for sid, sfs in d.items()
            }
        self.anywhere = frozenset(sid for d in self.services.values() for sid in d)
        self.sf_in: dict[tuple[int, int], frozenset[int]] = {}
        self.sf_any: dict[int, frozenset[int]] = {}
        self.disagree: set[int] = set()  # services whose sub-function-ness differs between ISO table and model
        for sess, d in self.services.items():
            for sid, sfs in d.items():
                if (sfs is not None) != (sid in SUBFUNC):
                    self.disagree.add(sid)
                if sfs is not None:
                    self.sf_in[(sess, sid)] = frozenset(sfs)
        for (_sess, sid), s in self.sf_in.items():
            self.sf_any[sid] = self.sf_any.get(sid, frozenset()) | s

    def dump(self) -> dict[str, dict[str, list[int] | None]]:
        return {
            f"{s:02x}": {f"{sid:02x}": (None if sfs is None else list(sfs)) for sid, sfs in sorted(d.items())}
            for s, d in sorted(self.services.items())
        }

    # graph of sessions as the model defines it (DiagnosticSessionControl sub-functions)
    def dsc_targets(self, sess: int) -> tuple[int, ...]:
        return self.services.get(sess, {}).get(DSC) or ()

    def sa_pairs(self, sess: int) -> list[int]:
        """odd requestSeed types whose sendKey partner is offered in the same session."""
        sfs = self.services.get(sess, {}).get(SA) or ()
        return [sf for sf in sfs if sf % 2 == 1 and sf + 1 in sfs]


# abstract state: (session, level, pending) with pending = (requestSeed type, seed bytes) | None
INITIAL = (1, None, None)


def suppressible(pdu: bytes) -> bool:
    return pdu[0] in SUBFUNC and len(pdu) >= 2 and bool(pdu[1] & 0x80)


def decide(m: Model, session: int, pdu: bytes, sw: int = ALL) -> tuple[Any, ...]:
    """The decision list.  Returns one of
    ("neg", nrc, rule)                 the reply must be 7F <sid> <nrc>
    ("pos", prefix, exact, rule)       default positive reply (exact bytes or prefix)
    ("handler", wf)                    no default rule applies: the service handler answers (wf: bool | None)
    ("undef", why)                     the reference does not decide (listed as uncovered)
    """
    sid = pdu[0]
    cur = m.services.get(session)
    if cur is None:
        return ("undef", "session-not-in-model")
    in_cur = sid in cur
    # 1. service unknown everywhere / known only in another session
    if sw & SNS and not in_cur:
        return ("neg", NRC_SNSIAS if sid in m.anywhere else NRC_SNS, "service_not_supported")
    if sid in m.disagree:
        # sub-function rules cannot be evaluated from this model
        return ("undef", f"subfunction-lists-disagree-with-iso:{sid:02x}")
    if sid in SUBFUNC:
        if len(pdu) < 2:
            # 2. sub-function service without sub-function byte
            if sw & MSF:
                return ("neg", NRC_IMLOIF, "missing_sub_function")
            # without a sub-function byte rule 3 has nothing to look at
        elif sid != RC and sw & SFNS:
            # 3. unknown sub-function (RoutineControl exempt)
            sf = pdu[1] & 0x7F
            if sf not in m.sf_in.get((session, sid), ()):
                elsewhere = any(sf in s for (se, si), s in m.sf_in.items() if si == sid and se != session)
                return ("neg", NRC_SFNSIAS if elsewhere else NRC_SFNS, "sub_function_not_supported")
    # 4. unparsable
    wf = wellformed(pdu)
    if wf is None:
        if sid not in FORMAT_SIDS:
            return ("undef", f"no-format-table:{sid:02x}")
        return ("undef", f"format-undecided:{sid:02x}")
    if not wf:
        if sw & IFMT:
            return ("neg", NRC_IMLOIF, "incorrect_format")
        return ("handler", False)
    # default positive answers
    if sid == DSC and sw & SCHG:
        return ("pos", bytes([0x50, pdu[1] & 0x7F]), False, "session_change")
    if sid == RDBI and sw & SREAD:
        dids = [int.from_bytes(pdu[i : i + 2], "big") for i in range(1, len(pdu), 2)]
        if dids == [DID_ACTIVE_SESSION]:
            return ("pos", bytes([0x62, 0xF1, 0x86, session & 0xFF]), True, "session_read")
        if DID_ACTIVE_SESSION in dids:
            return ("undef", "multi-did-with-f186")
    if sid == TPS and sw & TP:
        return ("pos", bytes([0x7E, 0x00]), True, "tester_present")
    return ("handler", True)


def security_access(pending: tuple[int, bytes] | None, pdu: bytes) -> tuple[Any, ...] | None:
    """Expected answer of a well formed SecurityAccess request that reached the handler.
    ("seed", type) positive 67 <type> <seed...>; ("pos", bytes) exact; ("neg", nrc)."""
    sf = pdu[1] & 0x7F
    if sf % 2 == 1:
        return ("seed", sf)
    key = pdu[2:]
    if pending is None or pending[0] != sf - 1:
        return ("neg", NRC_RSE)
    if key == pending[1]:
        return ("pos", bytes([0x67, sf]))
    return ("neg", NRC_IK)


def after(state: tuple[Any, ...], pdu: bytes, reply: bytes | None) -> tuple[Any, ...]:
    """State after `reply` (the answer before suppression; None = the server produced none).

    session / level change exactly on positive DiagnosticSessionControl (reset, session := type),
    positive SecurityAccess with even type (level := type - 1) and positive ECUReset (reset).
    pending seed (implementation's notion of 'the seed is valid for the next request only'):
    kept by TesterPresent and by 'no answer at all', set by a positive requestSeed, dropped otherwise."""
    session, level, pending = state
    if reply is None:
        return state
    sid = pdu[0]
    pos = reply[0] != 0x7F
    if pos and reply[0] == 0x50 and len(reply) >= 2:
        return (reply[1], None, None)
    if pos and reply[0] == 0x51:
        return (1, None, None)
    if pos and reply[0] == 0x67 and len(reply) >= 2:
        t = reply[1]
        if t % 2 == 0:
            return (session, t - 1, None)
        return (session, level, (t, bytes(reply[2:])))
    if pos and reply[0] == 0x7E:
        return state
    _ = sid
    return (session, level, None)


def reachable_states(m: Model, entropies: dict[int, bytes]) -> list[tuple[tuple[Any, ...], list[tuple[Any, ...]]]]:
    """All abstract states the reference predicts to be reachable from INITIAL together with one shortest
    symbolic history each: events ("dsc", t) | ("seed", t, entropy) | ("key", t).  `entropies` maps an
    entropy choice to the seed bytes the (controlled) generator yields for it."""
    out: list[tuple[tuple[Any, ...], list[tuple[Any, ...]]]] = []
    seen: dict[tuple[Any, ...], list[tuple[Any, ...]]] = {INITIAL: []}
    queue = [INITIAL]
    while queue:
        st = queue.pop(0)
        hist = seen[st]
        out.append((st, hist))
        session, level, pending = st
        succ: list[tuple[tuple[Any, ...], tuple[Any, ...]]] = []
        for t in m.dsc_targets(session):
            if t in m.services:
                succ.append(((t, None, None), ("dsc", t)))
        sa_here = m.services.get(session, {}).get(SA) or ()
        for t in sa_here:
            if t % 2 == 1 and t != 0x7F:
                for e, seed in sorted(entropies.items()):
                    succ.append(((session, level, (t, seed)), ("seed", t, e)))
        if pending is not None and pending[0] + 1 in sa_here and len(pending[1]) >= 1:
            succ.append(((session, pending[0], None), ("key", pending[0] + 1)))
        for nst, ev in succ:
            if nst not in seen:
                seen[nst] = hist + [ev]
                queue.append(nst)
    return out


def session_graph_ok(m: Model, mandatory_sessions: list[int], mandatory_services: list[int]) -> list[str]:
    """C16 clause: mandatory sessions/services present, every offered session reachable from 1 and able to return."""
    problems: list[str] = []
    for s in [1] + list(mandatory_sessions):
        if s not in m.services:
            problems.append(f"mandatory-session-missing:{s:02x}")
    for s, d in m.services.items():
        for sid in mandatory_services:
            if sid not in d:
                problems.append(f"mandatory-service-missing:{sid:02x}@{s:02x}")

    def reach(start: int) -> set[int]:
        seen = {start}
        todo = [start]
        while todo:
            x = todo.pop()
            for t in m.dsc_targets(x):
                if t in m.services and t not in seen:
                    seen.add(t)
                    todo.append(t)
        return seen

    if 1 in m.services:
        fwd = reach(1)
        for s in m.services:
            if s not in fwd:
                problems.append(f"session-unreachable-from-default:{s:02x}")
            elif 1 not in reach(s):
                problems.append(f"session-cannot-return-to-default:{s:02x}")
    for s, d in m.services.items():
        for t in d.get(DSC) or ():
            if t not in m.services:
                problems.append(f"transition-to-unoffered-session:{s:02x}->{t:02x}")
    return problems
