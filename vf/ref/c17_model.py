"""Reference model for C17 (log writer / reader / hr), written from the property statement only.

The model of a log is a plain Python list of reference records.  Nothing in here imports gallia.

Semantics taken from the statement
----------------------------------
* a record has text, level, tags, timestamp; the severity number of a level is the RFC 3164
  one (critical 2 ... debug 7) plus trace = 8 (table ``PRIO_OF_LEVEL``);
* priority filter ``p``: exactly the records whose severity number is <= p ("at or above the
  requested severity");
* forward reading from offset k >= 0: records k..n-1;  tail n (offset -n): the last n records, the
  whole log when n exceeds it;  head n: the first n;  reverse: the same records, last first;
  every selected record once.

Points the statement leaves open are modelled as *admitted sets* (see ``expect_records`` /
``expect_hr``) - never as a single arbitrary choice.
"""

from __future__ import annotations

import datetime
import itertools
from typing import Any

# -- record alphabet -----------------------------------------------------------------

# python logging level numbers (logging.CRITICAL ... + gallia's NOTICE=25, TRACE=5) -> severity number
LEVELS: list[tuple[str, int, int]] = [
    ("CRITICAL", 50, 2),
    ("ERROR", 40, 3),
    ("WARNING", 30, 4),
    ("NOTICE", 25, 5),
    ("INFO", 20, 6),
    ("DEBUG", 10, 7),
    ("TRACE", 5, 8),
]
LEVEL_NO = {name: no for name, no, _ in LEVELS}
PRIO_OF_LEVEL = {name: prio for name, _, prio in LEVELS}
LEVEL_NAMES = [name for name, _, _ in LEVELS]

# the nine severities a threshold can name (0,1 have no python level: nothing is ever logged there)
PRIORITY_NAMES = ["emergency", "alert", "critical", "error", "warning", "notice", "info", "debug", "trace"]
ALL_PRIOS = list(range(9))

TAGS: list[list[str] | None] = [None, [], ["a"], ["a", "b"]]

LONG_LEN = 70_000
TEXTS: dict[str, str] = {
    "empty": "",
    "ascii": "hello world",
    "nl": "line1\nline2",
    "crlf": "a\r\nb",
    "nul": "x\x00y",
    "emoji": "snöw ☃ \U0001f600",
    "prio": '<3>{"data": "fake", "priority": 3}',
    "long": "".join(chr(0x41 + (i * 7) % 26) for i in range(LONG_LEN)),
    # extras beyond the brief: surrounding whitespace + trailing newline, unicode line separators, format look-alikes
    "ws": "  padded \t\n",
    "usep": "u v w\x85x\x0by\x0cz\x1c\x1e",
    "pct": "100% %s %d {} {0} %(name)s",
    # lone surrogates (what bytes.decode(errors="surrogateescape") or a broken UTF-16 source produce): a str that cannot
    # be encoded as UTF-8; the writer must still store it (JSON \\uXXXX escapes) and must not lose this or later records
    "surr": "\udcff",
    "surrmid": "abc\ud800def\udcff.",
}
TEXT_KEYS = list(TEXTS)
BRIEF_TEXT_KEYS = TEXT_KEYS[:8]

# timestamps: integer microseconds since the epoch; fractions chosen to hit "no fraction", smallest, largest
BASE_US = 1_700_000_000_000_000
FRACS_US = [0, 1, 500_000, 999_999, 123_456]
EPOCH = datetime.datetime(1970, 1, 1, tzinfo=datetime.timezone.utc)


def ts_us(position: int, t0_us: int = 0) -> int:
    """timestamp of the record logged as the ``position``-th call of a run (strictly increasing); ``t0_us`` shifts the
    clock of a second / third run so that records of different logs stay distinguishable."""
    return BASE_US + t0_us + position * 1_001_000_000 + FRACS_US[position % len(FRACS_US)]


def ts_datetime(us: int) -> datetime.datetime:
    return EPOCH + datetime.timedelta(microseconds=us)


# -- daylight-saving schedules -------------------------------------------------------------
#
# "same timestamp" must hold wherever the run's clock stands relative to the zone's DST switches - also when that is a
# different DST period than the moment the logging module was imported.  Zones are POSIX TZ strings (no tzdata needed);
# the instants are given in UTC, the period each lies in is stated by hand from the rule in the string.


def _utc_us(y: int, mo: int, d: int, h: int, mi: int, sec: int, us: int = 0) -> int:
    delta = datetime.datetime(y, mo, d, h, mi, sec, us, tzinfo=datetime.timezone.utc) - EPOCH
    return (delta.days * 86400 + delta.seconds) * 1_000_000 + delta.microseconds


DST_ZONES: dict[str, tuple[str, list[tuple[str, str, int]]]] = {
    # central Europe 2024: daylight time from 03-31 01:00 UTC to 10-27 01:00 UTC
    "CET": (
        "CET-1CEST,M3.5.0,M10.5.0/3",
        [
            ("january", "standard-time", _utc_us(2024, 1, 15, 12, 0, 0, 1)),
            ("last-instant-before-spring-switch", "standard-time", _utc_us(2024, 3, 31, 0, 59, 59, 999_999)),
            ("first-instant-after-spring-switch", "daylight-time", _utc_us(2024, 3, 31, 1, 0, 0)),
            ("july", "daylight-time", _utc_us(2024, 7, 15, 12, 0, 0, 500_000)),
            ("autumn-0230-local-first-pass", "daylight-time", _utc_us(2024, 10, 27, 0, 30, 0)),
            ("autumn-0230-local-second-pass", "standard-time", _utc_us(2024, 10, 27, 1, 30, 0)),
            ("december", "standard-time", _utc_us(2024, 12, 1, 8, 0, 0, 123_456)),
        ],
    ),
    # south-east Australia 2024: daylight time until 04-06 16:00 UTC and from 10-05 16:00 UTC
    "AEST": (
        "AEST-10AEDT,M10.1.0,M4.1.0/3",
        [
            ("january", "daylight-time", _utc_us(2024, 1, 15, 12, 0, 0, 1)),
            ("autumn-0230-local-first-pass", "daylight-time", _utc_us(2024, 4, 6, 15, 30, 0)),
            ("autumn-0230-local-second-pass", "standard-time", _utc_us(2024, 4, 6, 16, 30, 0)),
            ("july", "standard-time", _utc_us(2024, 7, 15, 12, 0, 0, 500_000)),
            ("last-instant-before-spring-switch", "standard-time", _utc_us(2024, 10, 5, 15, 59, 59, 999_999)),
            ("first-instant-after-spring-switch", "daylight-time", _utc_us(2024, 10, 5, 16, 0, 0)),
            ("december", "daylight-time", _utc_us(2024, 12, 1, 8, 0, 0, 123_456)),
        ],
    ),
}
DEFAULT_TZ = "XXX-05:30"  # fixed offset, no DST: the zone of every other family


# a record spec is a JSON-able 4-tuple (level name, tags index, text key, with exception trace)
RecSpec = tuple[str, int, str, bool]


def ref_record(spec: RecSpec, position: int, t0_us: int = 0, times_us: list[int] | None = None) -> dict[str, Any]:
    level, tags_i, text_k, exc = spec
    return {
        "text": TEXTS[text_k],
        "level": level,
        "levelno": LEVEL_NO[level],
        "prio": PRIO_OF_LEVEL[level],
        "tags": TAGS[tags_i],
        "ts_us": ts_us(position, t0_us) if times_us is None else times_us[position],
        "exc": exc,
    }


def ref_log(specs: list[RecSpec], file_level: str = "TRACE", t0_us: int = 0, times_us: list[int] | None = None) -> list[dict[str, Any]]:
    """the records a run logs into the file: those at or above the file level, in call order."""
    floor = LEVEL_NO[file_level]
    return [r for i, s in enumerate(specs) if (r := ref_record(s, i, t0_us, times_us))["levelno"] >= floor]


# -- file variants ---------------------------------------------------------------------
#
# The statement speaks about reading "with or without the syslog-style priority prefix" and about ".zst, .gz and plain
# input".  Besides the file exactly as the handler wrote it (every line prefixed, every line newline-terminated) the
# reader is therefore given the same records as: prefix stripped from every line; prefix stripped from any subset of
# the lines (a log assembled from prefixed and unprefixed sources); and each of those without the final newline (a log
# that went through a tool which drops it).  The records - and hence every expected slice - are the same for all variants.


def variant_name(mask: tuple[int, ...], nonl: bool) -> str:
    """mask[i] = 1: line i keeps its '<prio>' prefix."""
    if all(mask):
        base = "prefix"
    elif not any(mask):
        base = "noprefix"
    else:
        base = "mixed-" + "".join(map(str, mask))
    return base + ("-nonl" if nonl else "")


def variant_kind(name: str) -> str:
    """class of a variant for signatures (the exact mask is part of the message, not of the signature)."""
    nonl = name.endswith("-nonl")
    base = name[: -len("-nonl")] if nonl else name
    if base.startswith("mixed-"):
        base = "mixed"
    return base + ("-nonl" if nonl else "")


def extra_variants(n: int, masks: str) -> list[tuple[tuple[int, ...], bool]]:
    """(mask, final newline stripped) of the variants beyond 'prefix' and 'noprefix'.

    masks = "all": every one of the 2^n - 2 mixed prefix patterns; "alt": the two alternating patterns.
    Newline-less: all prefixed, none prefixed, and the alternating patterns.
    """
    if n == 0:
        return []
    alt = [tuple((i + ph) % 2 for i in range(n)) for ph in (0, 1)] if n >= 2 else []
    if masks == "all":
        mixed = [m for m in itertools.product((0, 1), repeat=n) if any(m) and not all(m)]
    else:
        mixed = list(alt)
    out = [(m, False) for m in mixed]
    out += [((1,) * n, True), ((0,) * n, True)] + [(m, True) for m in alt]
    return out


# -- record equality -----------------------------------------------------------------


def admitted_text(text: str, trace: str | None) -> list[tuple[str, str | None]]:
    """admitted (data, stacktrace) pairs for a record logged with message ``text`` and an exception trace.

    The statement does not say where the trace is stored: in the separate stacktrace field, or appended to
    the text on a new line (what logging's QueueHandler does before the record reaches the file handler).
    """
    if trace is None:
        return [(text, None)]
    out: list[tuple[str, str | None]] = [(text, trace), (text + "\n" + trace, None)]
    if text.endswith("\n"):
        out.append((text + trace, None))
    return out


def record_mismatches(ref: dict[str, Any], obs: dict[str, Any], trace: str | None) -> list[str]:
    """clauses of the round-trip statement that ``obs`` (canonical observation) breaks."""
    bad = []
    if (obs["data"], obs["stacktrace"]) not in admitted_text(ref["text"], trace):
        bad.append("text")
    if obs["prio"] != ref["prio"] or obs["level_from_prio"] != ref["levelno"] or obs["levelno"] not in (None, ref["levelno"]):
        bad.append("level")
    if obs["tags"] != ref["tags"]:
        bad.append("tags")
    if obs["dt"] is None or obs["dt"].tzinfo is None or obs["dt"] != ts_datetime(ref["ts_us"]):
        bad.append("timestamp")
    return bad


# -- slices --------------------------------------------------------------------------


def _uniq(lists: list[list[int]]) -> list[list[int]]:
    out: list[list[int]] = []
    for x in lists:
        if x not in out:
            out.append(x)
    return out


def offset_class(n: int, k: int) -> str:
    if k >= 0:
        return "0<=offset<len" if (k < n or k == 0) else "offset>=len"
    return "-len<=offset<0" if -k <= n else "offset<-len"


def expect_records(prios: list[int], p: int, k: int, reverse: bool) -> tuple[list[list[int]], bool]:
    """``records(priority=p, offset=k, reverse)`` on a log whose records have severities ``prios``.

    Returns (admitted index lists, may_raise).

    * k >= 0 counts from the start, k < 0 from the end (tail); |k| > n selects the whole log
      ("also for logs shorter than the requested line count"); k = 0 is the whole log.
    * k >= n > 0 or k > 0 = n lies outside what the statement speaks about: the empty slice *or* an error.
    * reverse: the statement says "the corresponding slice, last first".  With an explicit offset two
      readings exist - the forward slice reversed (k..n-1 backwards), or walking back from record k to the
      start - both are admitted; for k = 0 / whole-log they differ too (whole log backwards vs. only r0) and
      both are admitted at API level.  The ``hr --reverse`` oracle admits only the whole log backwards.
    """
    n = len(prios)
    may_raise = False
    if k < 0:
        start = max(n + k, 0)
    elif k == 0 or k < n:
        start = k
    else:
        start = n
        may_raise = True
    sel = [i for i in range(start, n)]
    if not reverse:
        return [[i for i in sel if prios[i] <= p]], may_raise
    a = [i for i in reversed(sel) if prios[i] <= p]
    walk = list(range(start, -1, -1)) if start < n else []
    b = [i for i in walk if prios[i] <= p]
    return _uniq([a, b]), may_raise


def hr_line_counts(n: int) -> list[int]:
    return sorted({x for x in (0, 1, n - 1, n, n + 1, 100) if x >= 0})


def expect_hr(prios: list[int], p: int, mode: str, lines: int) -> list[list[int]]:
    """admitted outputs (as index lists) of hr for mode in {forward, reverse, head, tail}.

    head/tail combined with a priority threshold: the statement does not say whether the line count applies
    before or after filtering, so both "first/last n of the filtered records" and "filtered records among the
    first/last n" are admitted (they coincide for the threshold trace).
    """
    n = len(prios)
    flt = [i for i in range(n) if prios[i] <= p]
    if mode == "forward":
        return [flt]
    if mode == "reverse":
        return [flt[::-1]]
    if mode == "head":
        return _uniq([flt[:lines], [i for i in range(min(lines, n)) if prios[i] <= p]])
    if mode == "tail":
        last = flt[len(flt) - lines :] if lines else []
        return _uniq([last, [i for i in range(max(n - lines, 0), n) if prios[i] <= p]])
    raise ValueError(mode)


def multi_line_counts(lengths: list[int]) -> list[int]:
    return sorted({x for n in lengths for x in (0, 1, n - 1, n, n + 1, 100) if x >= 0})


def expect_hr_multi(prios_per_file: list[list[int]], p: int, mode: str, lines: int) -> list[list[tuple[int, int]]]:
    """hr with several FILE arguments = the outputs for the single files, one after the other, each file judged by
    itself (the line count applies per file); result: admitted lists of (argument position, record index)."""
    per_file = [expect_hr(prios, p, mode, lines) for prios in prios_per_file]
    out: list[list[tuple[int, int]]] = []
    for combo in itertools.product(*per_file):
        flat = [(pos, i) for pos, idx in enumerate(combo) for i in idx]
        if flat not in out:
            out.append(flat)
    return out


def classify(obs: list[int], admitted: list[list[int]]) -> str:
    """generic shape of a wrong slice (for the signature)."""
    want = admitted[0]
    if -1 in obs:
        return "foreign-record"
    if len(set(obs)) != len(obs):
        return "duplicate-records"
    if sorted(obs) == sorted(want):
        return "wrong-order"
    if set(obs) < set(want):
        return "records-missing"
    if set(obs) > set(want):
        return "extra-records"
    return "wrong-slice"


def classify_reverse(obs: list[int], prios: list[int], p: int, k: int, admitted: list[list[int]]) -> str:
    """shape of a wrong reverse read; two exact patterns get a name of their own so that a finding entry
    stands for precisely that behaviour and any other wrong order keeps a generic (different) signature."""
    n = len(prios)
    if 0 <= k < n:
        walk = list(range(k, -1, -1))
        wraps = [i for i in walk + list(range(n - 1, -1, -1)) if prios[i] <= p]
        if obs == wraps:
            return "walks-back-to-record0-then-wraps-to-the-end-and-repeats"
        if k == 0:
            first_then_rest = [i for i in [0] + list(range(n - 1, 0, -1)) if prios[i] <= p]
            if obs == first_then_rest:
                return "record0-first-then-the-rest-backwards"
    return classify(obs, admitted)


def classify_tail(obs: list[int], prios: list[int], p: int, lines: int, admitted: list[list[int]]) -> str:
    if lines == 0 and obs == [i for i in range(len(prios)) if prios[i] <= p] and obs:
        return "prints-whole-log"
    return classify(obs, admitted)


# -- cursor model for operation sequences -----------------------------------------------


class Cursor:
    """What the statement (plus the obvious meaning of the method names) fixes about the reader state.

    ``pos``  index of the record the next readline() returns (n = end of log); None = not determined
    ``idx``  the record last sought to by number (target of seek_to_current/next/previous); None = not determined
    ``last`` index of the record returned by the last readline() ("current record"), "eof", or None
    Everything the statement is silent about turns the respective component into None (then nothing is
    demanded until an absolute operation - seek_to_record, records - determines it again).
    """

    def __init__(self, n: int) -> None:
        self.n = n
        self.pos: int | None = 0
        self.idx: int | None = 0
        self.last: int | str | None = None

    def key(self) -> tuple[Any, ...]:
        return (self.pos, self.idx, self.last)

    def copy(self) -> Cursor:
        c = Cursor(self.n)
        c.pos, c.idx, c.last = self.pos, self.idx, self.last
        return c

    def _goto(self, i: int | None) -> bool:
        """relative seek target i (None = unknown); returns True when the op is specified (must succeed)."""
        if i is not None and (0 <= i < self.n or i == 0):
            self.idx = self.pos = i
            return True
        self.idx = self.pos = None
        return False

    def seek_to_record(self, k: int) -> bool:
        n = self.n
        if 0 <= k < n or k == 0:
            self.pos = self.idx = k
            return True
        if -n <= k < 0:  # from the end, like the tail offset of records()
            self.pos = n + k
            self.idx = None
            return True
        self.pos = self.idx = None
        return False

    def seek_to_current_record(self) -> bool:
        if self.idx is None:
            self.pos = None
            return False
        self.pos = self.idx
        return True

    def seek_to_next_record(self) -> bool:
        return self._goto(None if self.idx is None else self.idx + 1)

    def seek_to_previous_record(self) -> bool:
        return self._goto(None if self.idx is None else self.idx - 1)

    def readline(self) -> int | str | None:
        """index of the line that must be returned, "eof" for b"", None = not determined."""
        if self.pos is None:
            self.last = None
            return None
        if self.pos >= self.n:
            self.last = "eof"
            return "eof"
        self.last = self.pos
        self.pos += 1
        return self.last

    def after_records(self) -> None:
        # where an iteration leaves the cursor is not part of the statement
        self.idx = self.pos = self.last = None
