"""vloop - a virtual-time asyncio event loop that is stepped by hand.

The loop has no selector, no self-pipe and no threads.  One call of
``iterate()`` corresponds to exactly one iteration of
``BaseEventLoop._run_once``:

    1. "I/O poll": callbacks handed in by the environment for this iteration
       are appended to ``_ready`` (behind what is already there - this is where
       the selector's event callbacks land in the real loop),
    2. timers that are due at the (virtual) clock are moved to ``_ready``,
    3. the handles that are in ``_ready`` *now* are run FIFO; what they schedule
       runs in the next iteration.

Nothing else ever runs a callback.  Anything that would need a thread, a
socket or the real clock raises ``UncontrolledNondeterminism``.
"""

from __future__ import annotations

import asyncio
import gc
import heapq
from asyncio import base_events, events
from collections.abc import Callable
from typing import Any


class UncontrolledNondeterminism(RuntimeError):
    pass


class VLoop(base_events.BaseEventLoop):
    def __init__(self) -> None:
        super().__init__()
        self._vtime = 0.0
        self._clock_resolution = 1e-9
        self.exc_contexts: list[dict[str, Any]] = []
        self.set_exception_handler(self._collect_exc)
        self.iterations = 0

    # -- clock ---------------------------------------------------------
    def time(self) -> float:
        return self._vtime

    # -- things we refuse ------------------------------------------------
    def _refuse(self, *a: Any, **k: Any) -> Any:
        raise UncontrolledNondeterminism("code under vloop reached an uncontrolled seam")

    def _write_to_self(self) -> None:  # called by call_soon_threadsafe
        raise UncontrolledNondeterminism("call_soon_threadsafe under vloop")

    def call_soon_threadsafe(self, *a: Any, **k: Any) -> Any:
        raise UncontrolledNondeterminism("call_soon_threadsafe under vloop")

    def run_in_executor(self, *a: Any, **k: Any) -> Any:
        raise UncontrolledNondeterminism("run_in_executor under vloop")

    async def getaddrinfo(self, *a: Any, **k: Any) -> Any:
        raise UncontrolledNondeterminism("getaddrinfo under vloop")

    async def create_connection(self, *a: Any, **k: Any) -> Any:
        raise UncontrolledNondeterminism("create_connection under vloop")

    async def create_unix_connection(self, *a: Any, **k: Any) -> Any:
        raise UncontrolledNondeterminism("create_unix_connection under vloop")

    async def create_server(self, *a: Any, **k: Any) -> Any:
        raise UncontrolledNondeterminism("create_server under vloop")

    async def create_datagram_endpoint(self, *a: Any, **k: Any) -> Any:
        raise UncontrolledNondeterminism("create_datagram_endpoint under vloop")

    async def subprocess_exec(self, *a: Any, **k: Any) -> Any:
        raise UncontrolledNondeterminism("subprocess under vloop")

    async def subprocess_shell(self, *a: Any, **k: Any) -> Any:
        raise UncontrolledNondeterminism("subprocess under vloop")

    def add_signal_handler(self, *a: Any, **k: Any) -> Any:
        raise UncontrolledNondeterminism("signal handler under vloop")

    def add_reader(self, *a: Any, **k: Any) -> Any:
        raise UncontrolledNondeterminism("add_reader under vloop")

    def add_writer(self, *a: Any, **k: Any) -> Any:
        raise UncontrolledNondeterminism("add_writer under vloop")

    def _process_events(self, event_list: Any) -> None:  # pragma: no cover
        pass

    # -- bookkeeping -----------------------------------------------------
    def _collect_exc(self, loop: Any, context: dict[str, Any]) -> None:
        self.exc_contexts.append(context)

    def install(self) -> None:
        events._set_running_loop(self)

    def uninstall(self) -> None:
        events._set_running_loop(None)

    def ready_n(self) -> int:
        return sum(1 for h in self._ready if not h._cancelled)

    def _purge_cancelled_head(self) -> None:
        while self._scheduled and self._scheduled[0]._cancelled:
            self._timer_cancelled_count -= 1
            h = heapq.heappop(self._scheduled)
            h._scheduled = False

    def next_timer(self) -> float | None:
        self._purge_cancelled_head()
        if self._scheduled:
            return self._scheduled[0]._when
        return None

    def live_timers(self) -> list[float]:
        return sorted(h._when for h in self._scheduled if not h._cancelled)

    # -- the step --------------------------------------------------------
    def iterate(
        self,
        io: list[Callable[[], Any]] | None = None,
        advance: bool = False,
    ) -> None:
        """One iteration of the event loop.

        io:      callbacks the "selector" reports for this iteration
        advance: let the clock jump to the earliest live timer first (the
                 selector slept until then)
        """
        self.iterations += 1
        if advance:
            nt = self.next_timer()
            if nt is not None and nt > self._vtime:
                self._vtime = nt
        if io:
            for cb in io:
                self.call_soon(cb)
        self._purge_cancelled_head()
        end_time = self._vtime + self._clock_resolution
        while self._scheduled:
            handle = self._scheduled[0]
            if handle._when >= end_time:
                break
            handle = heapq.heappop(self._scheduled)
            handle._scheduled = False
            self._ready.append(handle)
        ntodo = len(self._ready)
        for _ in range(ntodo):
            handle = self._ready.popleft()
            if handle._cancelled:
                continue
            handle._run()
        handle = None

    def drain_exc_contexts(self) -> list[dict[str, Any]]:
        gc.collect(1)
        out = self.exc_contexts
        self.exc_contexts = []
        return out

    def shutdown(self) -> None:
        """Cancel what is left and drop the loop (end of one execution)."""
        try:
            tasks = [t for t in asyncio.all_tasks(self) if not t.done()]
            for t in tasks:
                t.cancel()
            for _ in range(50):
                if not self._ready:
                    break
                self.iterate()
        finally:
            self.uninstall()
            self._ready.clear()
            self._scheduled.clear()
            # BaseEventLoop.__del__ warns if not closed
            self._closed = True
