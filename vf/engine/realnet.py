"""Conformance side of the environment model: run the same Peer scripts that drive the in-memory
streams of vf.engine.netsim over REAL loopback TCP sockets on a REAL asyncio event loop.

A check replays a handful of its explored scenarios here and compares the observable results
(bytes returned, exception classes, wire bytes) with what the virtual run produced.  Every
segment queued by a peer is written and drained separately with TCP_NODELAY and a short pause,
so that the kernel delivers it as its own segment; EOF is a real shutdown(SHUT_WR)+close, RST a
close with SO_LINGER 0.
"""

from __future__ import annotations

import asyncio
import socket
import struct
from collections.abc import Awaitable, Callable
from typing import Any

from vf.engine.netsim import EOF, RST, Peer


class _Out:
    def __init__(self, conn: RealConn) -> None:
        self.conn = conn

    def append(self, item: Any) -> None:
        self.conn.q.put_nowait(item)

    def __len__(self) -> int:
        return self.conn.q.qsize()


class RealConn:
    """what a Peer sees as `self.conn` when it runs on a real socket"""

    def __init__(self, reader: asyncio.StreamReader, writer: asyncio.StreamWriter, peer: Peer, gap: float) -> None:
        self.reader = reader
        self.writer = writer
        self.peer = peer
        self.loop = asyncio.get_running_loop()
        self.q: asyncio.Queue[Any] = asyncio.Queue()
        self.out = _Out(self)
        self.gap = gap
        self.wire = bytearray()
        peer.conn = self  # type: ignore[assignment]
        sock = writer.get_extra_info("socket")
        sock.setsockopt(socket.IPPROTO_TCP, socket.TCP_NODELAY, 1)
        self.sock = sock

    async def pump(self) -> None:
        while True:
            item = await self.q.get()
            if item == EOF:
                try:
                    self.writer.write_eof()
                except OSError:
                    pass
                continue
            if item == RST:
                self.sock.setsockopt(socket.SOL_SOCKET, socket.SO_LINGER, struct.pack("ii", 1, 0))
                self.writer.transport.abort()
                return
            try:
                self.writer.write(item)
                await self.writer.drain()
            except ConnectionError:
                return
            await asyncio.sleep(self.gap)

    async def serve(self) -> None:
        pump = asyncio.create_task(self.pump())
        self.peer.on_connect()
        try:
            while True:
                data = await self.reader.read(65536)
                if not data:
                    break
                self.wire += data
                self.peer.on_data(data)
        except ConnectionError:
            pass
        finally:
            self.peer.on_client_close()
            await asyncio.sleep(self.gap)
            pump.cancel()
            try:
                self.writer.close()
            except Exception:  # noqa: BLE001
                pass


def run_real(
    peer_factory: Callable[[int], Peer | None],
    client: Callable[[str, int], Awaitable[Any]],
    gap: float = 0.01,
    timeout: float = 30.0,
) -> tuple[Any, list[RealConn]]:
    """Start a loopback server whose connections are driven by peer_factory(n), run client(host, port)."""
    conns: list[RealConn] = []

    async def main() -> Any:
        n = 0

        async def handler(reader: asyncio.StreamReader, writer: asyncio.StreamWriter) -> None:
            nonlocal n
            peer = peer_factory(n)
            n += 1
            if peer is None:
                writer.close()
                return
            c = RealConn(reader, writer, peer, gap)
            conns.append(c)
            await c.serve()

        server = await asyncio.start_server(handler, "127.0.0.1", 0)
        port = server.sockets[0].getsockname()[1]
        try:
            return await asyncio.wait_for(client("127.0.0.1", port), timeout)
        finally:
            server.close()
            for t in asyncio.all_tasks():
                if t is not asyncio.current_task():
                    t.cancel()

    return asyncio.run(main()), conns
