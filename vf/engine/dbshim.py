"""Stand-in for the ``aiosqlite`` API subset gallia uses, for code running on a VLoop.

aiosqlite runs a real thread and reports back with ``call_soon_threadsafe``; under
the virtual loop that is uncontrolled nondeterminism.  Here every awaited operation
is queued; a ``DbWorker`` actor (one per Run) completes the *oldest* pending operation
when the explorer fires it - exactly the FIFO behaviour of aiosqlite's single worker
thread, but with the completion instant owned by the explorer.  Statements run on a
real ``sqlite3`` connection, so the resulting file is a real database.
"""

from __future__ import annotations

import asyncio
import sqlite3
from collections import deque
from collections.abc import Callable
from pathlib import Path
from typing import Any

from vf.engine.explore import Action

OperationalError = sqlite3.OperationalError
Error = sqlite3.Error
IntegrityError = sqlite3.IntegrityError


class DbWorker:
    """explorer actor: completes pending database operations FIFO"""

    current: DbWorker | None = None

    def __init__(self) -> None:
        self.pending: deque[tuple[str, Callable[[], Any], asyncio.Future[Any]]] = deque()
        self.completed = 0
        self.log: list[str] = []
        self.fail_next: list[BaseException] = []  # injected faults for the next operations
        self.fail_matching: list[tuple[str, int, BaseException]] = []  # (label prefix, k, exc): fail the k-th op whose label starts with prefix
        self._match_counts: dict[str, int] = {}
        # slow disk: when an operation whose label starts with `stall_on` reaches the head of the queue for the first time, nothing
        # completes for the next `stall_iterations` scheduler iterations (operations keep piling up behind it)
        self.stall_on: str | None = None
        self.stall_iterations = 0
        self._stall_left: int | None = None
        DbWorker.current = self

    def submit(self, label: str, fn: Callable[[], Any]) -> asyncio.Future[Any]:
        fut: asyncio.Future[Any] = asyncio.get_running_loop().create_future()
        self.pending.append((label, fn, fut))
        return fut

    def _complete(self) -> None:
        if not self.pending:
            return
        label, fn, fut = self.pending.popleft()
        self.completed += 1
        self.log.append(label)
        if fut.cancelled():
            # like aiosqlite: the statement still runs in the worker thread, the result is dropped
            try:
                fn()
            except Exception:  # noqa: BLE001
                pass
            return
        try:
            if self.fail_next:
                raise self.fail_next.pop(0)
            for i, (prefix, k, exc) in enumerate(self.fail_matching):
                if label.startswith(prefix):
                    n = self._match_counts.get(prefix, 0)
                    self._match_counts[prefix] = n + 1
                    if n == k:
                        del self.fail_matching[i]
                        raise exc
                    break
            fut.set_result(fn())
        except BaseException as e:  # noqa: BLE001
            if not fut.done():
                fut.set_exception(e)

    def actions(self) -> list[Action]:
        if not self.pending:
            return []
        if self.stall_on is not None and self._stall_left is None and self.pending[0][0].startswith(self.stall_on):
            self._stall_left = self.stall_iterations
        if self._stall_left:
            self._stall_left -= 1
            return [Action("db:busy", [lambda: None], advance=True, idle=True)]  # the disk is busy: time passes, nothing completes
        return [Action(f"db:{self.pending[0][0]}", [self._complete])]


class Cursor:
    def __init__(self, cur: sqlite3.Cursor) -> None:
        self._cur = cur

    @property
    def lastrowid(self) -> int | None:
        return self._cur.lastrowid

    @property
    def rowcount(self) -> int:
        return self._cur.rowcount

    async def fetchone(self) -> Any:
        w = DbWorker.current
        assert w is not None
        return await w.submit("fetchone", self._cur.fetchone)

    async def fetchall(self) -> Any:
        w = DbWorker.current
        assert w is not None
        return await w.submit("fetchall", self._cur.fetchall)

    async def close(self) -> None:
        self._cur.close()

    async def __aenter__(self) -> Cursor:
        return self

    async def __aexit__(self, *a: Any) -> None:
        await self.close()


class Connection:
    def __init__(self, path: Path | str) -> None:
        self._path = str(path)
        self._conn: sqlite3.Connection | None = None
        self._last = ""  # label of the last statement (a commit is labelled with what it commits)

    def _w(self) -> DbWorker:
        w = DbWorker.current
        assert w is not None, "no DbWorker installed for this run"
        return w

    async def _open(self) -> Connection:
        def op() -> None:
            self._conn = sqlite3.connect(self._path, check_same_thread=False)

        await self._w().submit("connect", op)
        return self

    def __await__(self) -> Any:
        return self._open().__await__()

    async def __aenter__(self) -> Connection:
        return await self._open()

    async def __aexit__(self, *a: Any) -> None:
        await self.close()

    async def execute(self, sql: str, parameters: Any = None) -> Cursor:
        def op() -> Cursor:
            assert self._conn is not None, "connection closed"
            return Cursor(self._conn.execute(sql, parameters if parameters is not None else ()))

        words = sql.split(None, 3)
        label = "execute:" + words[0].upper() + (":" + words[2].split("(")[0] if len(words) > 2 and words[0].upper() == "INSERT" else "")
        self._last = label
        return await self._w().submit(label, op)

    async def executescript(self, sql: str) -> Cursor:
        def op() -> Cursor:
            assert self._conn is not None
            return Cursor(self._conn.executescript(sql))

        return await self._w().submit("executescript", op)

    async def commit(self) -> None:
        def op() -> None:
            assert self._conn is not None, "connection closed"
            self._conn.commit()

        await self._w().submit("commit:" + self._last, op)

    async def rollback(self) -> None:
        def op() -> None:
            assert self._conn is not None
            self._conn.rollback()

        await self._w().submit("rollback", op)

    async def close(self) -> None:
        def op() -> None:
            if self._conn is not None:
                self._conn.close()
                self._conn = None

        await self._w().submit("close", op)


def connect(database: Path | str, **kwargs: Any) -> Connection:
    return Connection(database)
